"""C11 - thresholds depend only on masked pixels and respect range and band limits."""
import importlib.util
import json
import math
import os
from fractions import Fraction

import numpy as np

ID = "C11"
PROPS_FILE = "theories/Props/C11.v"
EXTRACT = ("theories/Extract/XC11.v", "c11", ["entry_run", "entry_ref", "entry_check", "entry_fmul", "entry_fmul32", "entry_otsu",
                                               "entry_geom", "entry_check_po", "entry_check_blocks", "entry_robust", "entry_mct", "entry_rc"])
PYX = {}
CASE_TIMEOUT = 120
METHODS = ["Otsu", "MoG", "Background", "RobustBackground", "RidlerCalvard", "Kapur", "MCT"]
MODS = ["Global", "Adaptive", "PerObject"]
BRACKET = ("Otsu", "RidlerCalvard", "MCT")
SUB = 256      # local thresholds handed to the extracted model per case (all of them for images up to 16x16)

RULE = ("images 12x12..48x48 of four kinds (uniform, bimodal, quantised to 8 levels, nearly dark) x mask density "
        "{0.5, 0.9, 1, None, blob} x 7 methods x 3 modifiers x range {(0,1), (0.1,0.6), random, one-sided/None for "
        "Global} x correction factor {0.5, 1, 2, 0.8, 1.3, random}; per case get_threshold is called twice on the "
        "image and once per perturbation (pixels outside the mask := 0 / 1 / noise), the raw thresholds are fetched "
        "from the staged get_global/adaptive/per_object_threshold and run through the extracted model of the "
        "REGENERATED get_threshold program (all pixels up to 256, else 256 sampled incl. extremes); per-object "
        "cases also perturb the pixels of the other objects; otsu cases: dyadic data through the Q model plus "
        "permutation / NaN / affine variants; non-trivial = at least 3 distinct masked values and (thr) at least "
        "one pixel outside the mask; distinct by hash")
TRUSTED = [
    "tools/gen_threshold_c11.py (Python ast -> Gallina program, band literals, access classes): fail-closed translator",
    "modelled, not verified: the numerical bodies of the seven methods, RectBivariateSpline, log/exp, "
    "scipy.ndimage.find_objects; they enter the model as the raw thresholds measured on the staged functions",
    "binary64 product modelled by Base.ThresholdNum.fmul (round-to-nearest-even of the exact product), "
    "cross-checked against the hardware product on every case and by entry_fmul samples",
    "otsu Q model vs floating-point otsu: compared at relative 1e-9 on dyadic data whose arg-min gap exceeds 1e-6",
]
ASSUMPTIONS = [
    "image values in [0,1], finite; 0 <= range_min <= range_max; correction factor > 0",
    "at least three distinct masked values (bracket clause)",
    "adaptive / per-object modes are called with both range limits (with None the code raises TypeError in "
    "Python 3; model and code are checked to reject alike)",
    "the mask is read as a BOOLEAN array: the Coq access-shape theorems (access_crop_first, crop_first_noninterference*) model "
    "image[mask] as boolean selection. A 0/1 mask of integer dtype makes image[mask] fancy row indexing in all seven methods: known "
    "finding F24/C11 (stream `imask`, attributed only when the same calls with mask.astype(bool) pass)",
    "reading of 'every local threshold lies within the range and the band': in per-object mode with a labels matrix the pixels with "
    "label 0 carry the code's sentinel 1.0 ('never foreground', threshold.py:172-173) and are outside the range / band clauses "
    "(S3 is stated and checked for labelled pixels; local_in_band excludes `unlabelled` positions); determinism, non-interference "
    "and the exact correspondence cover every pixel including those",
    "a call that raises returns no threshold, so no clause about thresholds applies to it; what is still required is that the "
    "outcome (the same exception type) does not change when the call is repeated or masked-out pixels change: adaptive_window_size=1 "
    "(RectBivariateSpline ValueError), Kapur on near-saturated 8-bit data (empty arg-min ValueError), None range limits (TypeError) "
    "are produced by the generator and counted",
]
EXHAUSTIVE = {"quick": False, "thorough": False}


# ------------------------------------------------------------------ translator

def _gen_module():
    p = os.path.join(os.path.dirname(os.path.dirname(os.path.dirname(os.path.abspath(__file__)))),
                     "tools", "gen_threshold_c11.py")
    spec = importlib.util.spec_from_file_location("gen_threshold_c11", p)
    mod = importlib.util.module_from_spec(spec)
    spec.loader.exec_module(mod)
    return mod


def gen_files(ctx):
    mod = _gen_module()
    return {"theories/Gen/ThresholdC11.v": mod.translate(ctx.staged_source("centrosome/threshold.py"),
                                                         ctx.staged_source("centrosome/smooth.py"),
                                                         ctx.staged_source("centrosome/otsu.py"))}


# ------------------------------------------------------------------ generation

LDTYPES = ["int64", "int32", "int16", "int8", "uint8", "uint16", "uint32"]
LAYOUTS = ["C", "C", "F", "strided", "readonly"]


def _image(rng, H, W, kind):
    if kind == "uni":
        return rng.rand(H, W)
    if kind == "bimodal":
        return np.where(rng.rand(H, W) < 0.3, 0.7 + 0.1 * rng.randn(H, W), 0.2 + 0.05 * rng.randn(H, W)).clip(0, 1)
    if kind == "quant":
        return rng.randint(0, 8, (H, W)) / 8.0
    if kind == "sat8":                             # near-saturated 8-bit data: Kapur's smoothed histogram collapses
        return rng.randint(253, 256, (H, W)) / 255.0
    if kind == "const":
        return np.full((H, W), float(rng.choice([0.0, 0.25, 1.0])))
    if kind == "two":
        return np.where(rng.rand(H, W) < 0.5, 0.25, 0.75)
    return rng.rand(H, W) * 0.05


def _mask(rng, H, W):
    u = rng.rand()
    if u < 0.12:
        return None
    if u < 0.22:
        return np.ones((H, W), bool)
    if u < 0.38:
        yy, xx = np.mgrid[0:H, 0:W]
        cy, cx, r = rng.uniform(0.3, 0.7) * H, rng.uniform(0.3, 0.7) * W, rng.uniform(0.3, 0.6) * min(H, W)
        return ((yy - cy) ** 2 + (xx - cx) ** 2) < r * r
    if u < 0.44:                                   # degenerate: 0, 1 or 2 masked pixels
        m = np.zeros((H, W), bool)
        for _ in range(int(rng.randint(0, 3))):
            m[int(rng.randint(H)), int(rng.randint(W))] = True
        return m
    return rng.rand(H, W) < rng.choice([0.5, 0.7, 0.9])


def _labels(rng, H, W, top=120):
    lab = np.zeros((H, W), int)
    u = rng.rand()
    if u < 0.4 and H >= 8 and W >= 8:
        lab[2:H // 2, 2:W // 2] = 1
        lab[H // 2 + 1:H - 2, W // 2 + 1:W - 2] = 2
        if rng.rand() < 0.5:
            lab[1:H // 3, W // 2 + 2:W - 1] = 3
    elif u < 0.8:
        n = int(rng.randint(1, 5))
        for k in range(1, n + 1):
            y0, x0 = int(rng.randint(0, max(1, H - 3))), int(rng.randint(0, max(1, W - 3)))
            h, w = int(rng.randint(2, max(3, H // 2))), int(rng.randint(2, max(3, W // 2)))
            blk = lab[y0:y0 + h, x0:x0 + w]
            blk[blk == 0] = k
    else:                                          # label-free background: every pixel belongs to an object
        k = int(rng.randint(1, 4))
        lab[:] = 1 + (np.arange(W)[None, :] * k // W) + k * (np.arange(H)[:, None] * 2 // H)
    if rng.rand() < 0.65:
        # sparse, non-consecutive numbering, NOT in spatial order, within the label dtype's range: gaps before
        # the first label (1 absent), between labels, and a last label far beyond the others
        ids = [int(x) for x in np.unique(lab) if x > 0]
        rng.shuffle(ids)
        style = int(rng.randint(4))
        cur = 1 if style == 1 else int(rng.randint(2, 6))          # style 1: no gap at the start
        new = []
        for n_, _ in enumerate(ids):
            new.append(cur)
            cur += 1 if (style == 2 and n_ + 2 < len(ids)) else int(rng.randint(2, 9))   # style 2: gap only before the last
        if style == 3 and new:
            new[-1] = top - 1 - int(rng.randint(3))                 # far end of the dtype's range
        new = [min(v, top - 1) for v in new]
        if len(set(new)) == len(new):
            out = np.zeros_like(lab)
            for o, nw in zip(ids, new):
                out[lab == o] = nw
            lab = out
    return lab


def _kwargs(rng, method):
    """non-default values for every keyword parameter of the method (half of the cases keep the defaults)"""
    if rng.rand() < 0.5:
        return {}
    if method == "Otsu":
        return {"two_class_otsu": bool(rng.rand() < 0.5), "use_weighted_variance": bool(rng.rand() < 0.5),
                "assign_middle_to_foreground": bool(rng.rand() < 0.5)}
    if method == "MoG":
        return {"object_fraction": float(rng.choice([0.05, 0.1, 0.35, 0.5, 0.8]))}
    if method == "RobustBackground":
        return {"lower_outlier_fraction": float(rng.choice([0.0, 0.05, 0.2])),
                "upper_outlier_fraction": float(rng.choice([0.0, 0.05, 0.3])),
                "deviations_above_average": float(rng.choice([0.0, 1.0, 2.0, 3.5])),
                "average_fn": str(rng.choice(["mean", "median", "binned_mode"])),
                "variance_fn": str(rng.choice(["std", "mad"]))}
    if method == "MCT":
        return {"bins": int(rng.choice([16, 64, 256, 1000]))}
    return {}


def _thr_case(rng, method, mod, small=False):
    u = rng.rand()
    if u < 0.15:
        sizes = [4, 5, 6, 8, 9]                    # tiny: blocks of 2-4 pixels, objects of a few pixels
    elif method == "MoG":
        sizes = [12, 16] if mod == 1 else [12, 16, 20, 24]
    else:
        sizes = [12, 16, 20, 24] if small else [12, 16, 20, 24, 32, 40, 48]
    H, W = int(rng.choice(sizes)), int(rng.choice(sizes))
    if mod == 1 and method != "MoG" and rng.rand() < 0.06:
        # sides for which int(nblocks * increment) rounds down (59 = 29 blocks of window 2 ending at 58; 61 = 7 of 8)
        H, W = int(rng.choice([59, 61, 24])), int(rng.choice([59, 61, 16]))
    kind = str(rng.choice(["uni", "bimodal", "quant", "dark", "uni", "bimodal", "quant", "dark", "const", "two"]))
    if method == "Kapur" and rng.rand() < 0.15:
        kind = "sat8"
    img = _image(rng, H, W, kind)
    mask = _mask(rng, H, W)
    wins = [w for w in (2, 3, 4, 5, 6, 8, 10) if min(H, W) // w >= 2]
    window = int(rng.choice(wins))
    if mod == 1 and method != "MoG" and rng.rand() < 0.08:
        window = 1                                 # every method raises in RectBivariateSpline (knots outside the bbox)
    if max(H, W) > 48:
        window = int(rng.choice([2, 8]))
    u = rng.rand()
    if u < 0.3:
        lo, hi = 0.0, 1.0
    elif u < 0.5:
        lo, hi = 0.1, 0.6
    elif u < 0.8:
        a, b = sorted(rng.rand(2).tolist())
        lo, hi = a * 0.5, min(1.0, b + 0.05)
    elif u < 0.87:                                 # tight: a single admissible value
        lo = hi = float(rng.choice([0.1, 0.25, float(rng.rand())]))
    elif mod == 0:
        lo, hi = [(None, None), (None, float(rng.rand())), (float(rng.rand() * 0.3), None)][int(rng.randint(3))]
    else:
        lo, hi = [(None, None), (None, 1.0), (0.0, None)][int(rng.randint(3))]      # rejected alike
    u = rng.rand()
    cf = float(rng.choice([0.5, 1.0, 2.0, 0.8, 1.3])) if u < 0.7 else float(rng.uniform(0.3, 2.5))
    case = {"fn": "thr", "method": method, "mod": mod, "kind": kind, "img": img.tolist(),
            "mask": None if mask is None else mask.astype(int).tolist(),
            "labels": None, "lo": lo, "hi": hi, "cf": cf, "window": window,
            "pert": ["zero", "one", "noise"], "pseed": int(rng.randint(1 << 30)),
            "dtype": "float32" if rng.rand() < 0.3 else "float64",
            "ldtype": str(rng.choice(LDTYPES)), "layout": str(rng.choice(LAYOUTS)),
            "kw": _kwargs(rng, method)}
    if mod == 2 and rng.rand() < 0.8:
        top = {"int8": 127, "uint8": 255}.get(case["ldtype"], 1000)      # label numbers up to the dtype's range
        case["labels"] = _labels(rng, H, W, top).tolist()
    return case


def _size_thresholds(ctx):
    """per method: the pixel counts at which its function (and the otsu helpers it calls) changes branch, read
    from the integer constants the STAGED sources compare sizes with (get_mog_threshold: 512 ** 2)"""
    try:
        mod = _gen_module()
        th = mod.size_thresholds(ctx.staged_source("centrosome/threshold.py"))
        ot = mod.size_thresholds(ctx.staged_source("centrosome/otsu.py"))
    except Exception as e:
        ctx.note("size thresholds unavailable (%s): using the recorded ones" % e)
        th, ot = {"get_mog_threshold": [262144]}, {"otsu": [256], "otsu3": [128]}
    per = {}
    for m, fn in METHOD_FN.items():
        cs = set(th.get(fn, []))
        if m == "Otsu":
            for v in ot.values():
                cs.update(v)
        if m == "RidlerCalvard":
            cs.update(ot.get("otsu", []))
        per[m] = sorted(c for c in cs if c >= 2)
    return per


def _branch_cases(ctx, big=True, small=True):
    """inputs whose masked-pixel count is just below, at and just above every size threshold of every method
    function: small thresholds as ordinary (Global) cases, thresholds beyond the ordinary image sizes as `big`
    cases (seed-described image; two identical calls and one call with the masked-out pixels scrambled)"""
    rng = ctx.rng
    cases = []
    for method, cs in _size_thresholds(ctx).items():
        for c in cs:
            if c <= 2500 and small:
                for count in (c - 1, c, c + 1):
                    side = int(math.ceil(math.sqrt(1.5 * (count + 2)))) + 1
                    cc = _thr_case(rng, method, 0, small=True)
                    img = _image(rng, side, side, str(rng.choice(["uni", "bimodal"])))
                    mask = np.zeros(side * side, bool)
                    mask[rng.permutation(side * side)[:count]] = True
                    kw = {}
                    if method == "Otsu" and c == 128:
                        kw = {"two_class_otsu": False, "use_weighted_variance": bool(rng.rand() < 0.5),
                              "assign_middle_to_foreground": bool(rng.rand() < 0.5)}
                    cc.update(img=img.tolist(), mask=mask.reshape(side, side).astype(int).tolist(), labels=None, lo=0.0, hi=1.0,
                              kw=kw, dtype="float64", kind="uni", window=2)
                    cases.append(cc)
            elif c > 2500 and big and c <= 2000000:
                side_w = 560 if c < 300000 else int(math.ceil(math.sqrt(1.3 * c)))
                side_h = int(math.ceil(1.28 * (c + 1) / side_w))
                for count in (c + 1, c):
                    cases.append({"fn": "big", "method": method, "H": side_h, "W": side_w, "count": count,
                                  "seed": int(rng.randint(1 << 30)), "threshold": c})
    return cases


def _mal_case(rng, what):
    """malformed stream: inputs outside the property's quantifier; only outcome-level claims are made"""
    method = str(rng.choice(METHODS[:1] + METHODS[2:]))          # not MoG (slow, nothing new here)
    mod = int(rng.randint(3))
    H, W = int(rng.choice([6, 8, 12, 16])), int(rng.choice([6, 8, 12, 16]))
    c = _thr_case(rng, method, mod, small=True)
    img = _image(rng, H, W, "uni")
    c.update({"fn": "mal", "what": what, "img": img.tolist(), "mask": (rng.rand(H, W) < 0.7).astype(int).tolist(),
              "labels": _labels(rng, H, W).tolist() if mod == 2 else None, "lo": 0.0, "hi": 1.0, "kw": {},
              "window": int(rng.choice([w for w in (2, 3, 4) if min(H, W) // w >= 2])), "dtype": "float64"})
    if what == "window_too_large":
        c["mod"] = 1
        c["window"] = int(min(H, W) // 2 + 1 + rng.randint(0, 6))
    elif what == "int_image":
        c["dtype"] = str(rng.choice(["uint8", "uint16", "int32"]))
    return c


def _otsu_case(rng):
    n = int(rng.choice([2, 3, 5, 8, 17, 40, 100, 255, 256, 257, 300, 600]))
    bits = int(rng.choice([3, 6, 10, 16]))
    kind = str(rng.choice(["uni", "bimodal", "few"]))
    if kind == "uni":
        v = rng.randint(0, 1 << bits, n)
    elif kind == "bimodal":
        v = np.where(rng.rand(n) < 0.4, rng.normal(0.75, 0.08, n), rng.normal(0.25, 0.06, n)).clip(0, 1)
        v = np.round(v * ((1 << bits) - 1)).astype(int)
    else:
        v = rng.choice(rng.randint(0, 1 << bits, 4), n)
    return {"fn": "otsu", "ints": [int(x) for x in v], "bits": bits, "pseed": int(rng.randint(1 << 30)),
            "a2": int(rng.choice([-2, -1, 1, 2, 3])), "b": int(rng.randint(-8, 9)),
            "kw2": int(rng.choice([-27, -24, -20, -17, -14, -10, -7, -3, 10])), "e10": int(rng.randint(-8, 4)),
            "a": float(rng.uniform(0.2, 3.0)), "bf": float(rng.uniform(-1, 1))}


def _body_case(rng, fn):
    """reference models of method bodies on small dyadic data: robust background (trimming, mean, variance) and
    maximum correlation (binning, arg-max)"""
    n = int(rng.choice([3, 4, 7, 10, 20, 21, 40, 100, 199, 300]))
    bits = int(rng.choice([3, 6, 10, 14]))
    kind = str(rng.choice(["uni", "bimodal", "few"]))
    if kind == "uni":
        v = rng.randint(0, 1 << bits, n)
    elif kind == "bimodal":
        v = np.where(rng.rand(n) < 0.4, rng.normal(0.75, 0.08, n), rng.normal(0.25, 0.06, n)).clip(0, 1)
        v = np.round(v * ((1 << bits) - 1)).astype(int)
    else:
        v = rng.choice(rng.randint(0, 1 << bits, 4), n)
    c = {"fn": fn, "ints": [int(x) for x in v], "bits": bits}
    if fn == "rob":
        c.update(lof=float(rng.choice([0.0, 0.01, 0.05, 0.1, 0.2, 0.25])), uof=float(rng.choice([0.0, 0.05, 0.125, 0.3])),
                 dev=float(rng.choice([0.0, 1.0, 2.0, 3.5])))
    else:
        c.update(bins=int(rng.choice([2, 16, 64, 256, 1000])))
    return c


def _fmul_cases(rng, n):
    """binary64 product vs Base.ThresholdNum.fmul: random operands, the band constants, exact ties
    ((2^52+odd) * 1.5 has 54 significant bits ending in 1), gradual underflow"""
    cases = []
    for k in range(n):
        u = k % 6
        if u == 0:
            a, b = float(rng.rand()), float(rng.choice([0.7, 1.5, 0.5, 2.0, 0.8, 1.3]))
        elif u == 1:
            a, b = float(rng.rand()), float(rng.uniform(0.3, 2.5))
        elif u == 2:
            a = math.ldexp(float((1 << 52) + 2 * int(rng.randint(1 << 30)) + 1), int(rng.randint(-60, -50)))
            b = float(rng.choice([1.5, 0.75, 2.5, 1.25]))
        elif u == 3:
            a, b = math.ldexp(float(rng.rand()), int(rng.randint(-1074, -1000))), float(rng.uniform(0.3, 2.5))
        elif u == 4:
            a, b = math.ldexp(float(rng.randint(1, 1 << 20)), -1074), float(rng.choice([0.7, 1.5, 0.5, 0.25]))
        else:
            a, b = float(rng.randn() * 10), float(rng.randn())
        cases.append({"fn": "fmul", "a": a, "b": b})
    return cases


def generate(ctx):
    rng = ctx.rng
    thr = []
    reps = ctx.n(9, 48)
    for r in range(reps):
        for method in METHODS:
            for mod in (0, 1, 2):
                if method == "MoG" and (r % 3 if mod != 1 else r % 6):
                    continue                      # MoG is slow: a third of the share (a sixth per block)
                thr.append(_thr_case(rng, method, mod))
    # history independence (S4): a sample of the cases is run again, later, in another order, in the same
    # process; the outputs must be identical
    k = max(6, len(thr) // 6)
    again = [int(i) for i in rng.choice(len(thr), k, replace=False)]
    cases = list(thr)
    for i in again:
        if thr[i]["method"] == "MoG":
            continue
        c = dict(thr[i])
        c["again_of"] = i
        cases.append(c)
    # the two loud rejections reported by the outside tester are produced in every run (the outcome must be the same raise on
    # repetition and when masked-out pixels change): adaptive_window_size = 1, Kapur on near-saturated 8-bit data
    c = _thr_case(rng, "Otsu", 1, small=True)
    c.update(window=1, lo=0.0, hi=1.0, kw={})
    cases.append(c)
    c = _thr_case(rng, "Kapur", 0, small=True)
    c.update(kind="sat8", img=[[254 / 255.0, 1.0, 1.0, 253 / 255.0, 0.5]], mask=[[1, 1, 1, 1, 0]],
             labels=None, lo=0.0, hi=1.0, kw={}, dtype="float64", layout="C")       # the tester's input + one masked-out pixel
    cases.append(c)
    # integer 0/1 masks (known finding F24/C11): 7 methods x 3 modifiers, three integer dtypes; truthy values 2 / 255 as a class
    for r in range(ctx.n(1, 8)):
        for method in METHODS:
            for mod in (0, 1, 2):
                if method == "MoG" and r % 2:
                    continue
                c = _thr_case(rng, method, mod, small=True)
                H, W = int(rng.choice([6, 8, 12])), int(rng.choice([7, 8, 12]))
                c.update({"fn": "imask", "img": _image(rng, H, W, "uni").tolist(),
                          "mask": (rng.rand(H, W) < 0.6).astype(int).tolist(),
                          "labels": _labels(rng, H, W).tolist() if mod == 2 else None, "lo": 0.0, "hi": 1.0, "kw": {},
                          "window": int(rng.choice([w for w in (2, 3) if min(H, W) // w >= 2])), "dtype": "float64",
                          "ldtype": "int64", "layout": "C", "kind": "uni",
                          "mask_dtype": str(rng.choice(["uint8", "int32", "int64"])),
                          "mask_true": int(rng.choice([1, 1, 1, 1, 2, 255]))})
                cases.append(c)
    for what in ("window_too_large", "int_image"):
        for _ in range(ctx.n(6, 40)):
            cases.append(_mal_case(rng, what))
    for _ in range(ctx.n(200, 3000)):
        cases.append(_otsu_case(rng))
    cases.extend(_fmul_cases(rng, ctx.n(300, 3000)))
    for _ in range(ctx.n(90, 1500)):
        cases.append(_body_case(rng, "rob"))
        cases.append(_body_case(rng, "mct"))
    for _ in range(ctx.n(40, 600)):
        c = _body_case(rng, "mct")
        c["ints"] = c["ints"][:100]
        c.pop("bins")
        c["fn"] = "rc"
        c["ints"] = [v + 1 for v in c["ints"]]        # strictly positive intensities (log)
        cases.append(c)
    if not ctx.quick():
        cases.extend(_branch_cases(ctx))          # quick: only in the search after a broken obligation
    for c in cases:
        if c["fn"] == "big":
            ctx.count("big:%s:%d" % (c["method"], c["count"]))
            continue
        if c["fn"] == "thr":
            ctx.count("thr:%s" % MODS[c["mod"]])
            ctx.count("thr:kind:%s" % c["kind"])
            ctx.count("thr:dtype:%s" % c["dtype"])
            ctx.count("thr:layout:%s" % c["layout"])
            if c["kw"]:
                ctx.count("thr:non_default_kwargs")
            if "again_of" in c:
                ctx.count("thr:history_replay")
        elif c["fn"] == "mal":
            ctx.count("mal:%s" % c["what"])
        elif c["fn"] == "imask":
            ctx.count("imask:%s:true=%d" % (c["mask_dtype"], c["mask_true"]))
        else:
            ctx.count(c["fn"])
    return cases


# ------------------------------------------------------------------ implementation side

def _same(a, b):
    a, b = np.asarray(a), np.asarray(b)
    if a.shape != b.shape or a.dtype != b.dtype:
        return False
    return bool(np.array_equal(a, b, equal_nan=True))


def _layout(a, layout):
    if a is None:
        return None
    if layout == "F":
        return np.asfortranarray(a)
    if layout == "strided":
        big = np.zeros((2 * a.shape[0] + 1, 3 * a.shape[1] + 2), a.dtype)
        v = big[1::2, 2::3]
        v[...] = a
        return v
    a = a.copy()
    if layout == "readonly":
        a.setflags(write=False)
    return a


def _fn(name):
    import centrosome.threshold as T
    return {"mean": np.mean, "median": np.median, "binned_mode": T.binned_mode, "std": np.std, "mad": T.mad}[name]


def _setup(case):
    img = np.array(case["img"], float)
    if case["dtype"] in ("float32", "float64"):
        img = img.astype(case["dtype"])
    else:
        img = np.round(img * 255).astype(case["dtype"])
    mask = None if case["mask"] is None else np.array(case["mask"], bool)
    if mask is not None and case.get("mask_dtype"):
        mask = mask.astype(case["mask_dtype"])
    labels = None if case["labels"] is None else np.array(case["labels"]).astype(case["ldtype"])
    kw = dict(case["kw"])
    for k in ("average_fn", "variance_fn"):
        if k in kw:
            kw[k] = _fn(kw[k])
    return img, mask, labels, kw


def _outcome(f):
    """('ok', local, global) or ('exc', type name): what a call is observed to do"""
    try:
        l, g = f()
        return ("ok", l, g)
    except Exception as e:
        return ("exc", type(e).__name__)


def _same_outcome(a, b):
    if a[0] != b[0]:
        return False
    if a[0] == "exc":
        return a[1] == b[1]
    return _same(a[2], b[2]) and _same(a[1], b[1])


METHOD_FN = {"Otsu": "get_otsu_threshold", "MoG": "get_mog_threshold", "Background": "get_background_threshold",
             "RobustBackground": "get_robust_background_threshold", "RidlerCalvard": "get_ridler_calvard_threshold",
             "Kapur": "get_kapur_threshold", "MCT": "get_maximum_correlation_threshold"}


def _feq(a, b):
    a, b = float(a), float(b)
    return a == b or (a != a and b != b)


def _adaptive_observed(T, method, img, g1, mk, window, kw, lay):
    """get_adaptive_threshold with a spy on RectBivariateSpline (what the block loop hands to the spline),
    the block partition recomputed here with the code's float expressions (compared with Model.AdaptiveGeom
    by the parent), the block thresholds expected from the global method on each block's masked pixels, and
    the spline recomputed from those."""
    import scipy.interpolate as SI
    real = SI.RectBivariateSpline
    rec = {}

    class Spy(object):
        def __init__(self, x, y, z, bbox=None, kx=3, ky=3, s=0):
            rec.update(x=np.array(x, float), y=np.array(y, float), z=np.array(z, float), bbox=[float(v) for v in bbox],
                       kx=int(kx), ky=int(ky), s=s, n=rec.get("n", 0) + 1)
            self.r = real(x, y, z, bbox=bbox, kx=kx, ky=ky, s=s)

        def __call__(self, xs, ys, *a, **k):
            rec.update(xs=np.array(xs, float), ys=np.array(ys, float), extra=bool(a or k))
            return self.r(xs, ys, *a, **k)
    SI.RectBivariateSpline = Spy
    try:
        raw_l = T.get_adaptive_threshold(method, _layout(img, lay), g1, mk, adaptive_window_size=window, **kw)
    finally:
        SI.RectBivariateSpline = real
    H, W = img.shape
    geo = []
    for size in (H, W):
        n = size // window
        inc = float(size) / float(n)
        geo.append({"n": n, "bounds": [int(i * inc) for i in range(n + 1)], "start": int(inc / 2),
                    "end": int((n - 0.5) * inc), "out_end": int(n * inc)})
    order = min(3, min(geo[0]["n"], geo[1]["n"]) - 1)
    exp = np.zeros((geo[0]["n"], geo[1]["n"]))
    for i in range(geo[0]["n"]):
        i0, i1 = geo[0]["bounds"][i], geo[0]["bounds"][i + 1]
        for j in range(geo[1]["n"]):
            j0, j1 = geo[1]["bounds"][j], geo[1]["bounds"][j + 1]
            bm = None if mk is None else np.asarray(mk)[i0:i1, j0:j1].astype(bool)
            exp[i, j] = T.get_global_threshold(method, img[i0:i1, j0:j1].copy(), None if bm is None else bm.copy(), **kw)
    st = {"geom": geo + [order], "calls": rec.get("n", 0)}
    if rec.get("n", 0) == 1 and "xs" in rec:
        st["z_shape_ok"] = bool(rec["z"].shape == exp.shape)
        st["z_got"] = rec["z"].ravel().tolist()
        st["z_exp"] = exp.ravel().tolist()
        st["knots_ok"] = bool(np.array_equal(rec["x"], np.linspace(geo[0]["start"], geo[0]["end"], geo[0]["n"]))
                              and np.array_equal(rec["y"], np.linspace(geo[1]["start"], geo[1]["end"], geo[1]["n"])))
        st["bbox_ok"] = bool(rec["bbox"] == [0.5, H - 0.5, 0.5, W - 0.5])
        st["order_ok"] = bool(rec["kx"] == order and rec["ky"] == order and rec["s"] == 0 and not rec["extra"])
        xo = np.linspace(0.5, geo[0]["out_end"] - 0.5, H)
        yo = np.linspace(0.5, geo[1]["out_end"] - 0.5, W)
        st["abscissae_ok"] = bool(np.array_equal(rec["xs"], xo) and np.array_equal(rec["ys"], yo))
        if st["z_shape_ok"] and np.all(np.isfinite(exp)):
            again = real(np.linspace(geo[0]["start"], geo[0]["end"], geo[0]["n"]),
                         np.linspace(geo[1]["start"], geo[1]["end"], geo[1]["n"]), exp,
                         bbox=(0.5, H - 0.5, 0.5, W - 0.5), kx=order, ky=order)(xo, yo)
            st["spline_ok"] = bool(np.array_equal(np.asarray(raw_l), again, equal_nan=True))
    return raw_l, st


def _impl_thr(case):
    import centrosome.threshold as T
    img, mask, labels, kw = _setup(case)
    lay = case["layout"]
    method, mod = case["method"], MODS[case["mod"]]
    lo, hi, cf, window = case["lo"], case["hi"], case["cf"], case["window"]

    def call(im):
        k = dict(mask=_layout(mask, lay), threshold_range_min=lo, threshold_range_max=hi,
                 threshold_correction_factor=cf, adaptive_window_size=window)
        if labels is not None:
            k["labels"] = _layout(labels, lay)
        k.update(kw)
        return T.get_threshold(method, mod, _layout(im, lay), **k)

    o1 = _outcome(lambda: call(img))
    o1b = _outcome(lambda: call(img))
    out = {"det": _same_outcome(o1, o1b)}
    inmask = np.ones(img.shape, bool) if mask is None else mask.astype(bool)
    out["n_out"] = int((~inmask).sum())
    vals = img[inmask]
    out["distinct"] = int(min(4, len(np.unique(vals))))
    out["vmin"], out["vmax"] = (float(vals.min()), float(vals.max())) if vals.size else (None, None)
    # two-run non-interference: pixels outside the mask replaced; the OUTCOME (value or exception type) must not move
    ni = {}
    prng = np.random.RandomState(case["pseed"])
    for p in case["pert"]:
        im2 = img.copy()
        if p == "zero":
            im2[~inmask] = 0.0
        elif p == "one":
            im2[~inmask] = 1.0
        else:
            im2[~inmask] = prng.rand(int((~inmask).sum())).astype(img.dtype)
        o2 = _outcome(lambda: call(im2))
        ni[p] = _same_outcome(o1, o2)
        if not ni[p]:
            d = {"outcomes": [o1[0], o2[0]]}
            if o1[0] == o2[0] == "ok":
                df = np.argwhere(np.asarray(o1[1]) != np.asarray(o2[1]))
                d = {"g": [float(o1[2]), float(o2[2])], "first_pixel": df[0].tolist() if df.size else None}
            out.setdefault("ni_detail", {})[p] = d
    out["ni"] = ni
    # a mask that selects every pixel and no mask at all describe the same data
    if mask is None or bool(np.all(inmask)):
        other = np.ones(img.shape, bool) if mask is None else None

        def call_other():
            k = dict(mask=_layout(other, lay), threshold_range_min=lo, threshold_range_max=hi,
                     threshold_correction_factor=cf, adaptive_window_size=window)
            if labels is not None:
                k["labels"] = _layout(labels, lay)
            k.update(kw)
            return T.get_threshold(method, mod, _layout(img, lay), **k)
        out["mask_none_equiv"] = _same_outcome(o1, _outcome(call_other))
    if o1[0] == "exc":
        out["raised"] = o1[1]
        return out
    l1, g1 = o1[1], o1[2]
    out["g"] = float(g1)
    out["scalar"] = not isinstance(l1, np.ndarray)
    out["f32"] = bool(isinstance(l1, np.ndarray) and l1.dtype == np.float32)
    # raw thresholds from the staged callees
    mk = _layout(mask, lay)
    raw_g = T.get_global_threshold(method, _layout(img, lay), mk, **kw)
    out["raw_g"] = float(raw_g)
    # dispatch: the method name selects the method's own function (and the empty-mask rule)
    if mask is not None and not inmask.any():
        out["dispatch_ok"] = _feq(raw_g, 1)
    else:
        direct = _outcome(lambda: (getattr(T, METHOD_FN[method])(_layout(img, lay), _layout(mask, lay), **kw), 0))
        out["dispatch_ok"] = bool(direct[0] == "ok" and _feq(direct[1], raw_g))
    # dtype of the local thresholds: the image's in per-object mode (np.ones(image.shape, image.dtype)), binary64 otherwise
    out["dtype_ok"] = bool(out["scalar"] or str(l1.dtype) == (case["dtype"] if mod == "PerObject" else "float64"))
    if mod == "Global":
        out["local"] = float(l1)
        return out
    if mod == "Adaptive":
        raw_l, out["ad"] = _adaptive_observed(T, method, img, g1, mk, window, kw, lay)
    else:
        lb = _layout(labels, lay)
        raw_l = T.get_per_object_threshold(method, _layout(img, lay), g1, mk, lb, lo, hi, **kw)
        # per object: only that object's pixels matter (on the raw per-object thresholds; the final
        # ones also depend on the global threshold through the band)
        lab = labels
        if lab is None:
            lab = np.ones(img.shape, int)
            lab[~inmask] = 0
        po = {}
        for k in [int(x) for x in np.unique(lab) if x > 0][:3]:
            own = (lab == k) & inmask
            im2 = img.copy()
            im2[~own] = prng.rand(int((~own).sum())).astype(img.dtype)
            try:
                r2 = T.get_per_object_threshold(method, _layout(im2, lay), g1, mk, lb, lo, hi, **kw)
                po[str(k)] = bool(np.array_equal(np.asarray(raw_l)[own], np.asarray(r2)[own], equal_nan=True))
            except Exception as e:
                po[str(k)] = "exc:" + type(e).__name__     # another object's pixels made the call raise
        out["po"] = po
        # structure: every pixel of object l carries G(image[mask & (labels == l)]); every other pixel the fill 1.0
        tab = []
        for k in [int(x) for x in np.unique(lab) if x > 0]:
            om = (lab == k) & inmask
            d = _outcome(lambda: (T.get_global_threshold(method, _layout(img, lay), _layout(om, lay), **kw), 0))
            tab.append([k, float(d[1]) if d[0] == "ok" else "exc:" + d[1]])
        out["po_tab"] = tab
        out["po_labels"] = np.asarray(lab).astype(int).ravel().tolist()
        out["po_inmask"] = inmask.ravel().astype(int).tolist()
        out["po_raw"] = np.asarray(raw_l).astype(float).ravel().tolist()
    out["raw_dtype_ok"] = bool(np.asarray(raw_l).dtype == l1.dtype or mod == "Adaptive")
    raw_l = np.asarray(raw_l).astype(float)
    l1 = np.asarray(l1).astype(float)
    out["shape_ok"] = bool(raw_l.shape == l1.shape == img.shape)
    lab0 = None
    if case["mod"] == 2 and labels is not None:
        lab0 = (labels == 0)
    # positions handed to the model: all, or a sample that contains the extremes of raw and final values
    n = raw_l.size
    if n <= SUB:
        idx = np.arange(n)
    else:
        fr, fl = raw_l.ravel(), l1.ravel()
        must = {int(np.argmin(fr)), int(np.argmax(fr)), int(np.argmin(fl)), int(np.argmax(fl))}
        if lab0 is not None:
            nz = np.flatnonzero(~lab0.ravel())
            if nz.size:
                must |= {int(nz[np.argmin(fl[nz])]), int(nz[np.argmax(fl[nz])])}
        rest = prng.permutation(n)[:SUB - len(must)]
        idx = np.array(sorted(must | set(int(x) for x in rest)))
    out["idx"] = idx.tolist()
    out["raw_l"] = raw_l.ravel()[idx].tolist()
    out["local_s"] = l1.ravel()[idx].tolist()
    out["lab0_s"] = None if lab0 is None else lab0.ravel()[idx].astype(int).tolist()
    # what the checker needs about ALL pixels: the claim is an interval claim, so the distinct values suffice
    claim = np.ones(img.shape, bool) if lab0 is None else ~lab0
    u = np.unique(l1[claim])
    out["n_claim"] = int(claim.sum())
    out["local_u"] = u.tolist() if u.size <= 64 else [float(u[0]), float(u[-1])] + prng.choice(u, 62).tolist()
    # float32 arrays: do the elements also respect the UN-rounded binary64 limits?  (reported, see findings)
    if out["f32"] and u.size and lo is not None and hi is not None:
        out["f32_outside_f64_limits"] = bool(u[0] < max(lo, g1 * 0.7) or u[-1] > min(hi, g1 * 1.5))
    return out


def _impl_imask(case):
    """the same calls with the mask as a 0/1 (or 0/k) INTEGER array and, as control, as a boolean array: repeated call,
    masked-out pixels scrambled, and integer-mask result against boolean-mask result"""
    import centrosome.threshold as T
    dt, tv = case["mask_dtype"], case["mask_true"]
    base = dict(case)
    base["mask_dtype"] = None
    img, mask, labels, kw = _setup(base)
    imask = (mask.astype(dt) * np.array(tv).astype(dt))
    method, mod = case["method"], MODS[case["mod"]]
    prng = np.random.RandomState(case["pseed"])
    im2 = img.copy()
    im2[~mask] = prng.rand(int((~mask).sum()))

    def call(im, m):
        k = dict(mask=m.copy(), threshold_range_min=0.0, threshold_range_max=1.0, adaptive_window_size=case["window"])
        if labels is not None:
            k["labels"] = labels.copy()
        return T.get_threshold(method, mod, im.copy(), **k)
    ob, ob2, obp = (_outcome(lambda: call(img, mask)), _outcome(lambda: call(img, mask)), _outcome(lambda: call(im2, mask)))
    oi, oi2, oip = (_outcome(lambda: call(img, imask)), _outcome(lambda: call(img, imask)), _outcome(lambda: call(im2, imask)))
    desc = lambda o: (float(o[2]) if o[0] == "ok" else "raises " + o[1])
    return {"ctl_ok": _same_outcome(ob, ob2) and _same_outcome(ob, obp),
            "int_det": _same_outcome(oi, oi2), "int_ni": _same_outcome(oi, oip), "int_eq_bool": _same_outcome(oi, ob),
            "n_out": int((~mask).sum()), "bool": desc(ob), "int": desc(oi), "int_scrambled": desc(oip)}


def _impl_mal(case):
    import centrosome.threshold as T
    img, mask, labels, kw = _setup(case)
    method, mod = case["method"], MODS[case["mod"]]

    def call():
        k = dict(mask=None if mask is None else mask.copy(), threshold_range_min=case["lo"],
                 threshold_range_max=case["hi"], threshold_correction_factor=case["cf"],
                 adaptive_window_size=case["window"])
        if labels is not None:
            k["labels"] = labels.copy()
        return T.get_threshold(method, mod, img.copy(), **k)
    o1, o2 = _outcome(call), _outcome(call)
    g = _outcome(lambda: (T.get_global_threshold(method, img.copy(), None if mask is None else mask.copy()), 0))
    return {"global_ok": g[0] == "ok", "outcome": o1[0], "exc_name": o1[1] if o1[0] == "exc" else None, "det": _same_outcome(o1, o2),
            "nblocks": int(min(img.shape) // case["window"])}


def _impl_otsu(case):
    from centrosome.otsu import otsu, entropy, otsu3, entropy3
    scale = float(1 << case["bits"])
    x = np.array(case["ints"], float) / scale
    prng = np.random.RandomState(case["pseed"])
    t = float(otsu(x.copy()))
    out = {"t": t, "det": bool(t == float(otsu(x.copy())))}
    perm = prng.permutation(len(x))
    out["perm"] = bool(float(otsu(x[perm].copy())) == t)
    aw_ = 2.0 ** case.get("kw2", -20)
    if float(otsu(aw_ * x[perm])) != float(otsu(aw_ * x)):
        out["perm"] = False
    k = int(prng.randint(1, 6))
    pos = np.sort(prng.randint(0, len(x) + 1, k))
    xn = np.insert(x, pos, np.nan)
    out["nan"] = bool(float(otsu(xn.copy())) == t)
    # affine: power-of-two scale and dyadic shift are exact in binary64 -> exact equality
    a2, b = case["a2"], case["b"]
    a = 2.0 ** a2
    out["affine_exact"] = [float(otsu(a * x + b / 8.0)), a * t + b / 8.0]
    af, bf = case["a"], case["bf"]
    out["affine"] = [float(otsu(af * x + bf)), af * t + bf]
    out["minmax"] = [float(x.min()), float(x.max())]
    # scales over many orders of magnitude.  A power-of-two factor is exact in every operation of the cut (no
    # rounding changes, no underflow here), so otsu(2^k z) == 2^k otsu(z) must hold EXACTLY, for z = x and z = x + b/8
    aw = 2.0 ** case.get("kw2", -20)
    z = x + b / 8.0
    out["scale_exact"] = [[float(otsu(aw * x)), aw * t], [float(otsu(aw * z)), aw * float(otsu(z.copy()))]]
    # a general factor a * 10^e with a proportional shift: tolerance relative to the SPREAD of the rescaled data
    ag = af * 10.0 ** case.get("e10", 0)
    zz = x + bf
    out["affine_wide"] = [float(otsu(ag * zz)), ag * float(otsu(zz.copy())), ag * float(x.max() - x.min())]
    same = lambda p, q: len(p) == len(q) and all(u == v or (u != u and v != v) for u, v in zip(p, q))
    for name, f in (("entropy", entropy), ("otsu3", otsu3), ("entropy3", entropy3)):
        try:
            r0 = np.atleast_1d(np.asarray(f(x.copy()), float)).tolist()
            r1 = np.atleast_1d(np.asarray(f(x[perm].copy()), float)).tolist()
            r2 = np.atleast_1d(np.asarray(f(xn.copy()), float)).tolist()
            # the same two invariances on the data rescaled by 2^kw2 (small / large amplitudes)
            s0 = np.atleast_1d(np.asarray(f(aw * x), float)).tolist()
            s1 = np.atleast_1d(np.asarray(f(aw * x[perm]), float)).tolist()
            s2 = np.atleast_1d(np.asarray(f(aw * xn), float)).tolist()
        except Exception as e:           # outside the claim (the property speaks of the two-class cut); counted
            out[name] = {"skipped": type(e).__name__}
            continue
        if not (same(s0, s1) and same(s0, s2)):
            out[name] = {"perm": same(s0, s1), "nan": same(s0, s2)}
            continue
        out[name] = {"perm": same(r0, r1), "nan": same(r0, r2)}
    return out


def impl(case):
    if case["fn"] == "fmul":
        a32, b32 = np.float32(case["a"]), np.float32(case["b"])
        return {"p": float(np.float64(case["a"]) * np.float64(case["b"])), "a32": float(a32),
                "p32": float((np.array([a32]) * np.array([b32]))[0])}
    if case["fn"] == "mal":
        return _impl_mal(case)
    if case["fn"] == "imask":
        return _impl_imask(case)
    if case["fn"] == "big":
        import centrosome.threshold as T
        prng = np.random.RandomState(case["seed"])
        H, W = case["H"], case["W"]
        img = prng.rand(H, W)
        mask = np.zeros(H * W, bool)
        mask[:case["count"]] = True
        mask = mask.reshape(H, W)

        def call(im):
            return T.get_threshold(case["method"], "Global", im.copy(), mask=mask.copy(), threshold_range_min=0.0,
                                   threshold_range_max=1.0)
        o1 = _outcome(lambda: call(img))
        o1b = _outcome(lambda: call(img))
        im2 = img.copy()
        im2[~mask] = prng.rand(int((~mask).sum()))
        o2 = _outcome(lambda: call(im2))
        return {"det": _same_outcome(o1, o1b), "ni": _same_outcome(o1, o2), "n_out": int((~mask).sum()),
                "values": [float(o[2]) if o[0] == "ok" else o[1] for o in (o1, o1b, o2)]}
    if case["fn"] in ("rob", "mct", "rc"):
        import centrosome.threshold as T
        x = (np.array(case["ints"], float) / float(1 << case["bits"])).reshape(1, -1)
        if case["fn"] == "rc":
            f = lambda im, mk: T.get_ridler_calvard_threshold(im, mk)
        elif case["fn"] == "rob":
            f = lambda im, mk: T.get_robust_background_threshold(im, mk, case["lof"], case["uof"], case["dev"])
        else:
            f = lambda im, mk: T.get_maximum_correlation_threshold(im, mk, case["bins"])
        t = float(f(x.copy(), None))
        # the same data reached through a mask (extra masked-out pixels interleaved)
        big = np.zeros((1, 2 * x.shape[1]))
        big[0, ::2] = x[0]
        big[0, 1::2] = 0.5
        mk = np.zeros(big.shape, bool)
        mk[0, ::2] = True
        return {"t": t, "t_masked": float(f(big, mk))}
    return _impl_thr(case) if case["fn"] == "thr" else _impl_otsu(case)


# ------------------------------------------------------------------ model side

def _bad(o):
    return (not isinstance(o, dict)) or "exc" in o or "crash" in o


def _q(x):
    n, d = Fraction(float(x)).as_integer_ratio() if not isinstance(x, Fraction) else (x.numerator, x.denominator)
    return [n, d]


def _optq(x):
    return [] if x is None else [_q(x)]


def _finite(o):
    xs = [o["g"], o["raw_g"]]
    if o["scalar"]:
        xs.append(o["local"])
    else:
        xs += o["raw_l"] + o["local_s"] + o["local_u"]
    return all(math.isfinite(v) for v in xs)


def _run_arg(case, o):
    return [case["mod"], _q(case["cf"]), _q(o["raw_g"]), _optq(case["lo"]), _optq(case["hi"]),
            [] if o["scalar"] else [_q(v) for v in o["raw_l"]],
            [] if (o["scalar"] or o["lab0_s"] is None) else [o["lab0_s"]], 1 if o.get("f32") else 0]


def _rejected(case):
    return case["mod"] != 0 and (case["lo"] is None or case["hi"] is None)


def model(ctx, cases, outs):
    res = [None] * len(cases)
    ti = []
    args = []
    for k, (c, o) in enumerate(zip(cases, outs)):
        if c["fn"] != "thr" or _bad(o):
            continue
        if _rejected(c):
            if isinstance(o, dict) and "raised" in o:
                ctx.count("thr:rejected(None limit):%s" % o["raised"])
            # the implementation raises before any raw threshold can be observed: run the model on dummies
            ti.append(k)
            args.append([c["mod"], _q(c["cf"]), _q(0.5), _optq(c["lo"]), _optq(c["hi"]), [_q(0.25)], [], 0])
        elif "raised" in o:
            ctx.count("thr:raised:%s" % o["raised"])
            res[k] = "raised"
        elif not _finite(o):
            ctx.count("excluded_nonfinite")
            res[k] = "nonfinite"
        else:
            ti.append(k)
            args.append(_run_arg(c, o))
    # the interpreter on the regenerated program AND the specified closed form (Spec.ThresholdSpec.ref_run)
    for k, r, r2 in zip(ti, ctx.run_model("entry_run", args), ctx.run_model("entry_ref", args)):
        res[k] = [r, r2]
    gi = [k for k in ti if cases[k]["mod"] == 1 and isinstance(outs[k], dict) and "ad" in outs[k]]
    ga = [[len(cases[k]["img"]), len(cases[k]["img"][0]), cases[k]["window"]] for k in gi]
    for k, r in zip(gi, ctx.run_model("entry_geom", ga)):
        res[k] = res[k] + [r]
    oi = [k for k, c in enumerate(cases) if c["fn"] == "otsu" and not _bad(outs[k])]
    for k, r in zip(oi, ctx.run_model("entry_otsu", [cases[k]["ints"] for k in oi])):
        res[k] = r
        if _tied(r):
            ctx.count("otsu_argmin_illconditioned_not_compared")
    for fn, entry in (("rob", "entry_robust"), ("mct", "entry_mct")):
        bi_ = [k for k, c in enumerate(cases) if c["fn"] == fn and not _bad(outs[k])]
        ba = [[cases[k]["ints"], _q(cases[k]["lof"]), _q(cases[k]["uof"])] if fn == "rob" else
              [cases[k]["ints"], cases[k]["bins"]] for k in bi_]
        for k, r in zip(bi_, ctx.run_model(entry, ba)):
            res[k] = r
            if fn == "mct" and _mct_tied(r):
                ctx.count("mct_argmax_illconditioned_not_compared")
    ri = [k for k, c in enumerate(cases) if c["fn"] == "rc" and not _bad(outs[k]) and len(set(c["ints"])) >= 2
          and len(c["ints"]) >= 3]
    ra, oa = [], []
    for k in ri:
        ints, D, delta, lo, hi = _rc_args(cases[k])
        ra.append([ints, [delta.numerator, delta.denominator], 200])
        oa.append(ints)
    for k, r, ot in zip(ri, ctx.run_model("entry_rc", ra) if ri else [], ctx.run_model("entry_otsu", oa) if ri else []):
        res[k] = [r[0], r[1], ot]
        if _tied(ot):
            ctx.count("rc_initial_otsu_tied_not_compared")
        elif r[0] == []:
            ctx.count("rc_model_not_converged_or_nan")
    for k, c in enumerate(cases):
        if c["fn"] == "rc" and res[k] is None:
            res[k] = [[], [], None]
    fi = [k for k, c in enumerate(cases) if c["fn"] == "fmul"]
    fa = [[_q(cases[k]["a"]), _q(cases[k]["b"])] for k in fi]
    for k, r, r32 in zip(fi, ctx.run_model("entry_fmul", fa), ctx.run_model("entry_fmul32", fa)):
        res[k] = [r, r32]
    return res


def _tied(m):
    best, second = _fr(m[1]), (None if m[2] == [] else _fr(m[2][0]))
    return second is not None and second - best <= Fraction(1, 10 ** 6) * max(best, Fraction(1, 10 ** 6))


def _fr(p):
    return Fraction(p[0], p[1])


def _cmp_run(out, m):
    if not (isinstance(m, list) and len(m) == 2):
        return "rejected the call: %s" % (str(m)[:200],)
    ml, mg = m
    if mg[0] != 0 or _fr(mg[1]) != Fraction(out["g"]):
        return "global threshold: implementation %r, model %s" % (out["g"], mg)
    if out["scalar"]:
        if ml[0] != 0 or _fr(ml[1]) != Fraction(out["local"]):
            return "local (scalar) threshold: implementation %r, model %s" % (out["local"], ml)
        return None
    if not out["shape_ok"]:
        return "raw and final local thresholds have different shapes"
    if ml[0] != 1 or len(ml[1]) != len(out["local_s"]):
        return "model local threshold is not an array of the same length"
    for i, (a, b) in enumerate(zip(ml[1], out["local_s"])):
        if _fr(a) != Fraction(b):
            return "local threshold at flat index %d (raw %r): implementation %r, model %s = %r" % (
                out["idx"][i], out["raw_l"][i], b, a, float(_fr(a)))
    return None


def _mct_tied(m):
    if len(m) != 3 or m[2] == []:
        return False
    best, second = _fr(m[1]), _fr(m[2][0])
    return best - second <= Fraction(1, 10 ** 6) * max(best, Fraction(1, 10 ** 12))


def _rc_pre(x):
    """the pre-processing of get_ridler_calvard_threshold, as written (NumPy log): the stretched data"""
    c = np.array(x, float).copy()
    mv = np.max(c) / 256
    c[c < mv] = mv
    im = np.log(c)
    lo, hi = np.min(im), np.max(im)
    return (im - lo) / (hi - lo), float(lo), float(hi)


def _rc_args(case):
    x = np.array(case["ints"], float) / float(1 << case["bits"])
    im, lo, hi = _rc_pre(x)
    fr = [Fraction(float(v)) for v in im]
    D = max(f.denominator for f in fr)
    ints = [int(f * D) for f in fr]
    delta = Fraction(0.00001) * D
    return ints, D, delta, lo, hi


def _cmp_rc(case, out, m):
    if _bad(out):
        return "rc reference case raised/crashed: %s" % (str(out)[:200],)
    v = case["ints"]
    t = out["t"]
    if len(v) < 3:
        return None if t == 0 else "Ridler-Calvard with fewer than 3 pixels: %r, expected 0" % t
    if min(v) == max(v):
        return None if Fraction(t) == Fraction(v[0], 1 << case["bits"]) else "Ridler-Calvard on constant data: %r" % t
    res, iters, ot = m
    if _tied(ot) or res == []:
        return None                                   # tied initial otsu / not converged or NaN: counted in model()
    ints, D, delta, lo, hi = _rc_args(case)
    its = [_fr(q) for q in iters]
    margin = min(abs(Fraction(a) - q) for q in its for a in ints)
    if margin <= Fraction(D, 10 ** 9):
        return None                                   # an iterate (nearly) coincides with a data value: counted
    exp = math.exp(lo + (hi - lo) * float(_fr(res[0]) / D))
    if abs(t - exp) > 2e-4 * abs(exp):
        return "Ridler-Calvard: implementation %r, model %r after %d iterates" % (t, exp, len(its))
    return None


def _cmp_body(case, out, m):
    if _bad(out):
        return "%s reference case raised/crashed: %s" % (case["fn"], str(out)[:200])
    v, sc = case["ints"], 1 << case["bits"]
    t = out["t"]
    if case["fn"] == "rob":
        if len(v) < 3:
            exp = Fraction(0)
        elif min(v) == max(v):
            exp = Fraction(v[0], sc)
        else:
            low, hi, ln, mean, var = m
            if ln == 0:
                return None                                   # empty trimmed sample: NaN in the code, outside the comparison
            mean, var = _fr(mean) / sc, _fr(var) / (sc * sc)
            dev = Fraction(case["dev"])
            # threshold = mean + dev * sqrt(var): compare the squares, and the side
            d = Fraction(t) - mean
            tol = Fraction(1, 10 ** 9)
            if d < -tol * max(abs(mean), Fraction(1, sc)):
                return "robust background: threshold %r below the trimmed mean %r (chops %d:%d of %d)" % (t, float(mean), low, hi, len(v))
            lhs, rhs = d * d, dev * dev * var
            if abs(lhs - rhs) > tol * max(rhs, lhs, Fraction(1, sc * sc) * tol):
                return ("robust background: implementation %r, reference mean %r + %r * sqrt(var %r) = %r (chops %d:%d of %d)"
                        % (t, float(mean), case["dev"], float(var), float(mean) + case["dev"] * math.sqrt(float(var)),
                           low, hi, len(v)))
            exp = None
        if exp is not None and Fraction(t) != exp:
            return "robust background (degenerate data): implementation %r, expected %r" % (t, float(exp))
    else:
        if min(v) == max(v):
            if Fraction(t) != Fraction(v[0], sc) or len(m) != 1 or _fr(m[0]) != v[0]:
                return "MCT (constant data): implementation %r, model %s, expected %r" % (t, m, v[0] / sc)
        else:
            if _mct_tied(m):
                return None                                   # (nearly) tied arg-max; counted in model()
            exp = _fr(m[0]) / sc
            if abs(Fraction(t) - exp) > Fraction(1, 10 ** 12) * max(abs(exp), Fraction(1, sc)):
                return "MCT: implementation %r, model %r (%d bins)" % (t, float(exp), case["bins"])
    return None


def compare(case, out, m):
    if case["fn"] == "fmul":
        if _bad(out) or not math.isfinite(out["p"]):
            return "binary64 product failed: %s" % (out,)
        if _fr(m[0]) != Fraction(out["p"]):
            return "fmul %r * %r: hardware %r, model %r" % (case["a"], case["b"], out["p"], float(_fr(m[0])))
        if math.isfinite(out["p32"]) and math.isfinite(out["a32"]) and (
                _fr(m[1][0]) != Fraction(out["a32"]) or _fr(m[1][1]) != Fraction(out["p32"])):
            return "binary32: float32(%r) = %r, product with float32(%r) = %r; model %r, %r" % (
                case["a"], out["a32"], case["b"], out["p32"], float(_fr(m[1][0])), float(_fr(m[1][1])))
        return None
    if case["fn"] in ("mal", "big", "imask"):
        return None
    if case["fn"] in ("rob", "mct"):
        return _cmp_body(case, out, m)
    if case["fn"] == "rc":
        return _cmp_rc(case, out, m)
    if case["fn"] == "thr":
        if _bad(out):
            return "implementation crashed: %s" % (str(out)[:300],)
        if _rejected(case):
            # the model predicts a rejection (max(None, x) in the clamp stage).  Which exception the caller sees is
            # NOT part of the claim: a callee may reject the same input earlier for its own reasons (e.g.
            # average_fn=binned_mode raises ValueError on quantised data) and that order is not modelled.
            if "raised" not in out:
                return "range limit None with an array modifier: the model rejects the call, the implementation returned a value"
            return None if m == [[], []] else "model accepts a None range limit with an array modifier"
        if m in ("nonfinite", "raised"):
            return None
        if not out["scalar"] and not out["raw_dtype_ok"]:
            return "raw and final per-object thresholds have different dtypes"
        for which, mm in zip(("model of the regenerated program", "specified closed form"), m[:2]):
            d = _cmp_run(out, mm)
            if d:
                return "%s: %s" % (which, d)
        if len(m) > 2:
            g = out["ad"]["geom"]
            mine = [[a["n"], a["bounds"], a["start"], a["end"], a["out_end"]] for a in g[:2]] + [g[2]]
            if m[2] != mine:
                return "adaptive geometry: code's float expressions give %s, Model.AdaptiveGeom %s" % (mine, m[2])
        return None
    # otsu: Q model on the integer data; compare when the arg-min is well separated
    if _bad(out):
        return "otsu raised/crashed: %s" % (str(out)[:300],)
    if not (isinstance(m, list) and len(m) == 3):
        return "otsu model failed: %s" % (str(m)[:100],)
    t = _fr(m[0]) / (1 << case["bits"])
    if _tied(m):
        return None                                  # ill-conditioned arg-min; counted in model()
    if abs(Fraction(out["t"]) - t) > Fraction(1, 10 ** 9) * max(abs(t), Fraction(1, 1 << case["bits"])):
        return "otsu: implementation %r, Q model %r" % (out["t"], float(t))
    # the rescaled data (factor 2^kw2, many orders of magnitude) must be cut into the SAME two classes as the exact
    # model's optimal split
    if "scale_exact" in out and len(set(case["ints"])) > 1:
        T = _fr(m[0])
        ts = Fraction(out["scale_exact"][0][0]) / Fraction(2) ** case["kw2"] * (1 << case["bits"])    # back to integer units
        if all(abs(v - T) > Fraction(1, 10 ** 9) for v in case["ints"]):
            n_model = sum(1 for v in case["ints"] if v < T)
            n_impl = sum(1 for v in case["ints"] if v < ts)
            if n_model != n_impl:
                return ("otsu(2^%d x) = %r separates %d | %d values, the exact model's optimal split is %d | %d" % (
                    case["kw2"], out["scale_exact"][0][0], n_impl, len(case["ints"]) - n_impl, n_model,
                    len(case["ints"]) - n_model))
    return None


# ------------------------------------------------------------------ the property on the implementation's output

def _strip(c):
    return {k: v for k, v in c.items() if k != "again_of"}


def _fresh_replay(ctx, cases, outs, res):
    """S4 history independence: the cases that were run twice in the main process are run once more in a
    FRESH process, in reverse order; the three observations of each must coincide."""
    ks = [k for k, c in enumerate(cases) if c["fn"] == "thr" and "again_of" in c and c["again_of"] < k
          and _strip(cases[c["again_of"]]) == _strip(c)]
    if not ks:
        return
    sub = [_strip(cases[k]) for k in reversed(ks)]
    fresh = ctx.run_impl(sub)
    ctx.count("thr:fresh_process_replay", len(sub))
    for k, o2 in zip(reversed(ks), fresh):
        j = cases[k]["again_of"]
        if res[k] is None and res[j] is None and json.dumps(o2, sort_keys=True) != json.dumps(outs[j], sort_keys=True):
            res[j] = ("S4 history dependence: the same call gives a different result in a fresh process "
                      "(here %s, fresh %s)" % (str(outs[j].get("g")), str(o2.get("g") if isinstance(o2, dict) else o2)))


def check(ctx, cases, outs):
    res = [None] * len(cases)
    si, sargs = [], []
    ci, args = [], []
    bi, bargs = [], []
    for k, (c, o) in enumerate(zip(cases, outs)):
        if c["fn"] == "fmul":
            continue
        if c["fn"] == "big":
            if _bad(o):
                res[k] = "get_threshold crashed/hung on a %dx%d image: %s" % (c["H"], c["W"], str(o)[:200])
            elif not o["det"]:
                res[k] = ("S4 determinism: two identical %s calls on a %dx%d image with %d masked pixels (size threshold %d of "
                          "the method's function) returned %r and %r" % (c["method"], c["H"], c["W"], c["count"],
                                                                          c["threshold"], o["values"][0], o["values"][1]))
            elif not o["ni"]:
                res[k] = ("S1 non-interference: scrambling the %d masked-out pixels of a %dx%d image changed the %s threshold "
                          "(%r vs %r)" % (o["n_out"], c["H"], c["W"], c["method"], o["values"][0], o["values"][2]))
            continue
        if c["fn"] in ("rob", "mct", "rc"):
            if _bad(o):
                res[k] = "%s raised/crashed on plain data: %s" % (c["fn"], str(o)[:200])
            elif o["t"] != o["t_masked"] and not (o["t"] != o["t"] and o["t_masked"] != o["t_masked"]):
                res[k] = "S1: the same data reached through a mask give a different %s threshold (%r vs %r)" % (
                    c["fn"], o["t"], o["t_masked"])
            continue
        if c["fn"] == "imask":
            if _bad(o):
                res[k] = "get_threshold crashed/hung with an integer mask: %s" % (str(o)[:300],)
            elif not o["ctl_ok"]:
                res[k] = "S1/S4 with the BOOLEAN mask: repeated call or scrambled masked-out pixels changed the outcome"
            elif not (o["int_det"] and o["int_ni"] and o["int_eq_bool"]):
                res[k] = ("S1 with a 0/%d mask of dtype %s: %s%s%s (bool mask: %s; integer mask: %s; masked-out pixels scrambled: %s)"
                          % (c["mask_true"], c["mask_dtype"],
                             "" if o["int_eq_bool"] else "result differs from the boolean mask's; ",
                             "" if o["int_ni"] else "masked-out pixels change the outcome; ",
                             "" if o["int_det"] else "repeated call differs; ", o["bool"], o["int"], o["int_scrambled"]))
            continue
        if c["fn"] == "mal":
            if _bad(o):
                res[k] = "get_threshold crashed/hung on a malformed input: %s" % (str(o)[:300],)
            elif not o["det"]:
                res[k] = "S4 determinism (malformed input %s): two identical calls behaved differently" % c["what"]
            elif c["what"] == "window_too_large" and o["outcome"] != "exc":
                res[k] = "adaptive window larger than half the image was not rejected: %s" % (o,)
            elif (c["what"] == "window_too_large" and o["global_ok"] and c.get("mask_dtype") is None
                  and o["exc_name"] != "ValueError"):
                # the documented ValueError is demanded only when it is the single rejection cause
                res[k] = "adaptive window larger than half the image: expected the documented ValueError, got %s" % o["exc_name"]
            continue
        if c["fn"] == "thr":
            if _bad(o):
                res[k] = "get_threshold crashed/hung: %s" % (str(o)[:300],)
                continue
            if not o["det"]:
                res[k] = "S4 determinism: two identical calls returned different thresholds"
                continue
            if ("again_of" in c and c["again_of"] < k and _strip(cases[c["again_of"]]) == _strip(c)
                    and json.dumps(o, sort_keys=True) != json.dumps(outs[c["again_of"]], sort_keys=True)):
                res[k] = ("S4 history dependence: the same call gave a different result later in the same process "
                          "(first %s, later %s)" % (str(outs[c["again_of"]].get("g")), str(o.get("g"))))
                continue
            if o.get("mask_none_equiv") is False:
                res[k] = "S1: mask=None and a mask selecting every pixel give different results"
                continue
            badp = [p for p, ok in o["ni"].items() if not ok]
            if badp:
                res[k] = "S1 non-interference: replacing pixels outside the mask (%s) changed the result: %s" % (
                    ",".join(badp), o.get("ni_detail"))
                continue
            if _rejected(c):
                continue
            if "raised" in o:
                plain = (not c["kw"] and o["distinct"] >= 3 and min(len(c["img"]), len(c["img"][0])) >= 12
                         and c["dtype"] == "float64")
                if c["mod"] == 1 and c["window"] == 1:
                    ctx.count("observation:adaptive_window_1_raises_%s" % o["raised"])
                    plain = False
                if c["kind"] == "sat8":
                    ctx.count("observation:kapur_saturated_8bit_raises_%s" % o["raised"])
                    plain = False
                if plain:
                    res[k] = "get_threshold raised %s on a valid input (default keyword arguments)" % o["raised"]
                continue
            if not o["dispatch_ok"]:
                res[k] = ("get_global_threshold('%s', ...) differs from %s(image, mask, **kwargs) / the empty-mask rule"
                          % (c["method"], METHOD_FN[c["method"]]))
                continue
            if not o["dtype_ok"]:
                res[k] = "dtype of the local thresholds is not the expected one (image dtype per object, float64 otherwise)"
                continue
            if "ad" in o:
                a = o["ad"]
                badf = [f for f in ("z_shape_ok", "knots_ok", "bbox_ok", "order_ok", "abscissae_ok", "spline_ok")
                        if a.get(f) is False]
                if a["calls"] != 1 or badf:
                    res[k] = "adaptive structure: %s (spline constructed %d times)" % (",".join(badf) or "-", a["calls"])
                    continue
                pairs = [(x, y) for x, y in zip(a["z_got"], a["z_exp"])]
                if any((x != x) != (y != y) for x, y in pairs):
                    res[k] = "adaptive structure: a block threshold is NaN on one side only"
                    continue
                pairs = [(x, y) for x, y in pairs if x == x and math.isfinite(x) and math.isfinite(y)]
                si.append(k)
                sargs.append(("entry_check_blocks", [[_q(x) for x, _ in pairs], [_q(y) for _, y in pairs]]))
            if "po_tab" in o:
                excs = [t for t in o["po_tab"] if isinstance(t[1], str)]
                if excs:
                    res[k] = "per-object structure: the global method raised on object %s alone but not in the loop" % excs[0][0]
                    continue
                nanl = {t[0] for t in o["po_tab"] if not math.isfinite(t[1])}
                px = []
                bad_nan = False
                for l, m_, v in zip(o["po_labels"], o["po_inmask"], o["po_raw"]):
                    if l in nanl and m_:
                        tv = [t[1] for t in o["po_tab"] if t[0] == l][0]
                        bad_nan = bad_nan or not _feq(tv, v)
                    elif not math.isfinite(v):
                        bad_nan = True
                    else:
                        px.append([l, m_, _q(v)])
                if bad_nan:
                    res[k] = "per-object structure: non-finite raw threshold where a finite one is expected (or vice versa)"
                    continue
                si.append(k)
                sargs.append(("entry_check_po", [1 if o.get("f32") else 0,
                                                 [[t[0], _q(t[1])] for t in o["po_tab"] if t[0] not in nanl], px]))
            for p_, ok in o.get("po", {}).items():
                if isinstance(ok, str):
                    # scrambling the OTHER objects made the loop raise on one of them: no statement about object p_
                    ctx.count("po_perturbed_call_raised")
            badk = [p for p, ok in o.get("po", {}).items() if ok is False]
            if badk:
                res[k] = "S1 per object: pixels outside object %s changed its raw per-object threshold" % ",".join(badk)
                continue
            if not _finite(o):
                continue
            if c["lo"] is not None and c["hi"] is not None and c["lo"] > c["hi"]:
                continue
            if o.get("f32_outside_f64_limits"):
                ctx.count("f32_local_outside_binary64_limits(candidate finding)")
            ts = [o["local"]] if o["scalar"] else o["local_u"]
            ci.append(k)
            args.append([_optq(c["lo"]), _optq(c["hi"]), _q(o["g"]), 0 if o["scalar"] else 1, [_q(t) for t in ts],
                         1 if o.get("f32") else 0])
            if c["method"] in BRACKET and o["distinct"] >= 3 and not c["kw"]:
                bi.append(k)
                bargs.append([_optq(o["vmin"]), _optq(o["vmax"]), _q(o["raw_g"]), 0, [], 0])
        else:
            if _bad(o):
                res[k] = "otsu raised/crashed: %s" % (str(o)[:300],)
                continue
            t = o["t"]
            if not o["det"]:
                res[k] = "S4 otsu: repeated call differs"
            elif not o["perm"]:
                res[k] = "S6 otsu is not invariant under a permutation of its data"
            elif not o["nan"]:
                res[k] = "S6 otsu is not invariant under insertion of NaNs"
            elif not (o["minmax"][0] <= t <= o["minmax"][1]):
                res[k] = "S5 otsu threshold %r outside [min, max] = %s" % (t, o["minmax"])
            elif o["affine_exact"][0] != o["affine_exact"][1] and len(set(c["ints"])) > 1 and not _illcond(ctx, c):
                res[k] = "S6 otsu(2^k x + b/8) = %r but 2^k otsu(x) + b/8 = %r" % tuple(o["affine_exact"])
            elif (abs(o["affine"][0] - o["affine"][1]) > 1e-9 * max(1.0, abs(o["affine"][1]))
                  and not _illcond(ctx, c)):
                res[k] = "S6 otsu(a x + b) = %r but a otsu(x) + b = %r" % tuple(o["affine"])
            elif any(g != e for g, e in o["scale_exact"]):
                g, e = [p_ for p_ in o["scale_exact"] if p_[0] != p_[1]][0]
                res[k] = ("S6 otsu(2^%d z) = %r but 2^%d otsu(z) = %r (a power-of-two factor is exact in every operation of "
                          "the cut)" % (c["kw2"], g, c["kw2"], e))
            elif (abs(o["affine_wide"][0] - o["affine_wide"][1]) > 1e-9 * o["affine_wide"][2] + 1e-13 * abs(o["affine_wide"][1])
                  and len(set(c["ints"])) > 1 and not _illcond(ctx, c)):
                res[k] = "S6 otsu(a z) = %r but a otsu(z) = %r for a = %r * 10^%d (spread of the data %r)" % (
                    o["affine_wide"][0], o["affine_wide"][1], c["a"], c["e10"], o["affine_wide"][2])
            else:
                for name in ("entropy", "otsu3", "entropy3"):
                    if "skipped" in o[name]:
                        ctx.count("%s_raised_%s" % (name, o[name]["skipped"]))
                    elif not o[name]["perm"] or not o[name]["nan"]:
                        res[k] = "S6 %s is not invariant under permutation / NaN insertion" % name
    _fresh_replay(ctx, cases, outs, res)
    for entry in ("entry_check_po", "entry_check_blocks"):
        ks = [(k, a) for k, (e, a) in zip(si, sargs) if e == entry]
        for (k, _), r in zip(ks, ctx.run_model(entry, [a for _, a in ks]) if ks else []):
            if r != 1 and res[k] is None:
                o = outs[k]
                if entry == "entry_check_po":
                    res[k] = ("S1 per-object structure (Spec.ThresholdStruct.check_per_object false): a pixel of an object "
                              "does not carry get_global_threshold(method, image, mask & (labels == l)) / an outside pixel "
                              "not the fill value; labels present %s, per-label expectation %s, raw values present %s" % (
                                  sorted(set(o["po_labels"]))[:12], o["po_tab"][:8], sorted(set(o["po_raw"]))[:8]))
                else:
                    res[k] = ("S1 adaptive structure (Spec.ThresholdStruct.all_eq false): a block threshold handed to the "
                              "spline differs from the global method on that block's masked pixels: got %s expected %s" % (
                                  o["ad"]["z_got"][:6], o["ad"]["z_exp"][:6]))
    for k, r in zip(ci, ctx.run_model("entry_check", args)):
        if r != 1:
            c, o = cases[k], outs[k]
            res[k] = ("S2/S3 range or band violated (Spec.ThresholdSpec.check_thresholds false): global %r, range "
                      "[%r, %r], local thresholds span [%r, %r], band [%r, %r]" % (
                          o["g"], c["lo"], c["hi"], o["local"] if o["scalar"] else min(o["local_u"]),
                          o["local"] if o["scalar"] else max(o["local_u"]), o["g"] * 0.7, o["g"] * 1.5))
    for k, r in zip(bi, ctx.run_model("entry_check", bargs)):
        if r != 1 and res[k] is None:
            o = outs[k]
            res[k] = "S5 bracket: raw %s threshold %r outside the masked intensities [%r, %r]" % (
                cases[k]["method"], o["raw_g"], o["vmin"], o["vmax"])
    return res


_ILL = {}


def _illcond(ctx, case):
    """the arg-min of the Q model is (nearly) tied: a rounding-level change may select another bin"""
    key = (tuple(case["ints"]),)
    if key not in _ILL:
        m = ctx.run_model("entry_otsu", [case["ints"]])[0]
        best, second = _fr(m[1]), (None if m[2] == [] else _fr(m[2][0]))
        _ILL[key] = _tied(m)
        if _ILL[key]:
            ctx.count("otsu_illconditioned_affine_skipped")
    return _ILL[key]


def nontrivial(case, out):
    if _bad(out):
        return False
    if case["fn"] == "thr":
        return (not _rejected(case)) and "raised" not in out and out["distinct"] >= 3 and out["n_out"] > 0
    if case["fn"] in ("fmul", "mal"):
        return False
    if case["fn"] == "imask":
        return out["n_out"] > 0
    if case["fn"] == "big":
        return True
    if case["fn"] in ("rob", "mct", "rc"):
        return len(set(case["ints"])) >= 3
    return len(set(case["ints"])) >= 3


def kernel_crosscheck(ctx, cases, outs):
    idx, args, exp = [], [], []
    for k, (c, o) in enumerate(zip(cases, outs)):
        if c["fn"] != "thr" or _bad(o) or _rejected(c) or "raised" in o or not _finite(o):
            continue
        a = _run_arg(c, o)
        if not o["scalar"]:
            a[5] = a[5][:6]
            if a[6]:
                a[6] = [a[6][0][:6]]
        idx.append(k); args.append(a)
        if len(idx) >= 40:
            break
    # expected: what the extracted model says on the same (truncated) input - itself compared with the
    # implementation here, value by value (the representation of a rational is not canonical)
    exp = ctx.run_model("entry_run", args)
    for i, r in enumerate(exp):
        o = outs[idx[i]]
        want = [o["local"]] if o["scalar"] else o["local_s"][:6]
        got = [r[0][1]] if o["scalar"] else r[0][1]
        if [Fraction(x[0], x[1]) for x in got] != [Fraction(v) for v in want] or _fr(r[1][1]) != Fraction(o["g"]):
            return "extracted model differs from the implementation on a truncated case", len(idx)
    r = ctx.coq_eval_eq("Model.ThresholdRun", "entry_run", args, exp, tag="run")
    bad = [k for k, b in zip(idx, r) if b is not True]
    if bad:
        return "vm_compute evaluation of Model.ThresholdRun.entry_run differs from the extracted model / implementation on case %d" % bad[0], len(idx)
    return None, len(idx)


def search_cases(ctx, rnd):
    rng = ctx.rng
    cases = []
    if rnd == 0:
        # targeted: every method function through all the branches its size comparisons open
        cases.extend(_branch_cases(ctx))
    for _ in range(2):
        for method in METHODS:
            for mod in (0, 1, 2):
                if method == "MoG" and mod == 1 and rnd % 2:
                    continue
                cases.append(_thr_case(rng, method, mod, small=True))
    for _ in range(60):
        cases.append(_otsu_case(rng))
    return cases


def attribute(ctx, case, out, clause):
    """F24/C11: a failure of the integer-mask stream is the known finding iff the mask has a non-bool integer dtype AND the
    same calls with mask.astype(bool) pass; everything else is a violation"""
    if (isinstance(case, dict) and case.get("fn") == "imask" and case.get("mask_dtype") in ("uint8", "int32", "int64")
            and isinstance(out, dict) and out.get("ctl_ok") is True
            and not (out.get("int_det") and out.get("int_ni") and out.get("int_eq_bool"))):
        return "F24/C11"
    return None


def reproduce_finding(ctx, finding):
    case = finding["witness"]
    o = ctx.run_impl([case])[0]
    v = check(ctx, [case], [o])[0]
    return bool(v) and attribute(ctx, case, o, v) == finding["id"]


def shrink_candidates(case):
    if case["fn"] in ("fmul", "mal", "big", "imask"):
        return
    if case["fn"] in ("rob", "mct", "rc"):
        v = case["ints"]
        if len(v) > 3:
            h = len(v) // 2
            for sv in (v[:h], v[h:], v[1:], v[:-1]):
                yield dict(case, ints=sv)
        return
    if "again_of" in case:
        return
    if case["fn"] == "otsu":
        v = case["ints"]
        if len(v) > 2:
            h = len(v) // 2
            for s in (v[:h], v[h:], v[1:], v[:-1]):
                if len(s) >= 2:
                    yield dict(case, ints=s)
        return
    img = np.array(case["img"])
    H, W = img.shape
    w = case["window"]

    def crop(r0, r1, c0, c1):
        c = dict(case)
        c["img"] = img[r0:r1, c0:c1].tolist()
        if case["mask"] is not None:
            c["mask"] = np.array(case["mask"])[r0:r1, c0:c1].tolist()
        if case["labels"] is not None:
            c["labels"] = np.array(case["labels"])[r0:r1, c0:c1].tolist()
        return c
    if H // 2 >= 2 * w:
        yield crop(0, H // 2, 0, W)
        yield crop(H - H // 2, H, 0, W)
    if W // 2 >= 2 * w:
        yield crop(0, H, 0, W // 2)
        yield crop(0, H, W - W // 2, W)
    if H - 1 >= 2 * w:
        yield crop(0, H - 1, 0, W)
    if W - 1 >= 2 * w:
        yield crop(0, H, 0, W - 1)
    if len(case["pert"]) > 1:
        for p in case["pert"]:
            yield dict(case, pert=[p])
    if case["cf"] != 1.0:
        yield dict(case, cf=1.0)
    if case["layout"] != "C":
        yield dict(case, layout="C")
    if case["dtype"] != "float64":
        yield dict(case, dtype="float64")
    if case["kw"]:
        yield dict(case, kw={})
    if case["ldtype"] != "int64":
        yield dict(case, ldtype="int64")
    q = (np.round(img * 8) / 8.0)
    if not np.array_equal(q, img):
        yield dict(case, img=q.tolist())


MANIFEST = {
    "level_text": (
        "Machine-checked proof (Coq 8.16, 31 theorems, all closed under the global context) about models REGENERATED from "
        "threshold.py on every run: get_threshold is evaluated symbolically into the terms of its two results (robust to "
        "behaviour-preserving refactorings) and proved equal to the specified closed form (get_threshold_closed_form); for every "
        "product, modifier, raw threshold, correction factor and range the global threshold lies in the range (global_in_range) "
        "and every non-sentinel local threshold in the range and the band [g*0.7, g*1.5], for the exact product, for binary64 "
        "arithmetic (fmul_band_bracket, local_in_band_binary64) and for float32 arrays modulo the stored rounding; band "
        "literals, access shapes of the 12 functions taking (image, mask), random-stream seeding, the Background / Kapur value "
        "formulas and the RobustBackground defaults are regenerated facts (band_consts, access_crop_first, "
        "random_streams_seeded, background_value_range, kapur_midpoint_range, body_methods_crop_first); crop-first methods "
        "cannot distinguish images agreeing on the mask, through adaptive blocks and the per-object loop "
        "(crop_first_noninterference*), and the per-object loop as written meets the per-pixel specification "
        "(per_object_loop_meets_spec, crop_window_equiv); executable exact models tied to the code by correspondence: two-class "
        "Otsu (permutation / NaN / affine invariance, bracket), Ridler-Calvard loop and maximum-correlation threshold (bracket for "
        "ALL inputs: rc_model_bracket, mct_model_bracket), RobustBackground trimming (robust_mean_range), adaptive block geometry "
        "in binary64 (finite sweep + refutation of 'blocks tile the image'). Tied to the code by exact comparison of "
        "get_threshold's (local, global) with the extracted interpreter AND the closed form fed with the raw thresholds of the "
        "staged callees, by extracted verified checkers on the raw per-object array (every pixel) and the adaptive block values / "
        "partition / spline inputs and output, by dispatch / dtype / mask=None clauses, two-run non-interference, determinism, "
        "same-process and fresh-process history replays, bracket and Otsu invariances on the implementation."),
    "level_note": (
        "Trusted: Coq kernel + vm_compute; extraction (ExtrOcamlBasic only) and the S-expression driver; the Python harness and the "
        "ast translators (symbolic evaluator, access / random-stream / size-threshold / formula passes); NumPy/SciPy "
        "(RectBivariateSpline, linspace, find_objects contract). Modelled, not verified: the numerical bodies of MoG, Kapur and "
        "Background beyond the regenerated formulas (relational clauses only); log/exp around the Ridler-Calvard loop and in Otsu's "
        "wrapper; floating-point Otsu / MCT / RobustBackground / Ridler-Calvard are compared with their exact models at stated "
        "tolerances on dyadic data, ill-conditioned arg-min/arg-max cases excluded and counted. otsu3/entropy/entropy3 values and "
        "otsu with non-default min/max/bins have invariance clauses only. Known finding F24/C11 (integer 0/1 masks are used as fancy "
        "indices by all seven methods) is reported as KNOWN-FINDING and attributed only when the mask dtype is a non-bool integer and "
        "the same calls with mask.astype(bool) pass; the access-shape theorems read the mask as boolean. Per-object pixels with label 0 "
        "carry the sentinel 1.0 and are outside the range / band clauses (reading of the property, see ASSUMPTIONS). Calls that raise "
        "(adaptive_window_size=1, Kapur on near-saturated 8-bit data, None range limits) are required only to raise identically."),
    "technique": "Coq proof over regenerated programs/formulas + exact differential correspondence + verified checkers on outputs",
    "design_ref": "DESIGN.md section 7, C11",
}
