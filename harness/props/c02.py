"""C02 - convex hull returns exactly the extreme points of every label, in order."""
import itertools
import numpy as np

ID = "C02"
PROPS_FILE = "theories/Props/C02.v"
EXTRACT = ("theories/Extract/XC02.v", "c02",
           ["entry_hull_ijv", "entry_hull_labels", "entry_hull_label", "entry_hull_ok", "entry_batch_ok"])
PYX = {"_convex_hull.pyx": ["CONVEX", "convex_hull_ijv"]}
RULE = ("corpus; every non-empty point set of a 3x3 and 3x4 grid (thorough: also 4x3, 2x5, 5x2) as one label through convex_hull_ijv, "
        "alone (slack 0, where the in-place guard can fire), followed by another label (whose first row an overrun would corrupt) and behind a filler label (slack > 0); random label images "
        "1x1..12x12 (thorough ..40x40: noise at several densities, blobs, lines, diagonals, U/C shapes, columns with "
        "gaps, objects touching all borders) through cpmorphology.convex_hull with index lists {None, all, permuted, "
        "with absent labels, subsets}; random ijv lists with non-dense columns, duplicate points, label 0, gaps in the "
        "label numbers; every requested label is also run ALONE through the same entry point and through the model; a "
        "few empty-ijv calls (both sides must reject). non-trivial = some requested label has >= 3 hull vertices and "
        "more pixels than vertices (pruning happened); distinct by hash of the case")
TRUSTED = ["modelled, not verified: np.lexsort / np.argsort (as sort by (v,j,i) / by value on repeat-free lists), "
           "np.argwhere row-major order, outline() as the 8-neighbour-or-border rule, int32 arithmetic as Z",
           "the per-label envelope arrays are modelled fresh per label (the code re-initialises exactly the columns "
           "start_j..end_j it reads)",
           "Python glue: block splitting for the label-alone comparison, the image -> (i,j,label) list of all "
           "positive pixels handed to the verified checker, indexes=None -> sorted distinct non-zero labels"]
ASSUMPTIONS = ["coordinates and labels are non-negative and < 2^15 (no int32 overflow in the cross product)",
               "the requested index list is repeat-free (as the property states); with a repeated label the code "
               "reads labels_ijv[n, 2] one row past the buffer"]
CASE_TIMEOUT = 60


# ------------------------------------------------------------------------------ generators

def _shape(rng, kind, H, W):
    a = np.zeros((H, W), int)
    if kind == "hline":
        a[rng.randint(H), rng.randint(W):] = 1
    elif kind == "vline":
        a[rng.randint(H):, rng.randint(W)] = 1
    elif kind == "diag":
        for k in range(min(H, W)):
            a[k, k] = 1
    elif kind == "adiag":
        for k in range(min(H, W)):
            a[H - 1 - k, k] = 1
    elif kind == "U":
        a[:, 0] = 1; a[:, W - 1] = 1; a[H - 1, :] = 1
    elif kind == "C":
        a[0, :] = 1; a[H - 1, :] = 1; a[:, 0] = 1
    elif kind == "Crev":
        a[0, :] = 1; a[H - 1, :] = 1; a[:, W - 1] = 1
    elif kind == "gaps":
        a[:, ::2] = (rng.rand(H, (W + 1) // 2) < 0.6)
    elif kind == "full":
        a[:] = 1
    elif kind == "frame":
        a[0, :] = 1; a[-1, :] = 1; a[:, 0] = 1; a[:, -1] = 1
    elif kind == "single":
        a[rng.randint(H), rng.randint(W)] = 1
    elif kind == "blob":
        import scipy.ndimage as nd
        n = nd.gaussian_filter(rng.rand(H, W), 1.2)
        a = (n > np.median(n)).astype(int)
    return a


SHAPES = ["hline", "vline", "diag", "adiag", "U", "C", "Crev", "gaps", "full", "frame", "single", "blob"]


def _index_list(rng, present, allow_zero):
    present = sorted(set(int(x) for x in present))
    u = rng.rand()
    if u < 0.12:
        return None
    pool = list(present)
    hi = (max(present) if present else 0) + 3
    absent = [x for x in range(0 if allow_zero else 1, hi + 1) if x not in present]
    if u < 0.3:
        idx = list(pool)
    elif u < 0.5:
        idx = list(rng.permutation(pool)) if pool else []
    elif u < 0.8:
        k = rng.randint(0, len(absent) + 1)
        idx = pool + list(rng.permutation(absent)[:k])
        idx = list(rng.permutation(idx)) if idx else []
    else:
        idx = [x for x in pool if rng.rand() < 0.5]
        if absent and rng.rand() < 0.5:
            idx.append(absent[rng.randint(len(absent))])
        idx = list(rng.permutation(idx)) if idx else []
    return [int(x) for x in idx]


def _label_image(rng, maxdim):
    dims = [1, 1, 2, 2, 3, 3, 4, 5, 6, 7, 8, 9, 10, 12] + ([16, 20, 25, 32, 40] if maxdim > 12 else [])
    H = int(rng.choice(dims)); W = int(rng.choice(dims))
    u = rng.rand()
    if u < 0.35:
        nl = int(rng.choice([1, 2, 3, 4, 6]))
        dens = rng.choice([0.15, 0.3, 0.5, 0.7, 0.9, 1.0])
        lab = rng.randint(1, nl + 1, (H, W)) * (rng.rand(H, W) < dens)
    elif u < 0.6:
        import scipy.ndimage as nd
        n = nd.gaussian_filter(rng.rand(H, W), rng.choice([0.7, 1.2, 2.0]))
        lab, cnt = nd.label(n > np.percentile(n, rng.choice([40, 60, 75])), np.ones((3, 3)) if rng.rand() < 0.5 else None)
        if cnt and rng.rand() < 0.5:
            perm = np.concatenate([[0], rng.permutation(cnt) + 1 + rng.randint(0, 3)])
            lab = perm[lab]
    else:
        lab = np.zeros((H, W), int)
        for l in range(1, int(rng.choice([1, 1, 2, 3])) + 1):
            s = _shape(rng, SHAPES[rng.randint(len(SHAPES))], H, W)
            lab[s > 0] = l * int(rng.choice([1, 1, 2]))
    return np.asarray(lab, int)


def _random_ijv(rng, big):
    nl = int(rng.choice([1, 1, 2, 3, 5]))
    labels = sorted(set(int(x) for x in rng.randint(0, 9, nl)))
    H = int(rng.choice([1, 2, 3, 4, 6, 10] + ([30] if big else [])))
    W = int(rng.choice([1, 2, 3, 4, 6, 10] + ([30] if big else [])))
    stride = int(rng.choice([1, 1, 2, 3, 7]))
    joff = int(rng.choice([0, 0, 1, 5]))
    rows = []
    for l in labels:
        n = int(rng.choice([1, 2, 3, 4, 6, 10, 20] + ([80] if big else [])))
        for _ in range(n):
            rows.append([int(rng.randint(H)), joff + stride * int(rng.randint(W)), l])
    if rng.rand() < 0.7:           # drop duplicate points (most callers have none)
        rows = [list(t) for t in sorted(set(map(tuple, rows)))]
    rows = [rows[k] for k in rng.permutation(len(rows))]
    idx = _index_list(rng, labels, True)
    if idx is None:
        idx = labels
    return {"fn": "ijv", "ijv": rows, "idx": idx}


def _grid_sets(H, W):
    cells = [(i, j) for j in range(W) for i in range(H)]
    for bits in range(1, 1 << (H * W)):
        yield [cells[k] for k in range(H * W) if (bits >> k) & 1]


def generate(ctx):
    rng = ctx.rng
    cases = []
    # exhaustive small grids, one label: alone (slack 0) and behind a filler label whose own pixels leave slack
    grids = [(3, 3), (3, 4)] if ctx.quick() else [(3, 3), (3, 4), (4, 3), (2, 5), (5, 2)]
    for H, W in grids:
        for pts in _grid_sets(H, W):
            ijv = [[i, j, 2] for i, j in pts]
            cases.append({"fn": "ijv", "ijv": ijv, "idx": [2]}); ctx.count("grid-alone")
            # followed by another label: an output overrunning the label's own rows would corrupt its first pixel
            cases.append({"fn": "ijv", "ijv": ijv + [[1, 0, 3], [0, 1, 3], [2, 2, 3]], "idx": [3, 2] if len(pts) % 2 else [2, 3]})
            ctx.count("grid-followed")
            if len(pts) % 3 == 0 or len(pts) <= 2:
                k = 1 + len(pts) % 4
                fill = [[0, c, 1] for c in range(k + 1)] + [[1, 0, 1]]
                cases.append({"fn": "ijv", "ijv": fill + ijv, "idx": [2, 1] if len(pts) % 2 else [1, 2]})
                ctx.count("grid-company")
    # random subsets of somewhat larger grids (slack 0)
    for _ in range(ctx.n(1000, 8000)):
        H, W = [(3, 4), (4, 4), (5, 3), (3, 6), (6, 6)][rng.randint(5)]
        m = rng.rand(H, W) < rng.choice([0.3, 0.5, 0.8])
        pts = [[int(i), int(j), 1] for j in range(W) for i in range(H) if m[i, j]]
        if pts:
            cases.append({"fn": "ijv", "ijv": pts, "idx": [1]}); ctx.count("grid-random")
    # label images through cpmorphology.convex_hull
    for _ in range(ctx.n(1500, 10000)):
        lab = _label_image(rng, ctx.n(12, 40))
        present = [int(x) for x in np.unique(lab) if x > 0]
        cases.append({"fn": "labels", "img": lab.tolist(), "idx": _index_list(rng, present, False)})
        ctx.count("labels")
    # single shapes, every kind at a few sizes
    for kind in SHAPES:
        for H, W in [(1, 1), (1, 5), (5, 1), (2, 2), (3, 3), (4, 7), (7, 4), (9, 9)]:
            s = _shape(rng, kind, H, W)
            cases.append({"fn": "labels", "img": (s * 3).tolist(), "idx": [3]}); ctx.count("shape")
            ij = np.argwhere(s > 0)
            if len(ij):
                cases.append({"fn": "ijv", "ijv": [[int(a), int(b) * 2 + 1, 4] for a, b in ij], "idx": [4, 1]})
                ctx.count("shape-ijv-sparse-columns")
    # ijv lists
    for _ in range(ctx.n(1500, 10000)):
        cases.append(_random_ijv(rng, not ctx.quick())); ctx.count("ijv")
    # malformed: empty ijv is rejected by both sides
    cases.append({"fn": "ijv", "ijv": [], "idx": [1]}); ctx.count("malformed-empty-ijv")
    cases.append({"fn": "ijv", "ijv": [], "idx": []}); ctx.count("malformed-empty-ijv")
    return cases


# ------------------------------------------------------------------------------ implementation

def _res(h, c):
    h = np.asarray(h); c = np.asarray(c)
    return {"rows": h.reshape(-1, h.shape[1]).tolist() if h.ndim == 2 else h.tolist(),
            "counts": [int(x) for x in c.tolist()], "ncol": int(h.shape[1]) if h.ndim == 2 else -1}


def _idx_of(case):
    if case["idx"] is not None:
        return list(case["idx"])
    a = np.asarray(case["img"], int)
    return sorted(int(x) for x in np.unique(a) if x != 0)


def _alone_cases(case):
    """The same entry point applied to each requested label's own pixels only (None if it has none)."""
    res = []
    if case["fn"] == "ijv":
        for l in _idx_of(case):
            own = [r for r in case["ijv"] if r[2] == l]
            res.append({"fn": "ijv", "ijv": own, "idx": [l]} if own else None)
    else:
        a = np.asarray(case["img"], int).reshape(len(case["img"]), -1)
        for l in _idx_of(case):
            res.append({"fn": "labels", "img": ((a == l) * l).tolist(), "idx": [l]} if l > 0 and (a == l).any() else None)
    return res


def _call(case):
    from centrosome import cpmorphology as M
    if case["fn"] == "ijv":
        arr = np.array(case["ijv"], int).reshape(-1, 3)
        before = arr.copy()
        h, c = M.convex_hull_ijv(arr, np.array(case["idx"], int))
        r = _res(h, c)
        r["input_kept"] = bool(np.array_equal(arr, before))
        return r
    a = np.array(case["img"], int).reshape(len(case["img"]), -1)
    idx = None if case["idx"] is None else np.array(case["idx"], int)
    h, c = M.convex_hull(a, idx)
    return _res(h, c)


def impl(case):
    out = _call(case)
    alone = []
    for sub in _alone_cases(case):
        alone.append(None if sub is None else _call(sub))
    out["alone"] = alone
    return out


def _bad(o):
    return (not isinstance(o, dict)) or "exc" in o or "crash" in o


# ------------------------------------------------------------------------------ model

def _marg(case):
    if case["fn"] == "ijv":
        return "entry_hull_ijv", [case["ijv"], case["idx"]]
    return "entry_hull_labels", [case["img"], _idx_of(case)]


def model(ctx, cases, outs):
    jobs = {"entry_hull_ijv": [], "entry_hull_labels": []}
    where = []
    for k, c in enumerate(cases):
        e, a = _marg(c)
        jobs[e].append(a); where.append((e, k, None))
        for n, sub in enumerate(_alone_cases(c)):
            if sub is not None:
                e, a = _marg(sub)
                jobs[e].append(a); where.append((e, k, n))
    res = {e: ctx.run_model(e, a) if a else [] for e, a in jobs.items()}
    pos = {e: 0 for e in jobs}
    mouts = [{"main": None, "alone": {}} for _ in cases]
    for e, k, n in where:
        r = res[e][pos[e]]; pos[e] += 1
        if n is None:
            mouts[k]["main"] = r
        else:
            mouts[k]["alone"][n] = r
    return mouts


def _cmp(o, m, what):
    if isinstance(m, dict):
        return "%s: model failed: %s" % (what, m)
    if m == -1:
        return None if _bad(o) and "exc" in o else "%s: model rejects the input, implementation returned %s" % (what, str(o)[:200])
    if _bad(o):
        return "%s: implementation raised/crashed: %s" % (what, str(o)[:300])
    rows, counts, over, ncol = m
    if over:
        return "%s: model predicts that the in-place output overruns the label's own input rows" % what
    if rows != o["rows"] or counts != o["counts"] or ncol != o["ncol"]:
        return "%s: impl rows %s counts %s ncol %s / model rows %s counts %s ncol %s" % (
            what, str(o["rows"])[:160], o["counts"], o["ncol"], str(rows)[:160], counts, ncol)
    return None


def compare(case, out, m):
    d = _cmp(out, m["main"], "in company")
    if d:
        return d
    if _bad(out):
        return None
    for n, a in enumerate(out["alone"]):
        if a is None:
            continue
        d = _cmp(a, m["alone"].get(n), "label #%d alone" % n)
        if d:
            return d
    return None


# ------------------------------------------------------------------------------ the property

def _all_ijv(case):
    if case["fn"] == "ijv":
        return case["ijv"]
    a = np.asarray(case["img"], int).reshape(len(case["img"]), -1)
    return [[int(i), int(j), int(a[i, j])] for i, j in np.argwhere(a > 0)]


def _malformed(case):
    return case["fn"] == "ijv" and len(case["ijv"]) == 0


def check(ctx, cases, outs):
    res = [None] * len(cases)
    todo = []
    for k, (c, o) in enumerate(zip(cases, outs)):
        if _malformed(c):
            if not (isinstance(o, dict) and "exc" in o):
                res[k] = "empty point list was not rejected: %s" % (str(o)[:200],)
            continue
        if _bad(o):
            res[k] = "implementation raised/crashed on a valid input: %s" % (str(o)[:300],)
            continue
        if o.get("input_kept") is False:
            res[k] = "the caller's ijv array was modified"
            continue
        todo.append(k)
    args = [[_all_ijv(cases[k]), _idx_of(cases[k]), outs[k]["rows"], outs[k]["counts"]] for k in todo]
    for k, r in zip(todo, ctx.run_model("entry_batch_ok", args) if args else []):
        o = outs[k]
        if r != 1:
            res[k] = ("some requested label's block is not the hull polygon of its pixels, in request order "
                      "(Spec.HullSpec.batch_ok false)")
            continue
        # independence: each label alone gives exactly its block
        off = 0
        for n, (l, cnt) in enumerate(zip(_idx_of(cases[k]), o["counts"])):
            blk = o["rows"][off:off + cnt]; off += cnt
            a = o["alone"][n]
            if a is None:
                continue
            if _bad(a):
                res[k] = "label %d alone: implementation raised/crashed: %s" % (l, str(a)[:200]); break
            if a["rows"] != blk or a["counts"] != [cnt]:
                res[k] = "hull of label %d depends on other labels' pixels: alone %s, in company %s" % (
                    l, str(a["rows"])[:200], str(blk)[:200])
                break
    return res


def nontrivial(case, out):
    if _bad(out) or _malformed(case):
        return False
    ijv = _all_ijv(case)
    for l, cnt in zip(_idx_of(case), out["counts"]):
        if cnt >= 3 and len(set((r[0], r[1]) for r in ijv if r[2] == l)) > cnt:
            return True
    return False


def kernel_crosscheck(ctx, cases, outs):
    idx = [k for k, c in enumerate(cases) if c["fn"] == "ijv" and not _bad(outs[k]) and 3 <= len(c["ijv"]) <= 14]
    idx = idx[::max(1, len(idx) // 40)][:40]
    args = [[cases[k]["ijv"], cases[k]["idx"]] for k in idx]
    exp = [[outs[k]["rows"], outs[k]["counts"], 0, 3] for k in idx]
    r = ctx.coq_eval_eq("Model.Hull", "entry_hull_ijv", args, exp, tag="ijv")
    bad = [k for k, b in zip(idx, r) if b is not True]
    idl = [k for k, c in enumerate(cases) if c["fn"] == "labels" and not _bad(outs[k])
           and len(c["img"]) * len(c["img"][0]) <= 30][:20]
    args = [[cases[k]["img"], _idx_of(cases[k])] for k in idl]
    exp = [[outs[k]["rows"], outs[k]["counts"], 0, outs[k]["ncol"]] for k in idl]
    r = ctx.coq_eval_eq("Model.Hull", "entry_hull_labels", args, exp, tag="lab") if idl else []
    bad += [k for k, b in zip(idl, r) if b is not True]
    if bad:
        return "vm_compute evaluation of Model.Hull differs from the implementation on case %d" % bad[0], len(idx) + len(idl)
    return None, len(idx) + len(idl)


def search_cases(ctx, rnd):
    rng = ctx.rng
    cases = []
    for _ in range(300):
        cases.append(_random_ijv(rng, rnd >= 2))
        lab = _label_image(rng, 12 if rnd < 2 else 40)
        present = [int(x) for x in np.unique(lab) if x > 0]
        cases.append({"fn": "labels", "img": lab.tolist(), "idx": _index_list(rng, present, False)})
    for pts in itertools.islice(_grid_sets(3, 3), 0, None, 1 + rnd):
        cases.append({"fn": "ijv", "ijv": [[i, j, 1] for i, j in pts], "idx": [1]})
    return cases


def shrink_candidates(case):
    idx = case["idx"]
    if idx is not None and len(idx) > 1:
        for k in range(len(idx)):
            yield dict(case, idx=idx[:k] + idx[k + 1:])
    if case["fn"] == "ijv":
        rows = case["ijv"]
        if len(rows) > 4:
            h = len(rows) // 2
            yield dict(case, ijv=rows[:h]); yield dict(case, ijv=rows[h:])
        if len(rows) > 1:
            for k in range(len(rows)):
                yield dict(case, ijv=rows[:k] + rows[k + 1:])
        for k, r in enumerate(rows[:12]):
            for c in (0, 1):
                if r[c] > 0:
                    m = [list(x) for x in rows]; m[k][c] -= 1
                    yield dict(case, ijv=m)
        return
    img = case["img"]
    H, W = len(img), len(img[0])
    if H > 1:
        yield dict(case, img=img[1:]); yield dict(case, img=img[:-1])
    if W > 1:
        yield dict(case, img=[r[1:] for r in img]); yield dict(case, img=[r[:-1] for r in img])
    n = 0
    for i in range(H):
        for j in range(W):
            if img[i][j] and n < 40:
                n += 1
                m = [list(r) for r in img]; m[i][j] = 0
                yield dict(case, img=m)


MANIFEST = {
    "level_text": (
        "Machine-checked proof (Coq 8.16) about an executable Gallina model of _convex_hull.convex_hull_ijv as "
        "written (lexsort, request walk, column envelopes with sentinels, the three EMIT loops with CONVEX and the "
        "in-place buffer guard, reorder through argsort(argsort)) and of cpmorphology.convex_hull (outline pre-filter): "
        "EMIT-loop invariants, vertices are pixels, the verified checker hull_ok/batch_ok is sound for the declarative "
        "hull specification and every vertex it accepts is an extreme point. The model is tied to the code by exact "
        "equality of (hull array, counts) on both entry points, every requested label in company and alone; the "
        "verified checker is evaluated on the implementation's own output."),
    "level_note": (
        "Trusted: Coq kernel + vm_compute; extraction (ExtrOcamlBasic only) and the S-expression driver; the Python "
        "harness; NumPy lexsort/argsort/argwhere as modelled; int32 arithmetic modelled as Z (|coordinates| < 2^15). "
        "The tie between model and code is differential, not a proof about Cython."),
    "technique": "Coq proof over executable model + verified checker + exact differential correspondence",
    "design_ref": "DESIGN.md section 7, C02",
}
