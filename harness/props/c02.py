"""C02 - convex hull returns exactly the extreme points of every label, in order."""
import itertools
import numpy as np

ID = "C02"
PROPS_FILE = "theories/Props/C02.v"
EXTRACT = ("theories/Extract/XC02.v", "c02",
           ["entry_hull_ijv", "entry_hull_ijv_w", "entry_hull_labels", "entry_hull_label", "entry_hull_ok", "entry_batch_ok"])
PYX = {"_convex_hull.pyx": ["CONVEX", "convex_hull_ijv"]}
RULE = ("corpus; every non-empty point set of a 3x3 and 3x4 grid (thorough: also 4x3, 2x5, 5x2) as one label through convex_hull_ijv, "
        "alone (slack 0, where the in-place guard can fire), followed by another label (whose first row an overrun would corrupt) and behind a filler label (slack > 0); random label images "
        "1x1..12x12 (thorough ..40x40: noise at several densities, blobs, lines, diagonals, U/C shapes, columns with "
        "gaps, objects touching all borders) through cpmorphology.convex_hull with index lists {None, all, permuted, "
        "with absent labels, subsets}; random ijv lists with non-dense columns, duplicate points, label 0, gaps in the "
        "label numbers; every requested label is also run ALONE through the same entry point and through the model; a "
        "few empty-ijv calls (both sides must reject). non-trivial = some requested label has >= 3 hull vertices and "
        "more pixels than vertices (pruning happened); distinct by hash of the case")
TRUSTED = ["modelled, not verified: np.lexsort / np.argsort (as sort by (v,j,i) / by value on repeat-free lists), "
           "np.argwhere row-major order, outline() as the 8-neighbour-or-border rule, int32 arithmetic as Z",
           "the per-label envelope arrays are modelled fresh per label (the code re-initialises exactly the columns "
           "start_j..end_j it reads)",
           "Python glue: block splitting for the label-alone comparison, the image -> (i,j,label) list of all "
           "positive pixels handed to the verified checker, indexes=None -> sorted distinct non-zero labels"]
ASSUMPTIONS = ["coordinates and labels are non-negative int32 values. The correspondence model is the kernel AS WRITTEN in C int "
               "arithmetic (cross product and sentinel reduced to the signed 32-bit range, Model/HullW.v); it equals the exact model "
               "when all coordinates are <= 46340 (C02_wrap_transfer, sharp: |cross| <= M*M < 2^31). Above that bound the kernel "
               "loses extreme points: known finding F22",
               "the requested index list is repeat-free (as the property states); with a repeated label the code "
               "reads labels_ijv[n, 2] one row past the buffer"]
CASE_TIMEOUT = 60


# ------------------------------------------------------------------------------ generators

def _shape(rng, kind, H, W):
    a = np.zeros((H, W), int)
    if kind == "hline":
        a[rng.randint(H), rng.randint(W):] = 1
    elif kind == "vline":
        a[rng.randint(H):, rng.randint(W)] = 1
    elif kind == "diag":
        for k in range(min(H, W)):
            a[k, k] = 1
    elif kind == "adiag":
        for k in range(min(H, W)):
            a[H - 1 - k, k] = 1
    elif kind == "U":
        a[:, 0] = 1; a[:, W - 1] = 1; a[H - 1, :] = 1
    elif kind == "C":
        a[0, :] = 1; a[H - 1, :] = 1; a[:, 0] = 1
    elif kind == "Crev":
        a[0, :] = 1; a[H - 1, :] = 1; a[:, W - 1] = 1
    elif kind == "gaps":
        a[:, ::2] = (rng.rand(H, (W + 1) // 2) < 0.6)
    elif kind == "full":
        a[:] = 1
    elif kind == "frame":
        a[0, :] = 1; a[-1, :] = 1; a[:, 0] = 1; a[:, -1] = 1
    elif kind == "single":
        a[rng.randint(H), rng.randint(W)] = 1
    elif kind == "blob":
        import scipy.ndimage as nd
        n = nd.gaussian_filter(rng.rand(H, W), 1.2)
        a = (n > np.median(n)).astype(int)
    return a


SHAPES = ["hline", "vline", "diag", "adiag", "U", "C", "Crev", "gaps", "full", "frame", "single", "blob"]


def _index_list(rng, present, allow_zero):
    present = sorted(set(int(x) for x in present))
    u = rng.rand()
    if u < 0.12:
        return None
    pool = list(present)
    hi = (max(present) if present else 0) + 3
    absent = [x for x in range(0 if allow_zero else 1, hi + 1) if x not in present]
    if u < 0.3:
        idx = list(pool)
    elif u < 0.5:
        idx = list(rng.permutation(pool)) if pool else []
    elif u < 0.8:
        k = rng.randint(0, len(absent) + 1)
        idx = pool + list(rng.permutation(absent)[:k])
        idx = list(rng.permutation(idx)) if idx else []
    else:
        idx = [x for x in pool if rng.rand() < 0.5]
        if absent and rng.rand() < 0.5:
            idx.append(absent[rng.randint(len(absent))])
        idx = list(rng.permutation(idx)) if idx else []
    return [int(x) for x in idx]


def _label_image(rng, maxdim):
    dims = [1, 1, 2, 2, 3, 3, 4, 5, 6, 7, 8, 9, 10, 12] + ([16, 20, 25, 32, 40] if maxdim > 12 else [])
    H = int(rng.choice(dims)); W = int(rng.choice(dims))
    u = rng.rand()
    if u < 0.35:
        nl = int(rng.choice([1, 2, 3, 4, 6]))
        dens = rng.choice([0.15, 0.3, 0.5, 0.7, 0.9, 1.0])
        lab = rng.randint(1, nl + 1, (H, W)) * (rng.rand(H, W) < dens)
    elif u < 0.6:
        import scipy.ndimage as nd
        n = nd.gaussian_filter(rng.rand(H, W), rng.choice([0.7, 1.2, 2.0]))
        lab, cnt = nd.label(n > np.percentile(n, rng.choice([40, 60, 75])), np.ones((3, 3)) if rng.rand() < 0.5 else None)
        if cnt and rng.rand() < 0.5:
            perm = np.concatenate([[0], rng.permutation(cnt) + 1 + rng.randint(0, 3)])
            lab = perm[lab]
    else:
        lab = np.zeros((H, W), int)
        for l in range(1, int(rng.choice([1, 1, 2, 3])) + 1):
            s = _shape(rng, SHAPES[rng.randint(len(SHAPES))], H, W)
            lab[s > 0] = l * int(rng.choice([1, 1, 2]))
    return np.asarray(lab, int)


def _random_ijv(rng, big):
    nl = int(rng.choice([1, 1, 2, 3, 5]))
    labels = sorted(set(int(x) for x in rng.randint(0, 9, nl)))
    H = int(rng.choice([1, 2, 3, 4, 6, 10] + ([30] if big else [])))
    W = int(rng.choice([1, 2, 3, 4, 6, 10] + ([30] if big else [])))
    stride = int(rng.choice([1, 1, 2, 3, 7]))
    joff = int(rng.choice([0, 0, 1, 5]))
    rows = []
    for l in labels:
        n = int(rng.choice([1, 2, 3, 4, 6, 10, 20] + ([80] if big else [])))
        for _ in range(n):
            rows.append([int(rng.randint(H)), joff + stride * int(rng.randint(W)), l])
    if rng.rand() < 0.7:           # drop duplicate points (most callers have none)
        rows = [list(t) for t in sorted(set(map(tuple, rows)))]
    rows = [rows[k] for k in rng.permutation(len(rows))]
    idx = _index_list(rng, labels, True)
    if idx is None:
        idx = labels
    return {"fn": "ijv", "ijv": rows, "idx": idx}


IMG_DTYPES = ["bool", "uint8", "uint16", "int16", "int32", "int64", "uint32", "int8", "uint64"]
IJV_DTYPES = ["int64", "int32", "int16", "uint8", "uint16", "uint32", "uint64", "int8"]
LAYOUTS = ["C", "F", "view", "rev", "rows"]
IDX_KINDS = ["int64", "int32", "list", "tuple", "uint16", "uint32", "intp", "col2d"]


def _decorate(rng, case):
    """Give the call a dtype, a memory layout and an index-list type the entry point accepts; label
    numbers are spread out as far as the dtype allows (sparse numbering up to 60000)."""
    if case["fn"] == "labels":
        a = np.asarray(case["img"], int).reshape(len(case["img"]), -1)
        dt = IMG_DTYPES[rng.randint(len(IMG_DTYPES))]
        if dt == "bool":
            a = (a > 0).astype(int)
            idx = case["idx"]
            case["idx"] = None if idx is None else sorted(set(min(x, 2) for x in idx))
        else:
            hi = min(int(np.iinfo(np.dtype(dt)).max), 60000)
            labs = [int(x) for x in np.unique(a) if x > 0]
            req = sorted(set(labs) | set(x for x in (case["idx"] or []) if x > 0))
            if req and rng.rand() < 0.6 and hi >= len(req):
                new = sorted(int(x) for x in rng.choice(np.arange(1, hi + 1), len(req), replace=False))
                if rng.rand() < 0.5:
                    new = [new[k] for k in rng.permutation(len(new))]      # not order preserving
                mp = dict(zip(req, new))
                a = np.vectorize(lambda x: mp.get(int(x), 0))(a) if a.size else a
                if case["idx"] is not None:
                    case["idx"] = [mp.get(x, x) if x > 0 else x for x in case["idx"]]
                    if len(set(case["idx"])) != len(case["idx"]):
                        case["idx"] = sorted(set(case["idx"]))
            if a.size and a.max() > np.iinfo(np.dtype(dt)).max:
                dt = "int64"
            if case["idx"] is not None:
                case["idx"] = [x for x in case["idx"] if x <= np.iinfo(np.int32).max]
        case["img"] = np.asarray(a, int).tolist()
        case["dt"] = dt
        case["lay"] = LAYOUTS[rng.randint(len(LAYOUTS))]
    else:
        m = max([max(r) for r in case["ijv"]] + [0])
        ok = [d for d in IJV_DTYPES if m <= np.iinfo(np.dtype(d)).max]
        case["dt"] = ok[rng.randint(len(ok))]
        case["lay"] = ["C", "F", "rows", "rev"][rng.randint(4)]
    iks = IDX_KINDS if not case["idx"] or max(case["idx"]) < 65536 else ["int64", "int32", "list", "tuple", "uint32", "intp", "col2d"]
    case["ik"] = iks[rng.randint(len(iks))]
    return case


def _pair_layout(rng, maxdim):
    """Several labels placed relative to each other: one label's last row is the next label's first row,
    labels sharing columns, interleaved labels, images fully tiled with labels (no background)."""
    H = int(rng.choice([2, 3, 4, 5, 6, 8] + ([12, 20] if maxdim > 12 else [])))
    W = int(rng.choice([2, 3, 4, 5, 6, 8] + ([12, 20] if maxdim > 12 else [])))
    kind = ["row-touch", "stacked", "interleave-cols", "interleave-rows", "checker", "tiles", "stripes-diag", "nested"][rng.randint(8)]
    a = np.zeros((H, W), int)
    if kind == "row-touch":                 # label k ends in the row where label k+1 starts, other columns
        nl = int(rng.choice([2, 3, 4])); r = 0
        for l in range(1, nl + 1):
            h = int(rng.randint(1, max(2, H // nl + 1)))
            c0 = int(rng.randint(0, W)); c1 = int(rng.randint(c0, W))
            a[r:r + h + 1, c0:c1 + 1] = np.where(a[r:r + h + 1, c0:c1 + 1] == 0, l, a[r:r + h + 1, c0:c1 + 1])
            r = min(H - 1, r + h)
            if rng.rand() < 0.5:
                a[r, :] = np.where(a[r, :] == 0, (l + 1 if l < nl else l) * (rng.rand(W) < 0.5), a[r, :])
    elif kind == "stacked":                 # same columns, one above the other
        cut = sorted(set(int(x) for x in rng.randint(1, H, size=int(rng.choice([1, 2, 3])))))
        l = 1; prev = 0
        for c in cut + [H]:
            a[prev:c, :] = l; l += 1; prev = c
        a = a * (rng.rand(H, W) < rng.choice([0.6, 1.0]))
    elif kind == "interleave-cols":
        nl = int(rng.choice([2, 3])); a[:] = 1 + (np.arange(W)[None, :] % nl)
        a = a * (rng.rand(H, W) < rng.choice([0.5, 0.8, 1.0]))
    elif kind == "interleave-rows":
        nl = int(rng.choice([2, 3])); a[:] = 1 + (np.arange(H)[:, None] % nl)
        a = a * (rng.rand(H, W) < rng.choice([0.5, 0.8, 1.0]))
    elif kind == "checker":
        nl = int(rng.choice([2, 3, 4])); a[:] = 1 + ((np.arange(H)[:, None] + np.arange(W)[None, :]) % nl)
    elif kind == "tiles":                   # Voronoi tiling: every pixel labelled
        nl = int(rng.choice([1, 2, 3, 5, 8]))
        sy = rng.randint(0, H, nl); sx = rng.randint(0, W, nl)
        d = (np.arange(H)[:, None, None] - sy) ** 2 + (np.arange(W)[None, :, None] - sx) ** 2
        a = 1 + np.argmin(d, axis=2)
    elif kind == "stripes-diag":
        nl = int(rng.choice([2, 3])); a[:] = 1 + (((np.arange(H)[:, None] + 2 * np.arange(W)[None, :]) // 2) % nl)
    else:                                   # nested frames: label 2 inside label 1 inside label 3
        a[:] = 3
        if H > 2 and W > 2:
            a[1:-1, 1:-1] = 1
        if H > 4 and W > 4:
            a[2:-2, 2:-2] = 2
    present = [int(x) for x in np.unique(a) if x > 0]
    return {"fn": "labels", "img": a.tolist(), "idx": _index_list(rng, present, False)}, kind


def _pair_ijv(rng):
    """ijv lists where consecutive labels share rows/columns or one ends where the next starts."""
    nl = int(rng.choice([2, 3, 4]))
    rows = []; r0 = 0
    stride = int(rng.choice([1, 1, 2, 5]))
    for l in range(nl):
        v = 1 + l * int(rng.choice([1, 1, 3]))
        h = int(rng.randint(0, 4)); w = int(rng.randint(1, 6))
        c0 = int(rng.randint(0, 4)) if rng.rand() < 0.5 else 0
        for i in range(r0, r0 + h + 1):
            for j in range(c0, c0 + w):
                if rng.rand() < 0.7 or (i in (r0, r0 + h) and j in (c0, c0 + w - 1)):
                    rows.append([i, j * stride, v])
        r0 = r0 + h if rng.rand() < 0.7 else int(rng.randint(0, r0 + h + 1))
    rows = [rows[k] for k in rng.permutation(len(rows))]
    labels = sorted(set(r[2] for r in rows))
    idx = _index_list(rng, labels, True)
    return {"fn": "ijv", "ijv": rows, "idx": labels if idx is None else idx}


def _big_ijv(rng):
    BIG = [46340, 46341, 46342, 50000, 60000, 65536, 100000, 2 ** 24, 2 ** 30, 2 ** 31 - 2, 2 ** 31 - 2, 2 ** 31 - 1]
    rows = []
    nl = int(rng.choice([1, 1, 2, 3]))
    labels = sorted(set(int(x) for x in rng.randint(1, 9, nl)))
    for l in labels:
        big = rng.rand() < 0.75
        hi_i = int(rng.choice(BIG)) if big else int(rng.choice([3, 10, 100]))
        wj = int(rng.choice([1, 2, 3, 4, 6, 12, 60] + ([700, 3000] if rng.rand() < 0.1 else [])))
        n = int(rng.choice([2, 3, 3, 4, 5, 8, 15]))
        shape = rng.choice(["random", "corners", "vee", "line", "nearmax"])
        for k in range(n):
            j = int(rng.randint(0, wj + 1))
            if shape == "corners":
                i = int(rng.choice([0, hi_i, hi_i // 2, hi_i - 1]))
            elif shape == "vee":
                i = hi_i - int(abs(j - wj / 2.0) * (hi_i // max(1, wj))) if rng.rand() < 0.7 else int(rng.randint(0, hi_i + 1))
            elif shape == "line":
                i = (hi_i // max(1, wj)) * j
            elif shape == "nearmax":
                i = hi_i - int(rng.randint(0, 3))
            else:
                i = int(rng.randint(0, hi_i + 1))
            rows.append([max(0, min(int(i), 2 ** 31 - 1)), j, l])
    if rng.rand() < 0.8:
        rows = [list(x) for x in sorted(set(map(tuple, rows)))]
    rows = [rows[k] for k in rng.permutation(len(rows))]
    idx = _index_list(rng, labels, True)
    return {"fn": "ijv", "ijv": rows, "idx": labels if idx is None else idx}


def _grid_sets(H, W):
    cells = [(i, j) for j in range(W) for i in range(H)]
    for bits in range(1, 1 << (H * W)):
        yield [cells[k] for k in range(H * W) if (bits >> k) & 1]


def generate(ctx):
    rng = ctx.rng
    cases = []
    # exhaustive small grids, one label: alone (slack 0) and behind a filler label whose own pixels leave slack
    grids = [(3, 3), (3, 4)] if ctx.quick() else [(3, 3), (3, 4), (4, 3), (2, 5), (5, 2)]
    for H, W in grids:
        for pts in _grid_sets(H, W):
            ijv = [[i, j, 2] for i, j in pts]
            cases.append({"fn": "ijv", "ijv": ijv, "idx": [2]}); ctx.count("grid-alone")
            # followed by another label: an output overrunning the label's own rows would corrupt its first pixel
            cases.append({"fn": "ijv", "ijv": ijv + [[1, 0, 3], [0, 1, 3], [2, 2, 3]], "idx": [3, 2] if len(pts) % 2 else [2, 3]})
            ctx.count("grid-followed")
            if len(pts) % 3 == 0 or len(pts) <= 2:
                k = 1 + len(pts) % 4
                fill = [[0, c, 1] for c in range(k + 1)] + [[1, 0, 1]]
                cases.append({"fn": "ijv", "ijv": fill + ijv, "idx": [2, 1] if len(pts) % 2 else [1, 2]})
                ctx.count("grid-company")
    # random subsets of somewhat larger grids (slack 0)
    for _ in range(ctx.n(1000, 8000)):
        H, W = [(3, 4), (4, 4), (5, 3), (3, 6), (6, 6)][rng.randint(5)]
        m = rng.rand(H, W) < rng.choice([0.3, 0.5, 0.8])
        pts = [[int(i), int(j), 1] for j in range(W) for i in range(H) if m[i, j]]
        if pts:
            cases.append({"fn": "ijv", "ijv": pts, "idx": [1]}); ctx.count("grid-random")
    # label images through cpmorphology.convex_hull
    for _ in range(ctx.n(1500, 10000)):
        lab = _label_image(rng, ctx.n(12, 40))
        present = [int(x) for x in np.unique(lab) if x > 0]
        cases.append({"fn": "labels", "img": lab.tolist(), "idx": _index_list(rng, present, False)})
        ctx.count("labels")
    # single shapes, every kind at a few sizes
    for kind in SHAPES:
        for H, W in [(1, 1), (1, 5), (5, 1), (2, 2), (3, 3), (4, 7), (7, 4), (9, 9)]:
            s = _shape(rng, kind, H, W)
            cases.append({"fn": "labels", "img": (s * 3).tolist(), "idx": [3]}); ctx.count("shape")
            ij = np.argwhere(s > 0)
            if len(ij):
                cases.append({"fn": "ijv", "ijv": [[int(a), int(b) * 2 + 1, 4] for a, b in ij], "idx": [4, 1]})
                ctx.count("shape-ijv-sparse-columns")
    # ijv lists
    for _ in range(ctx.n(1500, 10000)):
        cases.append(_random_ijv(rng, not ctx.quick())); ctx.count("ijv")
    # several labels placed against each other (shared rows / columns, interleaved, fully tiled images)
    for _ in range(ctx.n(1200, 8000)):
        c, kind = _pair_layout(rng, ctx.n(12, 40))
        cases.append(c); ctx.count("pair-" + kind)
    for _ in range(ctx.n(600, 4000)):
        cases.append(_pair_ijv(rng)); ctx.count("pair-ijv")
    # dtype / memory layout / index-list type: decorate a copy of a share of the cases above and fresh ones
    bl = [c for c in cases if c["fn"] == "labels"]
    bi = [c for c in cases if c["fn"] == "ijv" and len(c["ijv"]) > 0]
    picked = [bl[k] for k in rng.permutation(len(bl))[:ctx.n(1800, 9000)]] + \
             [bi[k] for k in rng.permutation(len(bi))[:ctx.n(900, 4000)]]
    for b in picked:
        c = _decorate(rng, {kk: (list(v) if isinstance(v, list) else v) for kk, v in b.items()})
        cases.append(c); ctx.count("dtype-" + c["fn"] + "-" + c["dt"]); ctx.count("layout-" + c["lay"]); ctx.count("idx-" + c["ik"])
    # label images with negative pixel values: background-like for explicit non-negative index lists; with
    # indexes=None or a negative index the kernel's assertion rejects the call (when it is reached)
    for _ in range(ctx.n(200, 1500)):
        lab = _label_image(rng, 12)
        lab = np.where(rng.rand(*lab.shape) < 0.2, -rng.randint(1, 3, lab.shape), lab)
        present = [int(x) for x in np.unique(lab) if x > 0]
        idx = _index_list(rng, present, False)
        if idx is not None and rng.rand() < 0.15:
            idx = idx + [-1]
        cases.append({"fn": "labels", "img": lab.tolist(), "idx": idx}); ctx.count("labels-negative-pixels")
    for _ in range(ctx.n(60, 400)):
        c = _random_ijv(rng, False)
        u = rng.rand()
        if u < 0.4 and c["ijv"]:
            c["ijv"][rng.randint(len(c["ijv"]))][rng.randint(3)] = -1
        elif u < 0.8:
            c["idx"] = c["idx"] + [-2]
        else:
            c["ijv"] = []
        cases.append(c); ctx.count("malformed-ijv")
    # coordinates beyond the int32 range of the kernel's cross product (finding F22): tall/wide point lists, mixed with
    # small labels in the same call; rows up to 2^31-1 (columns only moderately large: the kernel allocates max_j+1 ints)
    for _ in range(ctx.n(400, 3000)):
        cases.append(_big_ijv(rng)); ctx.count("ijv-big-coordinates")
    # malformed: empty ijv is rejected by both sides
    cases.append({"fn": "ijv", "ijv": [], "idx": [1]}); ctx.count("malformed-empty-ijv")
    cases.append({"fn": "ijv", "ijv": [], "idx": []}); ctx.count("malformed-empty-ijv")
    return cases


# ------------------------------------------------------------------------------ implementation

def _res(h, c):
    h = np.asarray(h); c = np.asarray(c)
    return {"rows": h.reshape(-1, h.shape[1]).tolist() if h.ndim == 2 else h.tolist(),
            "counts": [int(x) for x in c.tolist()], "ncol": int(h.shape[1]) if h.ndim == 2 else -1}


def _idx_of(case):
    if case["idx"] is not None:
        return list(case["idx"])
    a = np.asarray(case["img"], int)
    return sorted(int(x) for x in np.unique(a) if x != 0)


def _inherit(case, sub):
    for k in ("dt", "lay", "ik"):
        if k in case:
            sub[k] = case[k]
    return sub


def _alone_cases(case):
    """The same entry point applied to each requested label's own pixels only (None if it has none)."""
    res = []
    if case["fn"] == "ijv":
        for l in _idx_of(case):
            own = [r for r in case["ijv"] if r[2] == l]
            res.append(_inherit(case, {"fn": "ijv", "ijv": own, "idx": [l]}) if own else None)
    else:
        a = np.asarray(case["img"], int).reshape(len(case["img"]), -1)
        for l in _idx_of(case):
            res.append(_inherit(case, {"fn": "labels", "img": ((a == l) * l).tolist(), "idx": [l]})
                       if l > 0 and (a == l).any() else None)
    return res


def _layout(a, lay):
    """The same values in another memory layout (all are views/arrays NumPy callers really pass)."""
    if lay in (None, "C"):
        return np.ascontiguousarray(a)
    if lay == "F":
        return np.asfortranarray(a)
    if lay == "view":                      # every second column of a wider array
        big = np.zeros((a.shape[0], 2 * a.shape[1] + 1), a.dtype)
        big[:, 1::2] = a
        return big[:, 1::2]
    if lay == "rev":                       # negative strides
        return np.ascontiguousarray(a[::-1, ::-1])[::-1, ::-1]
    if lay == "rows":                      # every third row of a taller array
        big = np.zeros((3 * a.shape[0], a.shape[1]), a.dtype)
        big[::3] = a
        return big[::3]
    raise ValueError("layout " + str(lay))


def _indexes(case):
    idx, ik = case["idx"], case.get("ik")
    if idx is None:
        return None
    if ik == "list":
        return [int(x) for x in idx]
    if ik == "tuple":
        return tuple(int(x) for x in idx)
    if ik == "col2d":                      # the kernel ravel()s the index array
        return np.array(idx, int).reshape(-1, 1)
    return np.array(idx, {None: int, "int64": np.int64, "int32": np.int32, "uint16": np.uint16,
                          "uint32": np.uint32, "intp": np.intp}[ik])


def _call(case):
    from centrosome import cpmorphology as M
    dt = np.dtype(case.get("dt") or "int64")
    if case["fn"] == "ijv":
        arr = _layout(np.array(case["ijv"], int).reshape(-1, 3).astype(dt), case.get("lay"))
        before = arr.copy()
        h, c = M.convex_hull_ijv(arr, _indexes(case))
        r = _res(h, c)
        if len(case["ijv"]) == 0:
            r["empty_ijv"] = True
        r["input_kept"] = bool(np.array_equal(arr, before))
        return r
    a = np.array(case["img"], int).reshape(len(case["img"]), -1)
    if a.size and (a.min() < np.iinfo(dt).min if dt != np.bool_ else a.min() < 0) or \
       a.size and (a.max() > (1 if dt == np.bool_ else np.iinfo(dt).max)):
        raise RuntimeError("generator bug: label does not fit dtype %s" % dt)
    a = _layout(a.astype(dt), case.get("lay"))
    before = a.copy()
    h, c = M.convex_hull(a, _indexes(case))
    r = _res(h, c)
    r["input_kept"] = bool(np.array_equal(a, before))
    return r


def impl(case):
    out = _call(case)
    alone = []
    for sub in _alone_cases(case):
        alone.append(None if sub is None else _call(sub))
    out["alone"] = alone
    return out


def _bad(o):
    return (not isinstance(o, dict)) or "exc" in o or "crash" in o


# ------------------------------------------------------------------------------ model

WRAP_BOUND = 46340


def _big(case):
    return case["fn"] == "ijv" and any(max(r[0], r[1]) > WRAP_BOUND for r in case["ijv"])


def _marg(case):
    if case["fn"] == "ijv":
        return "entry_hull_ijv_w", [case["ijv"], case["idx"]]
    return "entry_hull_labels", [case["img"], -1 if case["idx"] is None else case["idx"]]


def model(ctx, cases, outs):
    jobs = {"entry_hull_ijv_w": [], "entry_hull_labels": []}
    where = []
    for k, c in enumerate(cases):
        e, a = _marg(c)
        jobs[e].append(a); where.append((e, k, None))
        for n, sub in enumerate(_alone_cases(c)):
            if sub is not None:
                e, a = _marg(sub)
                jobs[e].append(a); where.append((e, k, n))
    res = {e: ctx.run_model(e, a) if a else [] for e, a in jobs.items()}
    # inside the bound the as-written and the exact model must agree (proved per label: C02_wrap_transfer); sample it
    small = [k for k, c in enumerate(cases) if c["fn"] == "ijv" and not _big(c)][::7]
    ex = ctx.run_model("entry_hull_ijv", [[cases[k]["ijv"], cases[k]["idx"]] for k in small]) if small else []
    exact_of = dict(zip(small, ex))
    pos = {e: 0 for e in jobs}
    mouts = [{"main": None, "alone": {}} for _ in cases]
    for e, k, n in where:
        r = res[e][pos[e]]; pos[e] += 1
        if n is None:
            mouts[k]["main"] = r
            if k in exact_of and exact_of[k] != r:
                mouts[k]["main"] = {"model_error": "as-written and exact model differ inside the bound: %s vs %s" % (str(r)[:120], str(exact_of[k])[:120])}
        else:
            mouts[k]["alone"][n] = r
    return mouts


def _cmp(o, m, what, idx=None, big=False):
    if isinstance(m, dict):
        return "%s: model failed: %s" % (what, m)
    if m == -1:
        if isinstance(o, dict) and o.get("rows") == [] and "counts" in o and not any(o["counts"]) and o.get("empty_ijv"):
            return None
        return None if _bad(o) and "exc" in o else "%s: model rejects the input, implementation returned %s" % (what, str(o)[:200])
    if _bad(o):
        return "%s: implementation raised/crashed: %s" % (what, str(o)[:300])
    rows, counts, over, ncol = m[:4]
    if len(m) > 4 and idx is not None and m[4] != idx:
        return "%s: model's index list %s differs from the harness' %s" % (what, m[4], idx)
    if over and not big:
        return "%s: model predicts that the in-place output overruns the label's own input rows" % what
    if rows != o["rows"] or counts != o["counts"] or ncol != o["ncol"]:
        return "%s: impl rows %s counts %s ncol %s / model rows %s counts %s ncol %s" % (
            what, str(o["rows"])[:160], o["counts"], o["ncol"], str(rows)[:160], counts, ncol)
    return None


def compare(case, out, m):
    d = _cmp(out, m["main"], "in company", _idx_of(case) if case["fn"] == "labels" else None, _big(case))
    if d:
        return d
    if _bad(out):
        return None
    for n, a in enumerate(out["alone"]):
        if a is None:
            continue
        d = _cmp(a, m["alone"].get(n), "label #%d alone" % n, None, _big(case))
        if d:
            return d
    return None


# ------------------------------------------------------------------------------ the property

def _all_ijv(case):
    if case["fn"] == "ijv":
        return case["ijv"]
    a = np.asarray(case["img"], int).reshape(len(case["img"]), -1)
    return [[int(i), int(j), int(a[i, j])] for i, j in np.argwhere(a > 0)]


def _empty_ok(case, o):
    """Empty point list with non-negative requests: the limiting case of 'requested labels without pixels'. As is, the kernel
    raises ValueError (max of an empty array); the repair proposed in reports/repairs/C02-empty-ijv.diff returns zero counts.
    Both are accepted; anything else (vertices, wrong count vector) is not."""
    return (case["fn"] == "ijv" and len(case["ijv"]) == 0 and all(x >= 0 for x in case["idx"]) and isinstance(o, dict)
            and "exc" not in o and "crash" not in o and o.get("rows") == [] and o.get("counts") == [0] * len(case["idx"]))


def _malformed(case):
    """Calls the entry point rejects (empty ijv, negative entries; for label images only when the kernel is reached)."""
    if case["fn"] == "ijv":
        return len(case["ijv"]) == 0 or any(x < 0 for r in case["ijv"] for x in r) or any(x < 0 for x in case["idx"])
    idx = _idx_of(case)
    return len(idx) > 0 and any(v > 0 for r in case["img"] for v in r) and any(x < 0 for x in idx)


def check(ctx, cases, outs):
    res = [None] * len(cases)
    todo = []
    for k, (c, o) in enumerate(zip(cases, outs)):
        if _malformed(c):
            if _empty_ok(c, o):
                continue
            if not (isinstance(o, dict) and "exc" in o):
                res[k] = "malformed call (empty point list / negative entry) was not rejected: %s" % (str(o)[:200],)
            continue
        if _bad(o):
            res[k] = "implementation raised/crashed on a valid input: %s" % (str(o)[:300],)
            continue
        if o.get("input_kept") is False:
            res[k] = "the caller's ijv array was modified"
            continue
        todo.append(k)
    args = [[_all_ijv(cases[k]), _idx_of(cases[k]), outs[k]["rows"], outs[k]["counts"]] for k in todo]
    for k, r in zip(todo, ctx.run_model("entry_batch_ok", args) if args else []):
        o = outs[k]
        if r != 1:
            res[k] = CHECK_FAIL
            continue
        # independence: each label alone gives exactly its block
        off = 0
        for n, (l, cnt) in enumerate(zip(_idx_of(cases[k]), o["counts"])):
            blk = o["rows"][off:off + cnt]; off += cnt
            a = o["alone"][n]
            if a is None:
                continue
            if _bad(a):
                res[k] = "label %d alone: implementation raised/crashed: %s" % (l, str(a)[:200]); break
            if a["rows"] != blk or a["counts"] != [cnt]:
                res[k] = "hull of label %d depends on other labels' pixels: alone %s, in company %s" % (
                    l, str(a["rows"])[:200], str(blk)[:200])
                break
    return res


CHECK_FAIL = ("some requested label's block is not the hull polygon of its pixels, in request order "
              "(Spec.HullSpec.batch_ok false)")


def attribute(ctx, case, out, clause):
    """F22 iff the as-written (int32-wrapped) model reproduces the implementation's output exactly AND the exact model
    gives a different answer on this input; anything else stays a violation."""
    if case.get("fn") != "ijv" or _bad(out) or _malformed(case) or not _big(case):
        return None
    if not (clause == CHECK_FAIL or clause.startswith("hull of label")):
        return None
    w = ctx.run_model("entry_hull_ijv_w", [[case["ijv"], case["idx"]]])[0]
    e = ctx.run_model("entry_hull_ijv", [[case["ijv"], case["idx"]]])[0]
    if not isinstance(w, list) or not isinstance(e, list) or len(w) < 4:
        return None
    same_as_written = (w[0] == out["rows"] and w[1] == out["counts"])
    exact_differs = (e[0] != out["rows"] or e[1] != out["counts"])
    exact_ok = ctx.run_model("entry_batch_ok", [[case["ijv"], case["idx"], e[0], e[1]]])[0] == 1
    return "F22" if (same_as_written and exact_differs and exact_ok) else None


def reproduce_finding(ctx, finding):
    """The recorded witness (the 46341 triangle) must still fail the verified checker on the implementation's output; the
    model attribution is done on the small-column witness of the same defect (the models walk every column one by one, a
    46342-column witness costs minutes)."""
    case = finding["witness"]
    out = ctx.run_impl([case])[0]
    v = check(ctx, [case], [out])[0]
    if not v or _bad(out):
        return False
    small = finding.get("witness_small_columns", case)
    out2 = ctx.run_impl([small])[0]
    v2 = check(ctx, [small], [out2])[0]
    return bool(v2) and attribute(ctx, small, out2, v2) == finding["id"]


def nontrivial(case, out):
    if _bad(out) or _malformed(case):
        return False
    ijv = _all_ijv(case)
    for l, cnt in zip(_idx_of(case), out["counts"]):
        if cnt >= 3 and len(set((r[0], r[1]) for r in ijv if r[2] == l)) > cnt:
            return True
    return False


def kernel_crosscheck(ctx, cases, outs):
    idx = [k for k, c in enumerate(cases) if c["fn"] == "ijv" and not _bad(outs[k]) and 3 <= len(c["ijv"]) <= 14]
    idx = idx[::max(1, len(idx) // 40)][:40]
    args = [[cases[k]["ijv"], cases[k]["idx"]] for k in idx]
    exp = [[outs[k]["rows"], outs[k]["counts"], 0, 3] for k in idx]
    r = ctx.coq_eval_eq("Model.HullW", "entry_hull_ijv_w", args, exp, tag="ijv")
    bad = [k for k, b in zip(idx, r) if b is not True]
    idl = [k for k, c in enumerate(cases) if c["fn"] == "labels" and not _bad(outs[k])
           and len(c["img"]) * len(c["img"][0]) <= 30][:20]
    args = [[cases[k]["img"], -1 if cases[k]["idx"] is None else cases[k]["idx"]] for k in idl]
    exp = [[outs[k]["rows"], outs[k]["counts"], 0, outs[k]["ncol"], _idx_of(cases[k])] for k in idl]
    r = ctx.coq_eval_eq("Model.Hull", "entry_hull_labels", args, exp, tag="lab") if idl else []
    bad += [k for k, b in zip(idl, r) if b is not True]
    if bad:
        return "vm_compute evaluation of Model.Hull differs from the implementation on case %d" % bad[0], len(idx) + len(idl)
    return None, len(idx) + len(idl)


def search_cases(ctx, rnd):
    rng = ctx.rng
    cases = []
    for _ in range(300):
        cases.append(_random_ijv(rng, rnd >= 2))
        lab = _label_image(rng, 12 if rnd < 2 else 40)
        present = [int(x) for x in np.unique(lab) if x > 0]
        cases.append({"fn": "labels", "img": lab.tolist(), "idx": _index_list(rng, present, False)})
    for pts in itertools.islice(_grid_sets(3, 3), 0, None, 1 + rnd):
        cases.append({"fn": "ijv", "ijv": [[i, j, 1] for i, j in pts], "idx": [1]})
    return cases


def shrink_candidates(case):
    idx = case["idx"]
    if idx is not None and len(idx) > 1:
        for k in range(len(idx)):
            yield dict(case, idx=idx[:k] + idx[k + 1:])
    if case["fn"] == "ijv":
        rows = case["ijv"]
        if len(rows) > 4:
            h = len(rows) // 2
            yield dict(case, ijv=rows[:h]); yield dict(case, ijv=rows[h:])
        if len(rows) > 1:
            for k in range(len(rows)):
                yield dict(case, ijv=rows[:k] + rows[k + 1:])
        for k, r in enumerate(rows[:12]):
            for c in (0, 1):
                if r[c] > 0:
                    m = [list(x) for x in rows]; m[k][c] -= 1
                    yield dict(case, ijv=m)
        return
    img = case["img"]
    H, W = len(img), len(img[0])
    if H > 1:
        yield dict(case, img=img[1:]); yield dict(case, img=img[:-1])
    if W > 1:
        yield dict(case, img=[r[1:] for r in img]); yield dict(case, img=[r[:-1] for r in img])
    n = 0
    for i in range(H):
        for j in range(W):
            if img[i][j] and n < 40:
                n += 1
                m = [list(r) for r in img]; m[i][j] = 0
                yield dict(case, img=m)


MANIFEST = {
    "level_text": (
        "Machine-checked proof (Coq 8.16, 46 theorems, no axioms) about an executable Gallina model of "
        "_convex_hull.convex_hull_ijv as written and of cpmorphology.convex_hull: for every well-formed label the per-label "
        "kernel returns a polygon meeting the full specification (vertices are pixels, no repeated vertex, every cyclic "
        "triple strictly convex in one sense, every pixel inside or on: C02_hull_label_correct), its vertices are exactly the "
        "extreme points and the list is determined up to rotation (C02_hull_exactly_extreme, C02_hull_label_unique), the "
        "in-place guard never changes the result and the output never outgrows the label's rows (C02_guard_irrelevant, "
        "C02_hull_no_overflow), and the batch function / the image entry point return these polygons in request order with "
        "count 0 for absent labels, for every input and every repeat-free index list (C02_convex_hull_ijv_correct, "
        "C02_convex_hull_correct). These theorems are about exact integer arithmetic; the kernel computes the turn test in C "
        "int, which is proved equivalent for coordinates <= 46340 (C02_wrap_transfer, sharp) and refuted above "
        "(C02_convex_wrap_refuted = known finding F22). The model as written (int32 wrap included) is tied to the code by "
        "exact equality of (hull array, counts) on both entry points, every requested label in company and alone, all dtypes, "
        "layouts, index-list types and coordinates up to 2^31-1; the verified checker is evaluated on every output."),
    "level_note": (
        "Known finding F22 (C int overflow of the cross product above coordinate 46340; .pyx defect, not rebuildable here): "
        "reported as KNOWN-FINDING, attributed only when the as-written int32 model reproduces the output and the exact model "
        "differs. Trusted: Coq kernel + vm_compute; extraction (ExtrOcamlBasic only) and the S-expression driver; the Python "
        "harness; NumPy lexsort/argsort/argwhere as modelled; C int arithmetic as wrap32 (binary built with -fwrapv). The "
        "batch-level equality of the as-written and the exact model inside the bound is tested on every run, proved per label. "
        "The tie between model and code is differential, not a proof about Cython."),
    "technique": "Coq proof over executable model + verified checker + exact differential correspondence + model attribution of a known finding",
    "design_ref": "DESIGN.md section 7, C02",
}
