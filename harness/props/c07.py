"""C07 - median filter is the exact masked octagonal percentile."""
import glob
import json
import os
import re
from concurrent.futures import ThreadPoolExecutor

import numpy as np

ID = "C07"
PROPS_FILE = "theories/Props/C07.v"
EXTRACT = ("theories/Extract/XC07.v", "c07",
           ["entry_kernel", "entry_wrapper", "entry_geom", "entry_check", "entry_spec", "entry_corr",
            "entry_wcorr", "entry_merge", "entry_alloc"])
PYX = {"_filter.pyx": ["HistogramPiece", "Histogram", "PixelCount", "SCoord", "Histograms", "allocate_histograms",
                       "set_stride", "tl_br_colidx", "tr_bl_colidx", "leading_edge_colidx", "trailing_edge_colidx",
                       "add16", "sub16", "accumulate_coarse_histogram", "deaccumulate_coarse_histogram",
                       "accumulate_fine_histogram", "deaccumulate_fine_histogram", "accumulate", "update_fine",
                       "update_histogram", "update_current_location", "find_median", "c_median_filter",
                       "median_filter"]}
RULE = ("kernel cases: _filter.median_filter on uint8 images 1x1..14x14 (thorough ..64x64, incl. images smaller than "
        "the window, 1xN, Nx1), radius 1..8 (thorough ..30), percent in {0,1,25,50,75,99,100} plus random 0..100, "
        "masks empty/sparse/half/dense/full/blocks/one-pixel, data constant / few levels (ties) / noise / ramps / "
        "0-and-255 extremes; wrapper cases: filter.median_filter on uint8, int64 0..255 (pass-through), int32 wide, "
        "negative, float64/float32 dyadic data, mask None / bool, incl. > 255 distinct values (order-preserving "
        "merge); non-trivial = some window is non-empty, the image has >= 2 distinct unmasked values and >= 4 "
        "pixels; very wide / very tall class: 1xN, Nx1, 2xN with N around 1 573 243 on both sides of the 32-bit "
        "allocation threshold (fork-isolated; periodic contents, output checked on three crops against model and spec "
        "and for periodicity in between; 3 cases quick, 11 thorough); distinct by hash of the case")
TRUSTED = [
    "modelled, not verified: the circular-buffer bookkeeping of the sliding histograms (the sliding invariant is "
    "proved only at the level of the octagon geometry and of the per-piece point sets; the line-level Gallina "
    "model Model.Median.kernel is tied to the compiled kernel by exact differential testing, and its Fixed variant "
    "to the octagon spec by running the verified checker on its output for every generated case)",
    "float->int truncation of radius*2.0/2.414213 equals floor(radius*2000000/2414213): checked in Python for "
    "radius 0..4096 on every run (gen_files), not proved in Coq",
    "NumPy semantics used by filter.median_filter as modelled: np.issubdtype(dtype, int) is observed, boolean-mask "
    "indexing in raster order, rank_order's argsort/cumsum ranks (= index in the sorted distinct values); "
    "rank_order's decimation loop (> 255 distinct values) is not modelled, only checked on its observed output",
    "float data are dyadic (k/4) and sent to the model as the integers 4*value (order and equality preserved)",
]
ASSUMPTIONS = ["fewer than 65536 unmasked pixels per window (uint16 bin counts): PROVED for every radius <= 127 "
               "(C07_WinSmall_of_radius); sharp: radius 141 (66145-point octagon) fails on a constant image",
               "columns + 2*radius + 1 < 1573248 (32-bit scratch size of allocate_histograms, C07_alloc_size_exact_below; "
               "beyond it the compiled code segfaults: known finding F23); rows*columns < 2^31 (int32 strides)",
               "0 <= percent <= 100 integral (a non-integral percent is truncated by the int32 argument), radius >= 1",
               "data free of NaN; bool mask of the image's shape"]
EXHAUSTIVE = {"quick": False, "thorough": False}
CASE_TIMEOUT = 60

CHECK_FAIL = "output is not the percentile of the masked octagon window (Spec.MedianSpec.check_median = false)"
CRASH_FAIL = "implementation crashed (signal %d) on a valid input"
INDEP_FAIL = ("the result changes when pixels OUTSIDE the mask are replaced by 0 (the statistic must be one of "
              "the masked data only)")
PERCENTS = [0, 1, 25, 50, 75, 99, 100]


# ------------------------------------------------------------------------------ translator

def gen_files(ctx):
    """The octagon constant is read from the generated C++ the binary is built from; the float
    expression must be the one the model's rational quotient stands for (fail-closed)."""
    src = ctx.staged_source("centrosome/_filter.cpp")
    m = re.findall(r"__pyx_v_a = \(\(int\)\(\(\(\(__pyx_t_5numpy_float64_t\)__pyx_v_radius\) \* ([0-9.]+)\) / "
                   r"\(\(__pyx_t_5numpy_float64_t\)([0-9.]+)\)\)\);", src)
    if len(m) != 1:
        raise RuntimeError("allocate_histograms: octagon side expression not recognised in _filter.cpp")
    mul, den = m[0]
    if "." not in den or "." not in mul:
        raise RuntimeError("octagon constants are not decimal literals: %s %s" % (mul, den))
    digits = len(den.split(".")[1])
    d = int(den.replace(".", ""))
    nmul = float(mul)
    if nmul != int(nmul):
        raise RuntimeError("multiplier not integral")
    n = int(nmul) * 10 ** digits
    for r in range(0, 4097):
        if int(float(r) * float(mul) / float(den)) != (r * n) // d:
            raise RuntimeError("float truncation differs from the rational floor at radius %d" % r)
    # --- allocate_histograms: the scratch size expression, its C types and the struct sizes (finding F23)
    decl = re.findall(r"^\s*(unsigned int|size_t|unsigned long|int|long)\s+__pyx_v_memory_size;", src, re.M)
    decl_sl = re.findall(r"^\s*(unsigned int|size_t|unsigned long|int|long)\s+__pyx_v_adjusted_stripe_length;", src, re.M)
    if len(decl) != 1 or len(decl_sl) != 1:
        raise RuntimeError("allocate_histograms: declaration of memory_size / adjusted_stripe_length not recognised")
    expr_ok = (
        "__pyx_v_adjusted_stripe_length = ((__pyx_v_columns + (2 * __pyx_v_radius)) + 1);" in src and
        "__pyx_v_memory_size = (((__pyx_v_adjusted_stripe_length * ((sizeof(struct __pyx_t_10centrosome_7_filter_Histogram)) + "
        "(sizeof(struct __pyx_t_10centrosome_7_filter_PixelCount)))) + (sizeof(struct __pyx_t_10centrosome_7_filter_Histograms))) + 32);"
        in src and "__pyx_v_ptr = malloc(__pyx_v_memory_size);" in src)
    if not expr_ok:
        raise RuntimeError("allocate_histograms: size expression / malloc call not recognised in _filter.cpp")
    bits = {"unsigned int": 32, "int": 32, "size_t": 64, "unsigned long": 64, "long": 64}[decl[0]]
    if decl_sl[0] not in ("unsigned int", "size_t", "unsigned long"):
        raise RuntimeError("adjusted_stripe_length is signed: not modelled")
    body = ""
    td = re.search(r"^typedef __pyx_t_5numpy_uint16_t __pyx_t_10centrosome_7_filter_pixel_count_t;", src, re.M)
    if not td:
        raise RuntimeError("pixel_count_t typedef not recognised")
    body += td.group(0) + "\n"
    for nm in ("HistogramPiece", "Histogram", "PixelCount", "SCoord", "Histograms"):
        ms = re.search(r"^struct __pyx_t_10centrosome_7_filter_%s \{.*?^\};" % nm, src, re.S | re.M)
        if not ms:
            raise RuntimeError("struct %s not found in _filter.cpp" % nm)
        body += ms.group(0) + "\n"
    body = re.sub(r"__pyx_t_5numpy_(u?int\d+)_t", r"\1_t", body)
    prog = ("#include <stdint.h>\n#include <stdio.h>\n" + body +
            "int main(){printf(\"%zu %zu %zu %zu\\n\", sizeof(struct __pyx_t_10centrosome_7_filter_Histogram), "
            "sizeof(struct __pyx_t_10centrosome_7_filter_PixelCount), sizeof(struct __pyx_t_10centrosome_7_filter_Histograms), "
            "sizeof(unsigned int));return 0;}\n")
    import subprocess, tempfile
    with tempfile.TemporaryDirectory(dir=ctx.scratch) as td_:
        cpp = os.path.join(td_, "sz.cpp")
        with open(cpp, "w") as f:
            f.write(prog)
        r = subprocess.run(["g++", "-O0", "-o", os.path.join(td_, "sz"), cpp], capture_output=True, text=True)
        if r.returncode != 0:
            raise RuntimeError("struct size probe does not compile: " + r.stderr[-400:])
        szs = [int(x) for x in subprocess.check_output([os.path.join(td_, "sz")], text=True).split()]
    if szs[3] != 4 and bits == 32:
        raise RuntimeError("unsigned int is not 32 bits on this platform")
    text = ("(* generated by harness/props/c07.py from centrosome/_filter.cpp (allocate_histograms):\n"
            "   a = <int>(<float64>radius * %s / %s);\n"
            "   %s memory_size = stripe_length * (sizeof(Histogram) + sizeof(PixelCount)) + sizeof(Histograms) + 32,\n"
            "   struct sizes measured with g++ on the struct definitions of the generated C++ *)\n"
            "From Coq Require Import ZArith.\nOpen Scope Z_scope.\n"
            "Definition gen_oct_num : Z := %d.\nDefinition gen_oct_den : Z := %d.\n"
            "Definition gen_sz_histogram : Z := %d.\nDefinition gen_sz_pixelcount : Z := %d.\n"
            "Definition gen_sz_histograms : Z := %d.\nDefinition gen_memsize_bits : Z := %d.\n"
            % (mul, den, decl[0], n, d, szs[0], szs[1], szs[2], bits))
    return {"theories/Gen/MedianConstC07.v": text}


# ------------------------------------------------------------------------------ generation

def _mask(rng, H, W):
    u = rng.rand()
    if u < 0.22:
        return np.ones((H, W), int)
    if u < 0.27:
        return np.zeros((H, W), int)
    if u < 0.34:
        m = np.zeros((H, W), int); m[rng.randint(H), rng.randint(W)] = 1
        return m
    if u < 0.42:
        m = np.ones((H, W), int); m[rng.randint(H), rng.randint(W)] = 0
        return m
    if u < 0.55:                           # blocks: half image masked
        m = np.ones((H, W), int)
        if rng.rand() < 0.5:
            m[:, : W // 2] = 0
        else:
            m[H // 2:, :] = 0
        return m
    dens = rng.choice([0.1, 0.3, 0.5, 0.8, 0.95])
    return (rng.rand(H, W) < dens).astype(int)


def _data8(rng, H, W):
    u = rng.rand()
    if u < 0.08:
        return np.full((H, W), rng.randint(0, 256), int)
    if u < 0.30:
        lv = rng.choice(256, size=rng.randint(2, 5), replace=False)
        return rng.choice(lv, size=(H, W)).astype(int)
    if u < 0.40:
        return rng.choice([0, 255], size=(H, W)).astype(int)
    if u < 0.50:
        return ((np.arange(H)[:, None] * 17 + np.arange(W)[None, :] * 5 + rng.randint(256)) % 256).astype(int)
    if u < 0.58:                           # values close to a coarse-bin boundary
        return rng.choice([15, 16, 17, 31, 32, 239, 240, 255, 0], size=(H, W)).astype(int)
    return rng.randint(0, 256, (H, W))


def _shape(rng, big, radius):
    u = rng.rand()
    if u < 0.10:
        return 1, int(rng.randint(1, big + 1))
    if u < 0.20:
        return int(rng.randint(1, big + 1)), 1
    if u < 0.35:                           # smaller than the window
        s = max(1, min(big, radius))
        return int(rng.randint(1, s + 1)), int(rng.randint(1, s + 1))
    if u < 0.45:                           # one larger than the window
        s = min(big, 2 * radius + 2)
        return s, s
    return int(rng.randint(1, big + 1)), int(rng.randint(1, big + 1))


def _kernel_case(rng, big, rmax):
    radius = int(rng.choice([1, 2, 2, 3, 3, 4, 5, 6, 7, 8]) if rng.rand() < 0.7 else rng.randint(1, rmax + 1))
    radius = min(radius, rmax)
    H, W = _shape(rng, big, radius)
    pct = int(rng.choice(PERCENTS)) if rng.rand() < 0.8 else int(rng.randint(0, 101))
    return {"fn": "kernel", "data": _data8(rng, H, W).tolist(), "mask": _mask(rng, H, W).tolist(),
            "radius": radius, "percent": pct}


WDT = ["uint8", "int64small", "int32", "int16neg", "float64", "float32", "int64wide", "int64outside", "int64outside"]


def _wrapper_case(rng, big, rmax, wide=False):
    radius = int(min(rmax, rng.choice([1, 2, 2, 3, 4, 5, 7])))
    kind = str(rng.choice(WDT))
    if wide:
        H, W = int(rng.randint(17, max(18, big + 1))), int(rng.randint(17, max(18, big + 1)))
        kind = str(rng.choice(["int32", "float64", "int64wide"]))
    else:
        H, W = _shape(rng, big, radius)
    scale = 1
    if kind == "uint8":
        dtype, d = "uint8", _data8(rng, H, W)
    elif kind in ("int64small", "int64outside"):
        dtype, d = "int64", _data8(rng, H, W)
    elif kind == "int32":
        dtype = "int32"
        d = rng.randint(-100000, 100000, (H, W)) if (wide or rng.rand() < 0.5) else rng.choice(
            rng.randint(-100000, 100000, size=6), size=(H, W))
    elif kind == "int16neg":
        dtype, d = "int16", rng.randint(-300, 40, (H, W))
    elif kind == "int64wide":
        dtype, d = "int64", rng.randint(-5, 1000, (H, W)) if not wide else rng.randint(-5, 100000, (H, W))
    else:
        dtype, scale = kind, 4
        d = rng.randint(-2000, 2000, (H, W)) if (wide or rng.rand() < 0.6) else rng.choice(
            rng.randint(-2000, 2000, size=5), size=(H, W))
    mask = None if rng.rand() < 0.15 else _mask(rng, H, W).tolist()
    if wide and mask is not None and rng.rand() < 0.7:
        mask = (rng.rand(H, W) < 0.97).astype(int).tolist()
    if kind == "int64outside":
        # integer data in 0..255 inside the mask, out-of-range values only OUTSIDE it: the direct
        # path must be taken (values outside the mask play no role)
        dtype, d = "int64", np.array(d)
        m = np.array(_mask(rng, H, W) if mask is None else mask)
        if m.all() and H * W > 1:
            m[rng.randint(H), rng.randint(W)] = 0
        d[m == 0] = rng.choice([-1, -7, 256, 300, 100000, 5], size=int((m == 0).sum()))
        mask = m.tolist()
    pct = int(rng.choice(PERCENTS)) if rng.rand() < 0.8 else int(rng.randint(0, 101))
    return {"fn": "wrapper", "dtype": dtype, "scale": scale, "data": np.asarray(d).astype(int).tolist(),
            "mask": mask, "radius": radius, "percent": pct}


def _levels256_case(rng, radius, pct, outside):
    """int64 image whose masked pixels carry all 256 levels 0..255 (direct path, no merge); with
    [outside] some masked-out pixels are out of range"""
    H, W = int(rng.randint(17, 21)), int(rng.randint(17, 21))
    d = rng.permutation(np.concatenate([np.arange(256), rng.randint(0, 256, H * W - 256)])).reshape(H, W)
    m = np.ones((H, W), int)
    free = np.argwhere(d >= 0)
    rng.shuffle(free)
    seen = set()
    n_out = 0
    # mask out a few pixels whose level also occurs elsewhere, so all 256 levels stay masked-in
    counts = np.bincount(d.ravel(), minlength=256)
    for i, j in free:
        if n_out >= 6:
            break
        if counts[d[i, j]] > 1:
            counts[d[i, j]] -= 1
            m[i, j] = 0
            if outside:
                d[i, j] = int(rng.choice([-3, 256, 70000]))
            n_out += 1
    return {"fn": "wrapper", "dtype": "int64", "scale": 1, "data": d.astype(int).tolist(), "mask": m.tolist(),
            "radius": radius, "percent": pct}


def _few_in_mask_case(rng, radius, pct):
    """more than 255 distinct values in the image but at most 255 among the masked pixels: the exact regime"""
    H, W = int(rng.randint(17, 23)), int(rng.randint(17, 23))
    kind = str(rng.choice(["int32", "float64", "int64"]))
    d = rng.permutation(H * W * 3)[: H * W].reshape(H, W) - H * W
    m = np.zeros(H * W, int)
    m[rng.permutation(H * W)[: int(rng.randint(120, 256))]] = 1
    return {"fn": "wrapper", "dtype": kind, "scale": 4 if kind == "float64" else 1, "data": d.astype(int).tolist(),
            "mask": m.reshape(H, W).tolist(), "radius": radius, "percent": pct}


INT_DT = ["bool", "int8", "int16", "int32", "int64", "uint8", "uint16", "uint32"]
FLT_DT = ["float32", "float64"]
LAYOUTS = ["C", "C", "F", "strided", "readonly", "neg"]
PTYPES = ["int", "int", "float", "np.int32", "np.int64", "np.float64"]
# masks that are not dtype bool (0/1 and other truthy values): before /repo's "fix: median_filter accepts masks
# that are not of boolean dtype" (finding F14, found by this generator class) the input came back unfiltered
NONBOOL_MASKS = True
MASK_DT = ["bool", "bool", "bool", "uint8", "int64", "int8"]


def _int_values(rng, dt, H, W, many):
    """nested Python ints of dtype [dt]: extremes, spans above half the range, few levels"""
    n = H * W
    if dt == "bool":
        return rng.randint(0, 2, (H, W)).tolist()
    info = np.iinfo(dt)
    lo, hi = int(info.min), int(info.max)
    u = rng.rand()
    if many or u < 0.35:                               # the whole range of the dtype
        vals = [min(hi, max(lo, lo + int(r * (hi - lo)))) for r in rng.random_sample(n)]
        if many and hi - lo == 255:                    # 8-bit: all 256 levels
            vals = [lo + int(x) for x in rng.permutation(np.concatenate([np.arange(256), rng.randint(0, 256, max(0, n - 256))]))[:n]]
    elif u < 0.60:                                     # few levels, extremes among them
        pool = [v for v in (lo, lo + 1, hi, hi - 1, 0, 1, 255, 256, -1, hi // 2, hi // 2 + 1) if lo <= v <= hi]
        lv = [pool[k] for k in rng.choice(len(pool), size=min(len(pool), int(rng.randint(2, 6))), replace=False)]
        vals = [lv[k] for k in rng.randint(0, len(lv), n)]
    elif u < 0.80:                                     # close to the top of the range
        vals = [hi - int(x) for x in rng.randint(0, min(300, hi - lo + 1), n)]
    else:                                              # around zero / the bottom
        vals = [min(hi, max(lo, int(x))) for x in rng.randint(-150, 151, n)]
    if n >= 2 and rng.rand() < 0.7:
        vals[int(rng.randint(n))] = lo
        vals[int(rng.randint(n))] = hi
    return [vals[i * W:(i + 1) * W] for i in range(H)]


def _float_case_values(rng, dt, H, W, many):
    """(table of hex floats, codes, negative-zero flags) for a float image with +-0.0, +-inf, the
    extremes of the dtype, subnormals, dyadic and generic values"""
    fi = np.finfo(dt)
    special = np.array([0.0, -0.0, np.inf, -np.inf, 1e30, -1e30, float(fi.tiny), float(fi.max), -float(fi.max),
                        float(fi.tiny) / 4, 0.25, -0.25, 1.0, 1.0 + float(fi.eps)], np.float64)
    if many:
        a = (rng.standard_normal((H, W)) * 10.0 ** rng.randint(-3, 6)).astype(dt)
        k = rng.rand(H, W) < 0.05
        a[k] = rng.choice(special, size=int(k.sum())).astype(dt)
    elif rng.rand() < 0.5:
        lv = np.concatenate([rng.choice(special, size=rng.randint(1, 5)), rng.randint(-40, 40, rng.randint(1, 4)) / 4.0])
        a = rng.choice(lv, size=(H, W)).astype(dt)
    else:
        a = (rng.randint(-2000, 2000, (H, W)) / 4.0).astype(dt)
        k = rng.rand(H, W) < 0.15
        a[k] = rng.choice(special, size=int(k.sum())).astype(dt)
    v = a.astype(np.float64)
    tab = np.unique(v)
    codes = np.searchsorted(tab, v)
    nz = (np.signbit(v) & (v == 0)).astype(int)
    return [float(x).hex() for x in tab], codes.tolist(), nz.tolist()


def _broad_case(rng, big, rmax, many=False, radius=None):
    """filter.median_filter with every dtype / layout / mask form / percent type it accepts"""
    dt = str(rng.choice(INT_DT + FLT_DT + FLT_DT))
    if many:
        dt = str(rng.choice(["int8", "uint8", "int16", "uint16", "int32", "uint32", "int64", "float32", "float64"]))
    if radius is None:
        radius = int(min(rmax, rng.choice([1, 2, 2, 3, 3, 4, 5, 7])))
    if many:
        H, W = int(rng.randint(17, 23)), int(rng.randint(17, 23))
    else:
        H, W = _shape(rng, big, radius)
    c = {"fn": "wrapper", "dtype": dt, "radius": radius, "layout": str(rng.choice(LAYOUTS)),
         "mask_layout": str(rng.choice(LAYOUTS)), "ptype": str(rng.choice(PTYPES))}
    if dt in FLT_DT:
        c["table"], c["data"], c["nz"] = _float_case_values(rng, dt, H, W, many)
    else:
        c["data"] = _int_values(rng, dt, H, W, many)
    if rng.rand() < 0.15:
        c["mask"] = None
    elif many:
        c["mask"] = (rng.rand(H, W) < rng.choice([0.9, 0.97, 1.0])).astype(int).tolist()
    else:
        c["mask"] = _mask(rng, H, W).tolist()
    c["mask_dtype"] = str(rng.choice(MASK_DT)) if (NONBOOL_MASKS and c["mask"] is not None) else "bool"
    if c["mask_dtype"] != "bool" and rng.rand() < 0.4:      # any non-zero value means "significant"
        c["mask"] = [[(int(rng.choice([1, 2, 5, 100])) if m else 0) for m in r] for r in c["mask"]]
    c["percent"] = int(rng.choice(PERCENTS)) if rng.rand() < 0.8 else int(rng.randint(0, 101))
    return c


def _seq_case(rng, big, rmax):
    """several calls in one process on alternating inputs: A, B, A (and sometimes B again)"""
    a = _broad_case(rng, big, rmax, radius=int(rng.choice([2, 3, 4])))
    b = _broad_case(rng, big, rmax, radius=int(rng.choice([2, 3, 5])))
    if rng.rand() < 0.4:
        b = _kernel_case(rng, big, rmax)
        b["radius"] = max(2, b["radius"])
    if rng.rand() < 0.3:                       # same shape and dtype, other contents
        b = json.loads(json.dumps(a))
        if "table" not in b:
            b["data"] = _int_values(rng, b["dtype"], len(b["data"]), len(b["data"][0]), False)
        b["percent"] = int(rng.choice(PERCENTS))
    calls = [a, b, a] + ([b] if rng.rand() < 0.5 else [])
    return {"fn": "seq", "calls": calls, "radius": a["radius"], "data": a["data"], "mask": a["mask"]}


WIDE_PERIOD = [0, 3, 6, 9, 12, 15, 18]
WIDE_N = 1573243          # the tester's width: columns + 2*radius + 1 = 1573248 at radius 2 (finding F23)


def _wide_case(H, W, radius, percent, call="kernel", period=None, mperiod=None):
    """very wide / very tall image with periodic contents: the output is checked on three narrow crops
    (both ends, the middle) and for periodicity in between; the call runs in a forked child"""
    return {"fn": "wide", "H": H, "W": W, "radius": radius, "percent": percent, "call": call,
            "period": period or WIDE_PERIOD, "mperiod": mperiod, "K": 48}


def _wide_cases(ctx):
    rng = ctx.rng
    cs = [_wide_case(1, WIDE_N - 1, 2, 50, "kernel"),                       # last width that works
          _wide_case(1, WIDE_N, 2, 50, "wrapper"),                          # F23: SIGSEGV
          _wide_case(WIDE_N + int(rng.randint(0, 5000)), 1, 2, int(rng.choice([25, 50, 75])), "wrapper",
                     mperiod=[1, 1, 1, 0, 1])]                              # very tall: small stripe, no wrap
    if not ctx.quick():
        cs += [_wide_case(2, WIDE_N - 1, 2, 75, "wrapper", mperiod=[1, 0, 1, 1]),
               _wide_case(2, WIDE_N, 2, 75, "kernel"),
               _wide_case(1, WIDE_N - 7, 5, 50, "kernel", period=[200, 10, 10, 90, 255, 0, 17, 17, 16, 15, 31]),
               _wide_case(1, WIDE_N - 6, 5, 50, "kernel"),
               _wide_case(1, WIDE_N + int(rng.randint(1, 400000)), 3, 50, "kernel"),
               _wide_case(1, 1000000 + int(rng.randint(0, 500000)), 4, 0, "wrapper", mperiod=[1, 1, 0]),
               _wide_case(3000000 + int(rng.randint(0, 1000)), 1, 3, 100, "kernel"),
               _wide_case(1500000, 2, 2, 50, "kernel", mperiod=[1, 0, 1])]
    return cs


def _wide_axes(case):
    """(long axis length N, short axis length S, wide?)"""
    H, W = case["H"], case["W"]
    return (W, H, True) if W >= H else (H, W, False)


def _wide_crop(case, t0, t1):
    """data and mask (nested lists, image orientation) of the pixels with long-axis coordinate t0 <= t < t1"""
    N, S, wide = _wide_axes(case)
    p, q = case["period"], case["mperiod"]
    val = lambda t, s: p[(t + 2 * s) % len(p)]
    msk = lambda t, s: 1 if q is None else q[(t + s) % len(q)]
    if wide:
        return ([[val(t, s) for t in range(t0, t1)] for s in range(S)], [[msk(t, s) for t in range(t0, t1)] for s in range(S)])
    return ([[val(t, s) for s in range(S)] for t in range(t0, t1)], [[msk(t, s) for s in range(S)] for t in range(t0, t1)])


def _wide_segments(case):
    """the three crops: (name, crop start, crop end, offset of the compared part inside the crop, start of the
    compared part in the image)"""
    N, S, wide = _wide_axes(case)
    K = min(case["K"], N)
    Rr = max(2, case["radius"])
    M = N // 2
    segs = [("head", 0, min(N, K + Rr), 0, 0)]
    if N > 2 * (K + Rr):
        segs.append(("tail", N - K - Rr, N, Rr, N - K))
        segs.append(("mid", M - Rr, M + K + Rr, Rr, M))
    return segs, K


def _corpus():
    res = []
    for p in sorted(glob.glob(os.path.join(os.path.dirname(__file__), "..", "..", "corpus", ID, "*.json"))):
        with open(p) as f:
            res.append(json.load(f))
    return res


def generate(ctx):
    rng = ctx.rng
    cases = _corpus()
    big = ctx.n(14, 24)
    rmax = ctx.n(8, 12)
    # systematic small block: every radius 1..rmax on fixed tiny shapes, every percent class
    for radius in range(1, rmax + 1):
        for (H, W) in [(1, 1), (1, 5), (4, 1), (3, 3), (2 * radius + 2, 2 * radius + 3)]:
            H, W = min(H, big + 4), min(W, big + 4)
            cases.append({"fn": "kernel", "data": _data8(rng, H, W).tolist(), "mask": _mask(rng, H, W).tolist(),
                          "radius": radius, "percent": PERCENTS[(radius + H + W) % len(PERCENTS)]})
    for _ in range(ctx.n(1100, 8000)):
        cases.append(_kernel_case(rng, big, rmax))
    for _ in range(ctx.n(0, 160)):        # thorough: large images, large radii
        c = _kernel_case(rng, 64, 30)
        cases.append(c)
    for _ in range(ctx.n(6, 0)):          # quick: a few mid-size ones
        cases.append(_kernel_case(rng, 32, 14))
    for k in range(ctx.n(8, 60)):
        cases.append(_levels256_case(rng, int(rng.choice([2, 3, 5])), int(rng.choice(PERCENTS)), outside=(k % 4 != 0)))
    for k in range(ctx.n(8, 60)):
        cases.append(_few_in_mask_case(rng, int(rng.choice([2, 3, 4])), int(rng.choice(PERCENTS))))
    for _ in range(ctx.n(450, 4000)):
        cases.append(_wrapper_case(rng, big, rmax))
    for _ in range(ctx.n(10, 120)):
        cases.append(_wrapper_case(rng, ctx.n(20, 30), rmax, wide=True))
    for _ in range(ctx.n(500, 5000)):     # every dtype / layout / mask form / percent type
        cases.append(_broad_case(rng, big, rmax))
    for _ in range(ctx.n(40, 400)):       # > 255 distinct masked levels in ints and floats
        cases.append(_broad_case(rng, big, rmax, many=True))
    for _ in range(ctx.n(60, 600)):       # alternating calls in one process
        cases.append(_seq_case(rng, big, rmax))

    cases.extend(_wide_cases(ctx))
    # corpus first; then the radii the property holds for, the F2 class (radius 1) last, so that the
    # first reported violation of a new defect is not mixed up with the known finding
    nc = len(_corpus())
    cases = cases[:nc] + sorted(cases[nc:], key=lambda c: c["radius"] == 1)
    for c in cases:
        ctx.count(c["fn"])
        ctx.count("radius=%d" % c["radius"] if c["radius"] <= 8 else "radius>8")
        H, W = (c["H"], c["W"]) if c["fn"] == "wide" else (len(c["data"]), len(c["data"][0]))
        if c["fn"] == "wide":
            ctx.count("wide:%s" % ("1xN" if H == 1 else "Nx1" if W == 1 else "2xN/Nx2"))
        ctx.count("shape:" + ("1x1" if H * W == 1 else "line" if min(H, W) == 1 else
                              "<=window" if max(H, W) <= c["radius"] else "<=14" if max(H, W) <= 14 else ">14"))
        for w in (c["calls"] if c["fn"] == "seq" else [c]):
            if w["fn"] == "wrapper":
                ctx.count("dtype:" + w["dtype"])
                ctx.count("mask:None" if w["mask"] is None else "mask:" + w.get("mask_dtype", "bool"))
                ctx.count("layout:" + w.get("layout", "C"))
                ctx.count("ptype:" + w.get("ptype", "int"))
    return cases


# ------------------------------------------------------------------------------ implementation side

def _layout(a, kind):
    """the same values in another memory layout"""
    if kind == "F":
        return np.asfortranarray(a)
    if kind == "strided":
        big = np.zeros((a.shape[0] * 2, a.shape[1] * 3), a.dtype)
        big[::2, ::3] = a
        return big[::2, ::3]
    if kind == "neg":
        base = np.ascontiguousarray(a[::-1, ::-1])
        return base[::-1, ::-1]
    a = np.ascontiguousarray(a)
    if kind == "readonly":
        a = a.copy()
        a.flags.writeable = False
    return a


def _table(case):
    return np.array([float.fromhex(s) for s in case["table"]], np.float64)


def _np_data(case):
    if "table" in case:                      # floats: codes into the sorted table of the distinct values
        a = _table(case)[np.array(case["data"], np.int64)].astype(case["dtype"])
        if case.get("nz") is not None:
            nz = np.array(case["nz"], bool) & (a == 0)
            a[nz] = -0.0
    elif case.get("scale", 1) != 1:          # legacy corpus format: dyadic value = int / scale
        a = (np.array(case["data"], np.int64).astype(np.float64) / case["scale"]).astype(case["dtype"])
    else:
        a = np.array(case["data"], dtype=case["dtype"])
    return _layout(a, case.get("layout", "C"))


def _enc(a, case):
    """values of the implementation back to the integers the model computes with (None: a value that
    is not one of the input's values / not dyadic)"""
    a = np.asarray(a)
    if "table" in case:
        tab = _table(case)
        v = a.astype(np.float64)
        idx = np.clip(np.searchsorted(tab, v), 0, len(tab) - 1)
        if not np.all(tab[idx] == v):
            return None
        return idx.astype(np.int64).tolist()
    if a.dtype.kind == "f":
        s = a.astype(np.float64) * case.get("scale", 1)
        if not np.all(s == np.round(s)):
            return None
        return s.astype(np.int64).tolist()
    if a.dtype.kind == "b":
        return a.astype(np.int64).tolist()
    return [[int(x) for x in r] for r in a.tolist()] if a.ndim == 2 else [int(x) for x in a.tolist()]


def _percent(case):
    p = case["percent"]
    return {"int": int, "float": float, "np.int32": np.int32, "np.int64": np.int64,
            "np.float64": np.float64}[case.get("ptype", "int")](p)


class _NPProxy(object):
    """stands in for the module global `np` of centrosome.rankorder: records np.argsort(hist)"""

    def __init__(self):
        self.orders = []

    def __getattr__(self, k):
        return getattr(np, k)

    def argsort(self, a, *args, **kw):
        r = np.argsort(a, *args, **kw)
        self.orders.append(np.asarray(r).astype(np.int64).tolist())
        return r


def _wide_child(case):
    """runs in the forked child: the call and the compact description of its output"""
    import math
    N, S, wide = _wide_axes(case)
    p, q = np.array(case["period"], np.int64), case["mperiod"]
    t = np.arange(N, dtype=np.int64)
    cols_ = [p[(t + 2 * s) % len(p)] for s in range(S)]
    d = np.stack(cols_, 0 if wide else 1).astype(np.uint8)
    if q is None:
        m = np.ones(d.shape, bool)
    else:
        qa = np.array(q, np.int64)
        m = np.stack([qa[(t + s) % len(q)] for s in range(S)], 0 if wide else 1).astype(bool)
    d = np.ascontiguousarray(d); m = np.ascontiguousarray(m)
    if case["call"] == "kernel":
        from centrosome import _filter
        out = np.zeros(d.shape, np.uint8)
        _filter.median_filter(d, m.astype(np.uint8), out, case["radius"], case["percent"])
    else:
        from centrosome import filter as F
        out = np.asarray(F.median_filter(d, None if q is None else m, case["radius"], case["percent"]))
    o = {"shape": list(out.shape)}
    lo = out if wide else out.T                      # long axis last
    segs, K = _wide_segments(case)
    for name, _, _, _, start in segs:
        o[name] = lo[:, start:start + K].astype(np.int64).tolist()
    L = len(case["period"]) if q is None else (len(case["period"]) * len(q)) // math.gcd(len(case["period"]), len(q))
    Rr = max(2, case["radius"])
    o["periodic"] = True
    if N > 2 * Rr + 2 * L:
        a, b = lo[:, Rr:N - Rr - L], lo[:, Rr + L:N - Rr]
        bad = np.argwhere(a != b)
        if len(bad):
            o["periodic"] = False
            o["first_bad"] = int(bad[:, 1].min()) + Rr
    return o


def _wide_impl(case):
    """fork-isolated: a crash of the compiled kernel is an outcome of the case, not of the worker"""
    r, w = os.pipe()
    pid = os.fork()
    if pid == 0:
        code = 0
        try:
            os.close(r)
            try:
                res = _wide_child(case)
            except BaseException as e:
                res = {"exc": type(e).__name__, "msg": str(e)[:300]}
            with os.fdopen(w, "w") as f:
                f.write(json.dumps(res))
        except BaseException:
            code = 3
        os._exit(code)
    os.close(w)
    with os.fdopen(r) as f:
        txt = f.read()
    _, st = os.waitpid(pid, 0)
    if os.WIFSIGNALED(st):
        return {"sig": int(os.WTERMSIG(st))}
    if not txt:
        return {"exc": "ChildFailed", "msg": "exit status %d" % st}
    return json.loads(txt)


def impl(case):
    if case["fn"] == "wide":
        return _wide_impl(case)
    if case["fn"] == "seq":
        # several calls in one process, alternating inputs (a stale cache between calls would show)
        return {"outs": [_safe_impl(c) for c in case["calls"]]}
    if case["fn"] == "kernel":
        from centrosome import _filter
        data = np.array(case["data"], np.uint8)
        mask = np.array(case["mask"], np.uint8)
        out = np.zeros(data.shape, np.uint8)
        _filter.median_filter(data, mask, out, case["radius"], _percent(case))
        return {"out": out.tolist()}
    from centrosome import filter as F
    from centrosome import rankorder
    real_filter, real_ro, real_np = F._filter, F.rank_order, rankorder.np
    rec = {}

    class Proxy(object):
        def __getattr__(self, name):
            return getattr(real_filter, name)

        def median_filter(self, inp, m, out, radius, percent):
            rec["k_in"] = np.array(inp).tolist()
            rec["k_mask"] = np.array(m).tolist()
            rec["k_args"] = [int(radius), int(percent)]
            real_filter.median_filter(inp, m, out, radius, percent)
            rec["k_out"] = np.array(out).tolist()

    def ro(image, nbins=None):
        r = real_ro(image, nbins=nbins)
        rec["ro_in"] = np.array(image).ravel()
        rec["ro_rank"] = np.array(r[0]).astype(np.int64).ravel().tolist()
        rec["ro_tr"] = np.array(r[1])
        return r

    data = _np_data(case)
    before = np.array(data)                  # C-contiguous, writable copy
    mask = None
    if case["mask"] is not None:
        mask = _layout(np.array(case["mask"], case.get("mask_dtype", "bool")), case.get("mask_layout", "C"))
    bmask = None if mask is None else np.array(mask, bool)
    proxy = _NPProxy()
    F._filter, F.rank_order, rankorder.np = Proxy(), ro, proxy
    try:
        res = F.median_filter(data, mask, case["radius"], _percent(case))
    finally:
        F._filter, F.rank_order, rankorder.np = real_filter, real_ro, real_np
    # the statistic is one of the MASKED data: replacing the pixels outside the mask must not change it
    indep = True
    if bmask is not None and bmask.any() and not bmask.all():
        d2 = before.copy()
        d2[~bmask] = 0
        res2 = F.median_filter(d2, bmask, case["radius"], _percent(case))
        indep = bool(np.shape(res) == np.shape(res2) and np.array_equal(np.asarray(res), np.asarray(res2)))
    o = {"result": _enc(res, case), "shape": list(np.shape(res)), "indep": indep,
         "intlike": bool(np.issubdtype(data.dtype, int)),
         "input_unchanged": bool(before.tobytes() == np.ascontiguousarray(data).tobytes()),
         "res_dtype_ok": bool(np.asarray(res).dtype == data.dtype),
         "k_in": rec.get("k_in"), "k_mask": rec.get("k_mask"), "k_out": rec.get("k_out"), "k_args": rec.get("k_args"),
         "ranked": "ro_rank" in rec, "orders": proxy.orders}
    if "ro_rank" in rec:
        o["ro_in"] = _enc(rec["ro_in"], case)
        o["ro_rank"] = rec["ro_rank"]
        o["ro_tr"] = _enc(rec["ro_tr"], case)
    return o


def _safe_impl(c):
    try:
        return impl(c)
    except Exception as e:                    # an exception is an observable outcome of that call
        return {"exc": type(e).__name__, "msg": str(e)[:300]}


def _bad(o):
    return (not isinstance(o, dict)) or "exc" in o or "crash" in o


def _mask_of(case):
    if case["mask"] is None:
        return [[1] * len(r) for r in case["data"]]
    return [[1 if m else 0 for m in r] for r in case["mask"]]      # mask = np.asarray(mask, bool)


# ------------------------------------------------------------------------------ model side

def _par_model(ctx, entry, args, workers=4):
    """ctx.run_model in a few parallel chunks (each chunk is one process of the extracted program)."""
    if len(args) < 40:
        return ctx.run_model(entry, args)
    n = len(args)
    order = sorted(range(n), key=lambda k: -len(str(args[k])))      # spread the heavy ones
    chunks = [order[w::workers] for w in range(workers)]
    res = [None] * n
    with ThreadPoolExecutor(max_workers=workers) as ex:
        futs = [ex.submit(ctx.run_model, entry, [args[k] for k in ch]) for ch in chunks]
        for ch, f in zip(chunks, futs):
            for k, r in zip(ch, f.result()):
                res[k] = r
    return res


def _model_flat(ctx, cases, outs):
    res = [None] * len(cases)
    ki = [k for k, c in enumerate(cases) if c["fn"] == "kernel"]
    wi = [k for k, c in enumerate(cases) if c["fn"] == "wrapper" and not _bad(outs[k])]
    args = [[cases[k]["data"], cases[k]["mask"], cases[k]["radius"], cases[k]["percent"]] for k in ki]
    for k, r in zip(ki, _par_model(ctx, "entry_corr", args)):
        res[k] = r
    args = [[0, outs[k]["intlike"], cases[k]["data"], _mask_of(cases[k]), cases[k]["radius"], cases[k]["percent"],
             outs[k].get("orders") or []] for k in wi]
    for k, r in zip(wi, _par_model(ctx, "entry_wcorr", args)):
        res[k] = r
    # very wide / very tall images: the line-level model on the three crops
    vi = [k for k, c in enumerate(cases) if c["fn"] == "wide"]
    jobs = []
    for k in vi:
        segs, K = _wide_segments(cases[k])
        for name, t0, t1, off, start in segs:
            d, m = _wide_crop(cases[k], t0, t1)
            jobs.append((k, name, [d, m, cases[k]["radius"], cases[k]["percent"]]))
    if jobs:
        for (k, name, _), r in zip(jobs, ctx.run_model("entry_corr", [a for _, _, a in jobs])):
            if res[k] is None:
                res[k] = {}
            res[k][name] = r
    return res


def _wide_cmp(case, out, name, img, counts):
    """first difference between the implementation's segment [name] and the image [img] computed on the crop"""
    N, S, wide = _wide_axes(case)
    segs, K = _wide_segments(case)
    off = [s for s in segs if s[0] == name][0][3]
    for s in range(S):
        for k in range(K):
            if wide:
                exp, cnt = img[s][off + k], counts[s][off + k]
            else:
                exp, cnt = img[off + k][s], counts[off + k][s]
            if cnt > 0 and out[name][s][k] != exp:
                return "%s segment, long-axis offset %d, short-axis %d: impl %s expected %s" % (name, k, s, out[name][s][k], exp)
    return None


def _diff_where(counts, a, b):
    """first pixel with a non-empty window where the images differ"""
    if a is None or b is None:
        return "missing image"
    if len(a) != len(b) or any(len(x) != len(y) for x, y in zip(a, b)):
        return "shapes differ"
    for i, (ra, rb) in enumerate(zip(a, b)):
        for j, (x, y) in enumerate(zip(ra, rb)):
            if x != y and counts[i][j] > 0:
                return "pixel (%d,%d): impl %s model %s (window size %d)" % (i, j, x, y, counts[i][j])
    return None


def _compare1(case, out, m):
    if case["fn"] == "wide":
        if isinstance(out, dict) and "sig" in out:
            return None                    # a crash is judged in check / attribute, the model has no crashes
        if _bad(out):
            return "implementation raised: %s" % (str(out)[:200],)
        for name, r in (m or {}).items():
            if not isinstance(r, list) or len(r) != 3:
                return "model error on the %s crop: %s" % (name, str(r)[:200])
            d = _wide_cmp(case, out, name, r[0], r[2])
            if d:
                return "very wide/tall image differs from the AsIs model on a crop: " + d
            if r[1] != 1:
                return "the Fixed model does not meet the spec on the %s crop" % name
        return None
    if case["fn"] == "kernel":
        if _bad(out):
            return "implementation raised/crashed: %s" % (str(out)[:200],)
        if not isinstance(m, list) or len(m) != 3:
            return "model error: %s" % (str(m)[:200],)
        d = _diff_where(m[2], out["out"], m[0])
        if d:
            return "kernel differs from the AsIs sliding-histogram model at " + d
        if m[1] != 1:
            return "the Fixed sliding-histogram model does not meet the octagon spec on this input"
        return None
    if _bad(out):
        if isinstance(out, dict) and out.get("exc") == "IndexError":
            return None          # decided in check / by the model below when it is available
        return "implementation raised/crashed: %s" % (str(out)[:200],)
    if not isinstance(m, list) or not m:
        return "model error: %s" % (str(m)[:200],)
    if m[0] == 1:
        return ("the model of rank_order(data[mask], nbins=255) rejected a recorded np.argsort(hist) (not a sorting "
                "permutation of the model's histogram) or ran out of fuel; %d orders recorded" % len(out.get("orders") or []))
    if m[0] == 2:
        return "model predicts IndexError in translation[output], implementation returned a result"
    if out["result"] is None:
        return "implementation returned non-dyadic values"
    if out["k_in"] is not None and bool(m[3]) != bool(out["ranked"]):
        return ("filter.median_filter took the %s path, the wrapper model the %s path (the direct path is for "
                "integer data whose MASKED pixels lie in 0..255)" % (
                    "rank_order" if out["ranked"] else "direct", "rank_order" if m[3] else "direct"))
    d = _diff_where(m[2], out["result"], m[1])
    if d:
        return "filter.median_filter differs from the wrapper model (AsIs kernel) at " + d
    return None


def _flatten(cases, outs):
    fc, fo, idx = [], [], []
    for k, (c, o) in enumerate(zip(cases, outs)):
        if c["fn"] == "seq":
            subs = o["outs"] if isinstance(o, dict) and "outs" in o else [o] * len(c["calls"])
            for j, (sc, so) in enumerate(zip(c["calls"], subs)):
                fc.append(sc); fo.append(so); idx.append((k, j))
        else:
            fc.append(c); fo.append(o); idx.append((k, None))
    return fc, fo, idx


def model(ctx, cases, outs):
    fc, fo, idx = _flatten(cases, outs)
    fm = _model_flat(ctx, fc, fo)
    res = [None] * len(cases)
    for (k, j), m in zip(idx, fm):
        if j is None:
            res[k] = m
        else:
            if res[k] is None:
                res[k] = []
            res[k].append(m)
    return res


def compare(case, out, m):
    if case["fn"] != "seq":
        return _compare1(case, out, m)
    if _bad(out) or "outs" not in out:
        return "implementation raised/crashed: %s" % (str(out)[:200],)
    for j, (sc, so, sm) in enumerate(zip(case["calls"], out["outs"], m or [])):
        d = _compare1(sc, so, sm)
        if d:
            return "call %d of %d in one process: %s" % (j, len(case["calls"]), d)
    for j, sc in enumerate(case["calls"]):
        for i in range(j):
            if case["calls"][i] == sc and out["outs"][i] != out["outs"][j]:
                return "call %d returns something else than call %d on the same input (history dependence)" % (j, i)
    return None


# ------------------------------------------------------------------------------ the property

def check(ctx, cases, outs):
    fc, fo, idx = _flatten(cases, outs)
    fv = _check_flat(ctx, fc, fo)
    res = [None] * len(cases)
    for (k, j), v in zip(idx, fv):
        if v and res[k] is None:
            res[k] = v if j is None else "call %d of %d in one process: %s" % (j, len(cases[k]["calls"]), v)
    for k, (c, o) in enumerate(zip(cases, outs)):
        if c["fn"] == "seq" and res[k] is None and not _bad(o) and "outs" in o:
            for j, sc in enumerate(c["calls"]):
                for i in range(j):
                    if c["calls"][i] == sc and o["outs"][i] != o["outs"][j]:
                        res[k] = "call %d returns something else than call %d on the same input" % (j, i)
    return res


def _kernel_view(case, out):
    """the kernel call a case amounts to: (data8, mask, radius, percent, out8)"""
    if case["fn"] == "kernel":
        return case["data"], case["mask"], case["radius"], case["percent"], out["out"]
    return out["k_in"], out["k_mask"], out["k_args"][0], out["k_args"][1], out["k_out"]


def _check_flat(ctx, cases, outs):
    res = [None] * len(cases)
    jobs = []          # (case index, args for entry_check)
    merges = []
    wjobs = []
    for k, (c, o) in enumerate(zip(cases, outs)):
        if c["fn"] == "wide" and isinstance(o, dict) and "sig" in o:
            res[k] = CRASH_FAIL % o["sig"]
            continue
        if _bad(o):
            res[k] = "implementation raised/crashed on a valid input: %s" % (str(o)[:300],)
            continue
        if c["fn"] == "wide":
            if o["shape"] != [c["H"], c["W"]]:
                res[k] = "result has the wrong shape"
            elif not o["periodic"]:
                res[k] = ("output is not periodic where image and mask are (first at long-axis coordinate %s): the "
                          "percentile of identical windows differs" % o.get("first_bad"))
            else:
                segs, K = _wide_segments(c)
                for name, t0, t1, off, start in segs:
                    d, m = _wide_crop(c, t0, t1)
                    wjobs.append((k, name, [d, m, c["radius"], c["percent"]]))
            continue
        if c["fn"] == "kernel":
            jobs.append((k, [c["data"], c["mask"], c["radius"], c["percent"], o["out"]]))
            continue
        mask = _mask_of(c)
        H, W = len(c["data"]), len(c["data"][0])
        if o["shape"] != [H, W] or o["result"] is None:
            res[k] = "result has the wrong shape or non-dyadic values"
            continue
        if not o["input_unchanged"]:
            res[k] = "median_filter modified its input"
            continue
        if not any(any(r) for r in mask):
            continue                                   # every window empty: unspecified
        if not o["indep"]:
            res[k] = INDEP_FAIL
            continue
        mvals = set(x for rd, rm in zip(c["data"], mask) for x, m in zip(rd, rm) if m)
        if len(mvals) <= 255 or not o["ranked"]:
            # (no re-binning happened on the direct path: integer pixels in 0..255, possibly all 256 levels)
            # exact regime: the percentile of the ORIGINAL values
            jobs.append((k, [c["data"], mask, c["radius"], c["percent"], o["result"]]))
            continue
        # merged regime: order-preserving merge to <= 255 levels, exact statistic of the levels,
        # output = a masked input value representing the level
        if len(o["ro_tr"]) > 255 or any(r >= len(o["ro_tr"]) or r < 0 for r in o["ro_rank"]):
            res[k] = "rank_order left more than 255 levels / a level outside the translation table"
            continue
        flat = [x for rd, rm in zip(c["data"], mask) for x, m in zip(rd, rm) if m]
        if flat != o["ro_in"]:
            res[k] = "rank_order was not applied to the masked pixels"
            continue
        it = iter(o["ro_rank"])
        lev = [[(next(it) if m else 0) for m in rm] for rm in mask]
        if lev != o["k_in"] or [[1 if m else 0 for m in rm] for rm in mask] != o["k_mask"]:
            res[k] = "the kernel input is not the level image of the masked pixels"
            continue
        if [c["radius"], c["percent"]] != o["k_args"]:
            res[k] = "kernel called with other radius/percent"
            continue
        bad = None
        for i in range(H):
            for j in range(W):
                v8 = o["k_out"][i][j]
                if v8 >= len(o["ro_tr"]):
                    bad = "kernel output beyond the translation table"
                elif o["result"][i][j] != o["ro_tr"][v8]:
                    bad = "result is not translation[kernel output] at (%d,%d)" % (i, j)
        if bad:
            res[k] = bad
            continue
        merges.append((k, [[[x, r] for x, r in zip(flat, o["ro_rank"])], o["ro_tr"]]))
        jobs.append((k, [o["k_in"], mask, c["radius"], c["percent"], o["k_out"]]))
    if wjobs:       # the specified image of each crop (Spec.MedianSpec.spec_img), compared on the segment
        for (k, name, _), r in zip(wjobs, ctx.run_model("entry_spec", [a for _, _, a in wjobs])):
            if res[k] is None:
                d = _wide_cmp(cases[k], outs[k], name, r[0], r[1])
                if d:
                    res[k] = CHECK_FAIL + " [" + d + "]"
    if merges:
        for (k, _), r in zip(merges, _par_model(ctx, "entry_merge", [a for _, a in merges])):
            if r != 1 and res[k] is None:
                res[k] = "rank_order's merge is not order-preserving or a level's translation is not one of its values"
    if jobs:
        for (k, _), r in zip(jobs, _par_model(ctx, "entry_check", [a for _, a in jobs])):
            if r != 1 and res[k] is None:
                res[k] = CHECK_FAIL
    # attribution of the failures to the known finding, decided by the model variants, in one batch
    for k in range(len(cases)):          # no kernel call observed: nothing the model variants could explain
        if res[k] == CHECK_FAIL and cases[k]["fn"] == "wrapper" and outs[k].get("k_in") is None:
            _ATTR[_attr_key(cases[k], outs[k])] = None
    fk = [k for k in range(len(cases)) if res[k] == CHECK_FAIL and _attr_key(cases[k], outs[k]) not in _ATTR]
    if len(fk) > 3:
        views = [_kernel_view(cases[k], outs[k]) for k in fk]
        ms = _par_model(ctx, "entry_corr", [[v[0], v[1], v[2], v[3]] for v in views])
        gs = ctx.run_model("entry_geom", [v[2] for v in views])
        for k, v, m, g in zip(fk, views, ms, gs):
            _ATTR[_attr_key(cases[k], outs[k])] = _decide(v, m, g)
    return res


def nontrivial(case, out):
    if _bad(out):
        return False
    if case["fn"] == "seq":
        return any(nontrivial(sc, so) for sc, so in zip(case["calls"], out.get("outs", [])))
    if case["fn"] == "wide":
        return "sig" not in out
    mask = _mask_of(case)
    vals = set(x for rd, rm in zip(case["data"], mask) for x, m in zip(rd, rm) if m)
    return len(vals) >= 2 and len(case["data"]) * len(case["data"][0]) >= 4


# ------------------------------------------------------------------------------ known finding F2

_ATTR = {}


def _attr_key(case, out):
    return json.dumps([case, out], sort_keys=True, default=str)


def _decide(view, m, g):
    """F2 iff the failing kernel call equals the AsIs model (complete output) AND the Fixed model meets the
    spec on that input AND the two variants really differ there (the radius is bumped)."""
    if isinstance(m, list) and len(m) == 3 and m[0] == view[4] and m[1] == 1 and isinstance(g, list) \
            and g[0] != view[2]:
        return "F2"
    return None


def attribute(ctx, case, out, clause):
    if case["fn"] == "wide":
        # F23 iff the call crashed AND the allocation size of allocate_histograms as written wraps for this
        # (columns, radius) (extracted Model.MedianAlloc.alloc_wraps); any other crash is a violation
        if isinstance(out, dict) and "sig" in out and clause == CRASH_FAIL % out["sig"]:
            a = ctx.run_model("entry_alloc", [[case["W"], case["radius"]]])[0]
            if isinstance(a, list) and len(a) == 3 and a[2] == 1:
                return "F23"
        return None
    if clause != CHECK_FAIL or _bad(out):
        return None
    key = _attr_key(case, out)
    if key not in _ATTR and case["fn"] == "wrapper" and out.get("k_in") is None:
        _ATTR[key] = None
    if key not in _ATTR:
        view = _kernel_view(case, out)
        m = ctx.run_model("entry_corr", [[view[0], view[1], view[2], view[3]]])[0]
        g = ctx.run_model("entry_geom", [view[2]])[0]
        _ATTR[key] = _decide(view, m, g)
    return _ATTR[key]


def reproduce_finding(ctx, finding):
    case = finding["witness"]
    out = ctx.run_impl([case])[0]
    v = check(ctx, [case], [out])[0]
    return bool(v) and attribute(ctx, case, out, v) == finding["id"]


# ------------------------------------------------------------------------------ cross-check, search, shrink

def kernel_crosscheck(ctx, cases, outs):
    idx = [k for k, c in enumerate(cases) if c["fn"] == "kernel" and not _bad(outs[k])
           and len(c["data"]) * len(c["data"][0]) <= 20 and c["radius"] <= 3][:24]
    args = [[cases[k]["data"], cases[k]["mask"], cases[k]["radius"], cases[k]["percent"]] for k in idx]
    exp = ctx.run_model("entry_corr", args)
    for k, e in zip(idx, exp):
        if not isinstance(e, list) or _diff_where(e[2], outs[k]["out"], e[0]):
            return "extracted model differs from the implementation on case %d" % k, len(idx)
    r = ctx.coq_eval_eq("Spec.MedianSpec", "entry_corr", args, exp, tag="corr", shard=6)
    bad = [k for k, b in zip(idx, r) if b is not True]
    if bad:
        return "vm_compute evaluation of Spec.MedianSpec.entry_corr differs from the extracted program on case %d" % bad[0], len(idx)
    return None, len(idx)


def search_cases(ctx, rnd):
    rng = ctx.rng
    cases = []
    for _ in range(500):
        cases.append(_kernel_case(rng, 16 + 4 * rnd, 8 + 2 * rnd))
    for _ in range(120):
        cases.append(_wrapper_case(rng, 14, 8))
    for _ in range(200):
        cases.append(_broad_case(rng, 14, 8))
    for _ in range(10):
        cases.append(_broad_case(rng, 14, 8, many=True))
    return cases


def shrink_candidates(case):
    if case["fn"] == "wide":
        return
    if case["fn"] == "seq":
        for sc in case["calls"][:2]:
            yield sc
        if len(case["calls"]) > 3:
            c = dict(case); c["calls"] = case["calls"][:3]
            yield c
        return
    d, m = case["data"], case["mask"]
    H, W = len(d), len(d[0])

    nzimg = case.get("nz")

    def mk(dd, mm, **kw):
        c = dict(case); c["data"] = dd; c["mask"] = mm; c.update(kw)
        if nzimg is not None:
            c["nz"] = None              # negative zeros are numerically equal to 0.0
        return c
    if case.get("layout", "C") != "C" or case.get("mask_layout", "C") != "C" or case.get("ptype", "int") != "int":
        yield mk(d, m, layout="C", mask_layout="C", ptype="int")
    if H > 1:
        for cut in (slice(0, H // 2), slice(H // 2, H), slice(0, H - 1), slice(1, H)):
            yield mk(d[cut], None if m is None else m[cut])
    if W > 1:
        for cut in (slice(0, W // 2), slice(W // 2, W), slice(0, W - 1), slice(1, W)):
            yield mk([r[cut] for r in d], None if m is None else [r[cut] for r in m])
    if case["radius"] > 2:
        yield mk(d, m, radius=case["radius"] - 1)
        yield mk(d, m, radius=2)
    if case["percent"] != 50:
        yield mk(d, m, percent=50)
    if m is not None and not all(all(r) for r in m):
        yield mk(d, [[1] * W for _ in range(H)])
    if case["fn"] == "kernel":
        nz = [(i, j) for i in range(H) for j in range(W) if d[i][j] != 0][:12]
        for i, j in nz:
            dd = [list(r) for r in d]; dd[i][j] = 0
            yield mk(dd, m)


MANIFEST = {
    "level_text": (
        "Machine-checked proof (Coq 8.16) about (a) the rank selection of the compiled kernel: for every 256-bin "
        "histogram of k > 0 values and every percent, the coarse-then-fine scan of find_median (with its uint32 "
        "pixels_below arithmetic and a fine histogram that is up to date only in the selected block) returns the "
        "value of 1-based rank max 1 floor((k*percent+50)/100) (find_median_rank, Full); (b) the octagon geometry: "
        "geom(radius) for every radius >= 1, the ten stride coordinates describe exactly the boundary columns of the "
        "octagon, oct(j+1) = oct(j) + lead - trail and the five per-column pieces slide from row to row by the "
        "(-,+) pixels the code removes/adds (Full); (c) the wrapper: with at most 255 distinct masked values "
        "translating the kernel's exact statistic of the ranks gives the exact statistic of the original values "
        "(rank isomorphism, wrapper_exact Full) and under any order-preserving merge the output is a masked input "
        "value of the right level; (d) soundness of the boolean checker that is evaluated on the implementation's "
        "own outputs; (e) the as-is kernel is refuted at radius 1 by a kernel-evaluated witness while the Fixed "
        "variant passes (median_asis_refuted). The sliding invariant of the incremental machinery is Partial: "
        "proved for the geometry and the piece point-sets, the circular-buffer bookkeeping is tied by exact "
        "differential testing of the line-level model (AsIs variant == compiled kernel, Fixed variant == spec)."),
    "level_note": (
        "Trusted: Coq kernel + vm_compute; extraction (ExtrOcamlBasic only) and the S-expression driver; the Python "
        "harness; NumPy semantics of the wrapper as modelled; float->int truncation of the octagon side checked in "
        "Python for radius <= 4096; struct sizes and the C type of memory_size measured/parsed from _filter.cpp. The tie "
        "between model and code is differential, not a proof about C. Known findings, attributed by the model, never "
        "muted: F2 (radius 1: sweeps use the caller's radius) and F23 (SIGSEGV for columns + 2*radius + 1 >= 1573248: "
        "the scratch size is computed into a 32-bit unsigned int and wraps; attributed iff a fork-isolated call crashes "
        "AND Model.MedianAlloc.alloc_wraps holds for its (columns, radius); any other crash is a violation). The "
        "theorems about the kernel carry over to the compiled code only below that threshold "
        "(C07_alloc_size_exact_below) and for rows*columns < 2^31 (int32 strides; beyond: out of the quantifier, resource)."),
    "technique": "Coq proof over executable line-level model + exact differential correspondence (extracted OCaml "
                 "and vm_compute) + verified checker on the implementation's output",
    "design_ref": "DESIGN.md section 7, C07; section 6 F2",
}
