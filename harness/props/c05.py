"""C05 - skeletonize, thin and binary_shrink preserve the topology of every object."""
import importlib.util
import json
import os
import subprocess
import sys

import numpy as np

ID = "C05"
PROPS_FILE = "theories/Props/C05.v"
EXTRACT = ("theories/Extract/XC05.v", "c05",
           ["entry_thin", "entry_shrink", "entry_lookup", "entry_loop", "entry_skel_ord", "entry_order",
            "entry_topo_check"])
PYX = {"_cpmorphology2.pyx": ["skeletonize_loop", "index_lookup", "prepare_for_index_lookup",
                              "extract_from_image_lookup"]}
CASE_TIMEOUT = 60
RULE = ("exhaustive: every binary image of every shape up to 3x3 plus 2x4, 4x2, 1x5, 5x1 and 700 sampled 3x4/4x3/4x4 images "
        "(thorough: all of 3x4, 4x3, 4x4, 3x5, 5x3, 2x5, 5x2) through thin(None), binary_shrink(-1) and skeletonize_loop (current table, a pseudo-random "
        "order per image); random: shapes skewed to 1xN/Nx1/2x2/3x3 up to 26x26 (thorough 40x40), long images 200x3 / "
        "3x200 (thorough 900x3, 3x900, 900x2, 1x900), contents all-0, all-1, noise at densities 0.1-0.98, smooth blobs, "
        "rings / nested rings, lines, 2x2 blocks, border-touching frames, checkerboards, serpentines and spirals "
        "(thorough: up to 56x56); every entry point with every parameter: thin(image, mask, iterations None/-1/0/1/k), "
        "binary_shrink(image, iterations -1/-3/0/1/k), skeletonize(image, mask, ordering), skeletonize_labels, "
        "index_lookup with each of the seven tables, skeletonize_loop with random / raster / reverse orders; input "
        "dtypes bool, uint8, int8, uint16, int32, int64, float32, float64 (foreground value 1, 255 or 0.5) and layouts "
        "C, Fortran, strided view, negative strides, read-only; label images int16/32/64, uint8/16/32 with sparse "
        "numbering, labels sharing edges, labels meeting only at corners (4-connected components, checkerboard blocks, "
        "trominoes with a foreign corner pixel), separated labels, no background, split objects; each label also alone;  sessions = 4-10 calls of mixed entry points in a "
        "FRESH interpreter (lazily built tables, state between calls); all other cases run interleaved in four worker "
        "processes. Non-trivial = at least one pixel removed; distinct by hash of the case")
TRUSTED = [
    "tools/gen_tables_c05.py (dumps the seven tables of the staged package into Gen/TablesC05.v on every run)",
    "modelled, not verified: scipy.ndimage.distance_transform_edt, np.random.permutation tiebreak and np.lexsort "
    "(the order they produce is captured at the skeletonize_loop call and handed to the model; the theorem holds "
    "for every order), color_labels (C15: the colour masks are captured at the per-colour skeletonize_loop calls), "
    "NumPy boolean indexing / dtype conversion in prepare_for_index_lookup / extract_from_image_lookup, and the "
    "mask composition image[~mask] (the harness composes model(image & mask) with the input outside the mask)",
    "completeness of topo_check (it rejects only images whose topology changed) rests on Ronse's theorem on "
    "sequential deletion of simple points in 2-D (C05_topo_check_complete_partial names it as its one hypothesis); "
    "it is cross-checked against a literal component-counting check (scipy.ndimage.label); soundness is proved "
    "(C05_topo_check_sound)",
]
ASSUMPTIONS = ["two-valued input images {0, v}; skeletonize without a mask needs a boolean array (it raises on other "
               "dtypes); label images for skeletonize_labels are non-negative integer arrays",
               "ordering matrices passed to skeletonize have pairwise distinct integer entries"]
EXHAUSTIVE = {"quick": False, "thorough": False}   # exhaustive only over the small shapes named in RULE

_HERE = os.path.dirname(os.path.abspath(__file__))


def _gen_tool():
    p = os.path.join(os.path.dirname(os.path.dirname(_HERE)), "tools", "gen_tables_c05.py")
    spec = importlib.util.spec_from_file_location("gen_tables_c05", p)
    m = importlib.util.module_from_spec(spec)
    spec.loader.exec_module(m)
    return m


def gen_files(ctx):
    return {"theories/Gen/TablesC05.v": _gen_tool().gen(ctx)}


# ------------------------------------------------------------------------------ generators

def _img_from_code(h, w, code):
    return [[(code >> (r * w + c)) & 1 for c in range(w)] for r in range(h)]


def _rand_shape(rng, big):
    u = rng.rand()
    if u < 0.06:
        return 1, int(rng.randint(1, 12))
    if u < 0.12:
        return int(rng.randint(1, 12)), 1
    if u < 0.2:
        return int(rng.choice([2, 3])), int(rng.choice([2, 3]))
    if u < 0.6:
        return int(rng.randint(3, 10)), int(rng.randint(3, 10))
    return int(rng.randint(4, big + 1)), int(rng.randint(4, big + 1))


def _rand_image(rng, big, counter=None, shape=None, kinds=None):
    import scipy.ndimage as ndi
    h, w = shape if shape else _rand_shape(rng, big)
    kind = rng.choice(kinds if kinds else ["zero", "one", "noise", "noise", "noise", "blob", "blob", "ring", "lines",
                                           "blocks", "frame", "checker", "dense", "snake"])
    if kind == "snake" and not shape:   # long winding one-pixel line: needs far more iterations than max(shape)
        h, w = int(rng.randint(7, big + 1)), int(rng.randint(7, big + 1))
    if counter is not None:
        counter("img:" + kind)
    if kind == "zero":
        a = np.zeros((h, w), bool)
    elif kind == "one":
        a = np.ones((h, w), bool)
    elif kind == "noise":
        a = rng.rand(h, w) < rng.choice([0.1, 0.2, 0.3, 0.4, 0.5, 0.6, 0.7, 0.8, 0.9])
    elif kind == "dense":
        a = rng.rand(h, w) < rng.choice([0.9, 0.95, 0.98])
    elif kind == "blob":
        a = ndi.gaussian_filter(rng.rand(h, w), rng.choice([0.7, 1.0, 1.5, 2.5])) > rng.choice([0.45, 0.5, 0.55])
    elif kind == "ring":
        a = np.zeros((h, w), bool)
        for _ in range(int(rng.randint(1, 4))):
            r0, c0 = int(rng.randint(0, h)), int(rng.randint(0, w))
            r1, c1 = int(rng.randint(r0, h)), int(rng.randint(c0, w))
            t = int(rng.randint(1, 3))
            a[r0:r1 + 1, c0:c1 + 1] = True
            if r1 - r0 >= 2 * t and c1 - c0 >= 2 * t:
                a[r0 + t:r1 + 1 - t, c0 + t:c1 + 1 - t] = False
                if rng.rand() < 0.4 and r1 - r0 >= 2 * t + 2 and c1 - c0 >= 2 * t + 2:   # nested object
                    a[r0 + t + 1:r1 - t, c0 + t + 1:c1 - t] = True
    elif kind == "lines":
        a = np.zeros((h, w), bool)
        for _ in range(int(rng.randint(1, 5))):
            if rng.rand() < 0.5:
                a[int(rng.randint(0, h)), :] = True
            else:
                a[:, int(rng.randint(0, w))] = True
            if rng.rand() < 0.5:
                k = min(h, w)
                off = int(rng.randint(0, max(1, max(h, w) - k + 1)))
                for d in range(k):
                    r, c = (d, d + off) if w >= h else (d + off, d)
                    if r < h and c < w:
                        a[r, c] = True
    elif kind == "blocks":
        a = np.zeros((h, w), bool)
        for _ in range(int(rng.randint(1, 6))):
            r, c = int(rng.randint(0, h)), int(rng.randint(0, w))
            a[r:r + 2, c:c + 2] = True
    elif kind == "frame":
        a = np.zeros((h, w), bool)
        a[0, :] = a[-1, :] = True
        a[:, 0] = a[:, -1] = True
        a |= rng.rand(h, w) < rng.choice([0.0, 0.1, 0.3])
    elif kind == "snake":
        a = np.zeros((h, w), bool)
        if rng.rand() < 0.6:       # serpentine: full rows 0,2,4,.. joined alternately right / left
            for r in range(0, h, 2):
                a[r, :] = True
                if r + 1 < h and r + 2 < h:
                    a[r + 1, (w - 1) if (r // 2) % 2 == 0 else 0] = True
        else:                      # rectangular spiral with one-pixel gaps
            t, b, l, r_ = 0, h - 1, 0, w - 1
            while t <= b and l <= r_:
                a[t, l:r_ + 1] = True
                a[t:b + 1, r_] = True
                if b - t >= 2:
                    a[b, l:r_ + 1] = True
                    a[t + 2:b + 1, l] = True
                    if t + 2 <= b and l + 1 <= r_ - 2:
                        a[t + 2, l:l + 2] = True
                t += 2; b -= 2; l += 2; r_ -= 2
        if rng.rand() < 0.3:
            a = a.T.copy(); h, w = w, h
        if rng.rand() < 0.3:
            a = a[::-1].copy()
    else:
        a = (np.add.outer(np.arange(h), np.arange(w)) % 2 == int(rng.randint(0, 2)))
        if rng.rand() < 0.5:
            a = a | (rng.rand(h, w) < 0.15)
    return a.astype(int).tolist(), h, w


def _fg(img):
    return [[r, c] for r, row in enumerate(img) for c, v in enumerate(row) if v]


def _rand_order(rng, img):
    px = _fg(img)
    u = rng.rand()
    if u < 0.15:
        return px
    if u < 0.3:
        return px[::-1]
    rng.shuffle(px)
    return px


def _mk(fn, img, h, w, **kw):
    d = {"fn": fn, "h": h, "w": w, "img": img}
    d.update(kw)
    return d


DTYPES = ["bool", "uint8", "int8", "uint16", "int32", "int64", "float32", "float64"]
LAYOUTS = ["C", "F", "strided", "rev", "ro"]
LABEL_DTYPES = ["int64", "int32", "int16", "uint8", "uint16", "uint32"]


def _variant(rng, case, allow_dtype=True):
    """random dtype / foreground value / memory layout for an image case (most stay plain bool, C)"""
    if allow_dtype and rng.rand() < 0.45:
        dt = str(rng.choice(DTYPES[1:]))
        case["dt"] = dt
        if dt == "uint8" and rng.rand() < 0.4:
            case["val"] = 255
        elif dt.startswith("float") and rng.rand() < 0.4:
            case["val"] = 0.5
    if rng.rand() < 0.45:
        case["lay"] = str(rng.choice(LAYOUTS[1:]))
    return case


def _rand_mask(rng, h, w):
    u = rng.rand()
    if u < 0.2:
        m = np.ones((h, w), bool)
    elif u < 0.3:
        m = np.zeros((h, w), bool)
    elif u < 0.6:
        m = rng.rand(h, w) < rng.choice([0.5, 0.8, 0.95])
    else:                     # a rectangle (or its complement)
        r0, c0 = int(rng.randint(0, h)), int(rng.randint(0, w))
        r1, c1 = int(rng.randint(r0, h)), int(rng.randint(c0, w))
        m = np.zeros((h, w), bool)
        m[r0:r1 + 1, c0:c1 + 1] = True
        if rng.rand() < 0.3:
            m = ~m
    return m.astype(int).tolist()


def _rand_iters(rng, fn):
    u = rng.rand()
    if fn == "thin":
        return None if u < 0.5 else int(rng.choice([-1, 0, 1, 1, 2, 3, 4, 6]))
    return -1 if u < 0.5 else int(rng.choice([-3, 0, 1, 1, 2, 3, 4, 6]))


def _corpus():
    cs = []
    full = [[1] * 3 for _ in range(3)]
    # F3 witness pattern (a plus whose centre must stay), rings, lines, 2x2 block
    plus = [[0, 1, 0], [1, 1, 1], [0, 1, 0]]
    ring = [[1, 1, 1, 1], [1, 0, 0, 1], [1, 0, 0, 1], [1, 1, 1, 1]]
    big = [[1] * 5 for _ in range(5)]
    for img in (full, plus, ring, big, [[1, 1], [1, 1]], [[1]], [[0]], [[1, 1, 1, 1, 1]], [[1], [1], [1]]):
        h, w = len(img), len(img[0])
        cs.append(_mk("thin", img, h, w, it=None))
        cs.append(_mk("shrink", img, h, w, it=-1))
        cs.append(_mk("loop", img, h, w, order=_fg(img)))
        cs.append(_mk("loop", img, h, w, order=_fg(img)[::-1]))
        cs.append(_mk("skel", img, h, w))
    for dt in DTYPES[1:]:
        cs.append(_mk("thin", big, 5, 5, it=None, dt=dt))
        cs.append(_mk("shrink", ring, 4, 4, it=-1, dt=dt))
        cs.append(_mk("skel", big, 5, 5, dt=dt, mask=[[1] * 5 for _ in range(5)]))
    for lay in LAYOUTS[1:]:
        cs.append(_mk("thin", big, 5, 5, it=None, lay=lay))
        cs.append(_mk("shrink", big, 5, 5, it=-1, lay=lay))
        cs.append(_mk("skel", big, 5, 5, lay=lay))
    # labels meeting at a corner only (an L-tromino of label 1 with a pixel of label 2 at its corner), at an edge, apart
    for lab in ([[0, 0, 0, 0, 0], [0, 1, 0, 0, 0], [0, 1, 1, 0, 0], [0, 0, 0, 2, 0], [0, 0, 0, 0, 0]],
                [[0, 0, 0, 0, 0], [0, 1, 2, 0, 0], [0, 1, 1, 2, 0], [0, 0, 0, 0, 0], [0, 0, 0, 0, 0]],
                [[1, 1, 0, 0, 2], [1, 0, 0, 2, 2], [0, 0, 0, 0, 0], [3, 3, 3, 0, 0], [3, 3, 3, 0, 4]],
                [[1, 1, 0, 2, 2], [1, 1, 0, 2, 2], [0, 0, 3, 0, 0], [4, 4, 0, 5, 5], [4, 4, 0, 5, 5]]):
        cs.append({"fn": "labels", "h": 5, "w": 5, "lab": lab, "dt": "int64"})
    for h, w in ((0, 0), (0, 3), (3, 0)):
        img = [[] for _ in range(h)]
        cs.append(_mk("thin", img, h, w, it=None))
        cs.append(_mk("shrink", img, h, w, it=-1))
    cdir = os.path.join(os.path.dirname(os.path.dirname(_HERE)), "corpus", "C05")
    if os.path.isdir(cdir):
        for name in sorted(os.listdir(cdir)):
            if name.endswith(".json"):
                with open(os.path.join(cdir, name)) as f:
                    cs.extend(e["case"] for e in json.load(f)["cases"])
    return cs


def _exhaustive_shapes(ctx):
    shapes = [(h, w) for h in range(1, 4) for w in range(1, 4)] + [(2, 4), (4, 2), (1, 5), (5, 1)]
    if not ctx.quick():
        shapes += [(3, 4), (4, 3), (4, 4), (3, 5), (5, 3), (2, 5), (5, 2)]
    return shapes


def _long_case(rng, n, cnt=None):
    """thin long images: n x 3, 3 x n, n x 2, 1 x n"""
    h, w = [(n, 3), (3, n), (n, 2), (1, n), (n, 3), (3, n)][int(rng.randint(0, 6))]
    kind = str(rng.choice(["noise", "sparse", "one", "snake", "dense"]))
    if cnt:
        cnt("long:%s" % kind)
    if kind == "noise":
        a = rng.rand(h, w) < rng.choice([0.5, 0.7])
    elif kind == "sparse":
        a = rng.rand(h, w) < rng.choice([0.15, 0.3])
    elif kind == "one":
        a = np.ones((h, w), bool)
    elif kind == "dense":
        a = rng.rand(h, w) < 0.93
    else:
        a = np.zeros((h, w), bool)
        if h >= w:
            a[:, 0] = True
            a[::2, :] = True
        else:
            a[0, :] = True
            a[:, ::2] = True
    img = a.astype(int).tolist()
    u = rng.rand()
    if u < 0.4:
        c = _mk("thin", img, h, w, it=None if rng.rand() < 0.6 else int(rng.randint(0, 4)))
    elif u < 0.8:
        # to convergence only where objects are small (the grid model costs O(H*W) per pass)
        c = _mk("shrink", img, h, w, it=-1 if kind == "sparse" else int(rng.randint(0, 5)))
    else:
        c = _mk("loop", img, h, w, order=_rand_order(rng, img))
    return _variant(rng, c)


def _rand_case(rng, fn, big, cnt=None, shape=None, kinds=None):
    img, h, w = _rand_image(rng, big, cnt, shape, kinds)
    if fn in ("thin", "shrink"):
        c = _mk(fn, img, h, w, it=_rand_iters(rng, fn))
        if fn == "thin" and rng.rand() < 0.3:
            c["mask"] = _rand_mask(rng, h, w)
        return _variant(rng, c)
    if fn == "lookup":
        return _variant(rng, _mk(fn, img, h, w, t=int(rng.randint(0, 7)),
                                 it=None if rng.rand() < 0.4 else int(rng.randint(0, 4))))
    if fn == "loop":
        return _mk(fn, img, h, w, order=_rand_order(rng, img))
    if fn in ("skel", "skel_ord"):
        c = _mk(fn, img, h, w)
        if fn == "skel_ord":
            o = rng.permutation(h * w) * int(rng.choice([1, 1, 3])) - int(rng.choice([0, 0, 50]))
            c["ord"] = o.reshape(h, w).tolist()
        if rng.rand() < 0.35:
            c["mask"] = _rand_mask(rng, h, w)
        return _variant(rng, c, allow_dtype="mask" in c)     # without a mask skeletonize needs a bool array
    raise ValueError(fn)


def _rand_labels(rng, big, cnt=None):
    import scipy.ndimage as ndi
    img, h, w = _rand_image(rng, big, cnt)
    a = np.array(img, bool).reshape(h, w)
    u = rng.rand()
    if u < 0.18:      # 4-CONNECTED components (scipy's default structure) of noise: different labels meet at corners
                      # only, never along an edge
        if rng.rand() < 0.7:
            a = rng.rand(h, w) < rng.choice([0.35, 0.5, 0.6, 0.7])
        lab, n = ndi.label(a)
        perm = np.concatenate([[0], rng.permutation(n) + 1 + int(rng.randint(0, 3))])
        lab = perm[lab]
        if cnt:
            cnt("labels:diag-only(4-conn components)")
    elif u < 0.26:    # blocks on a checkerboard: every contact between labels is a corner contact
        bs = int(rng.randint(1, 4))
        ii, jj = np.arange(h)[:, None] // bs, np.arange(w)[None, :] // bs
        lab = np.where((ii + jj) % 2 == 0, 1 + ii * (w // bs + 1) + jj, 0)
        if rng.rand() < 0.5:
            lab = lab * (rng.rand(h, w) < 0.85)
        if cnt:
            cnt("labels:checkerboard blocks")
    elif u < 0.32:    # L-trominoes / small shapes with a foreign pixel at the inner or outer corner
        lab = np.zeros((h, w), np.int64)
        k = 1
        for _ in range(int(rng.randint(1, 5))):
            if h < 3 or w < 3:
                break
            r, c = int(rng.randint(0, h - 2)), int(rng.randint(0, w - 2))
            if lab[r:r + 3, c:c + 3].any():
                continue
            blk = np.array([[k, 0, 0], [k, k, 0], [0, 0, k + 1]]) if rng.rand() < 0.5 else np.array([[k, k, 0], [k, 0, k + 1], [0, 0, 0]])
            blk = np.rot90(blk, int(rng.randint(0, 4)))
            lab[r:r + 3, c:c + 3] = blk
            k += 2
        if cnt:
            cnt("labels:corner contacts (trominoes)")
    elif u < 0.45:    # connected components (4- or 8-connected), randomly renumbered, some numbers absent
        lab, n = ndi.label(a, np.ones((3, 3), bool) if rng.rand() < 0.5 else None)
        perm = np.concatenate([[0], rng.permutation(n) + 1 + int(rng.randint(0, 3))])
        lab = perm[lab]
    elif u < 0.62:    # noise labels: touching objects everywhere (shared edges)
        lab = a * rng.randint(1, int(rng.randint(2, 6)), (h, w))
    elif u < 0.75:    # no background at all: every pixel labelled
        lab = rng.randint(1, int(rng.randint(2, 5)), (h, w))
        if rng.rand() < 0.5:
            lab = 1 + (np.arange(w)[None, :] * 3 // max(w, 1)) + 3 * (np.arange(h)[:, None] * 2 // max(h, 1))
    else:             # split every object by a random vertical / horizontal cut
        lab = a * (1 + (np.arange(w)[None, :] > rng.randint(0, w + 1)) + 2 * (np.arange(h)[:, None] > rng.randint(0, h + 1)))
    lab = np.asarray(lab, np.int64)
    dt = str(rng.choice(LABEL_DTYPES))
    if rng.rand() < 0.35:    # sparse numbering
        top = {"uint8": 255, "int16": 30000}.get(dt, 60000)
        k = max(int(lab.max()), 1)
        lab = np.where(lab > 0, lab * (top // k) - int(rng.randint(0, max(1, top // k))), 0)
    elif dt == "uint8":
        lab = np.minimum(lab, 255)
    c = {"fn": "labels", "h": h, "w": w, "lab": lab.astype(int).tolist(), "dt": dt}
    if rng.rand() < 0.3:
        c["lay"] = str(rng.choice(LAYOUTS[1:]))
    return c


def _session(rng, big, n):
    """n calls of mixed entry points, executed in this order in a fresh interpreter"""
    fns = ["thin", "shrink", "skel", "labels", "lookup", "loop", "skel_ord"]
    calls = []
    for _ in range(n):
        fn = str(rng.choice(fns))
        calls.append(_rand_labels(rng, 10) if fn == "labels" else _rand_case(rng, fn, big))
    return {"fn": "session", "calls": calls}


def generate(ctx):
    rng = ctx.rng
    big = ctx.n(26, 40)
    cases = list(_corpus())
    for h, w in _exhaustive_shapes(ctx):
        for code in range(1 << (h * w)):
            img = _img_from_code(h, w, code)
            cases.append(_mk("thin", img, h, w, it=None))
            cases.append(_mk("shrink", img, h, w, it=-1))
            cases.append(_mk("loop", img, h, w, order=_rand_order(rng, img)))
        ctx.count("exhaustive:%dx%d" % (h, w), 1 << (h * w))
    if ctx.quick():       # a sample of the 3x4 / 4x3 / 4x4 images that are exhaustive in the thorough tier
        for _ in range(700):
            h, w = [(3, 4), (4, 3), (4, 4)][int(rng.randint(0, 3))]
            img = _img_from_code(h, w, int(rng.randint(0, 1 << (h * w))))
            cases.append(_mk("thin", img, h, w, it=None))
            cases.append(_mk("shrink", img, h, w, it=-1))
            cases.append(_mk("loop", img, h, w, order=_rand_order(rng, img)))
        ctx.count("sampled:3x4,4x3,4x4", 700)
    cnt = lambda k: ctx.count(k)
    rnd = []
    for fn, nq, nt in (("thin", 450, 3000), ("shrink", 450, 3000), ("lookup", 250, 2000), ("loop", 350, 3000),
                       ("skel_ord", 140, 1400), ("skel", 140, 1400)):
        for _ in range(ctx.n(nq, nt)):
            rnd.append(_rand_case(rng, fn, big, cnt))
    for _ in range(ctx.n(90, 600)):
        rnd.append(_rand_labels(rng, min(big, 24), cnt))
    for _ in range(ctx.n(14, 70)):
        rnd.append(_long_case(rng, int(rng.choice(ctx.n([120, 200], [300, 900, 900]))), cnt))
    if not ctx.quick():      # larger serpentines / spirals
        for _ in range(10):
            s = int(rng.randint(44, 57))
            rnd.append(_rand_case(rng, str(rng.choice(["thin", "shrink", "shrink", "skel"])), big, cnt,
                                  shape=(s, int(rng.randint(44, 57))), kinds=["snake"]))
    for _ in range(ctx.n(6, 40)):
        rnd.append(_session(rng, min(big, 16), int(rng.randint(4, 11))))
    order = rng.permutation(len(rnd))       # alternate the entry points inside every worker process
    cases.extend(rnd[k] for k in order)
    for c in cases:
        ctx.count("fn:" + c["fn"])
        if c.get("dt", "bool") != "bool":
            ctx.count("dtype:" + c["dt"])
        if c.get("lay", "C") != "C":
            ctx.count("layout:" + c["lay"])
        if "mask" in c:
            ctx.count("masked:" + c["fn"])
    return cases


# ------------------------------------------------------------------------------ implementation

_CAP = {}


def _table():
    """the removal table skeletonize builds, captured at its skeletonize_loop call"""
    if "t" not in _CAP:
        from centrosome import cpmorphology as M
        orig = M.skeletonize_loop
        got = {}

        def spy(result, i, j, order, table):
            got["t"] = np.array(table).copy()
            return orig(result, i, j, order, table)
        M.skeletonize_loop = spy
        try:
            M.skeletonize(np.ones((3, 3), bool))
        finally:
            M.skeletonize_loop = orig
        _CAP["t"] = np.ascontiguousarray(got["t"], np.uint8)
    return _CAP["t"]


def _tables7():
    from centrosome import cpmorphology as M
    if M.thin_table is None or M.binary_shrink_ulr_table is None:
        z = np.zeros((3, 3), bool)
        M.thin(z, iterations=1)
        M.binary_shrink(z)
    return [_table().astype(bool), M.thin_table[0], M.thin_table[1], M.binary_shrink_ulr_table,
            M.binary_shrink_urb_table, M.binary_shrink_lrl_table, M.binary_shrink_llt_table]


def _layout(a, lay):
    if a.size == 0 or lay == "C":
        return np.ascontiguousarray(a)
    if lay == "F":
        return np.asfortranarray(a)
    if lay == "strided":
        bigarr = np.zeros((2 * a.shape[0] + 1, 3 * a.shape[1] + 2), a.dtype)
        bigarr[1::2, 1::3][:a.shape[0], :a.shape[1]] = a
        return bigarr[1::2, 1::3][:a.shape[0], :a.shape[1]]
    if lay == "rev":
        return np.ascontiguousarray(a[::-1, ::-1])[::-1, ::-1]
    if lay == "ro":
        b = np.ascontiguousarray(a).copy()
        b.setflags(write=False)
        return b
    raise ValueError(lay)


def _arr(case):
    a = np.array(case["img"], bool).reshape(case["h"], case["w"])
    dt = case.get("dt", "bool")
    if dt != "bool":
        a = (a.astype(np.float64) * case.get("val", 1)).astype(dt)
    return _layout(a, case.get("lay", "C"))


def _mask(case):
    return np.array(case["mask"], bool).reshape(case["h"], case["w"]) if "mask" in case else None


def _g(a):
    return (np.asarray(a) != 0).astype(int).tolist()


def _impl1(case):
    from centrosome import cpmorphology as M
    from centrosome import _cpmorphology2 as K
    fn = case["fn"]
    if fn == "session":
        code = ("import sys, json\nfrom harness.props import c05 as P\ncalls = json.load(sys.stdin)\n"
                "json.dump([P._impl_safe(c) for c in calls], sys.stdout, default=P._js)\n")
        r = subprocess.run([sys.executable, "-W", "ignore", "-c", code], input=json.dumps(case["calls"]),
                           capture_output=True, text=True, timeout=50)
        if r.returncode != 0:
            raise RuntimeError("session interpreter failed: " + r.stderr[-300:])
        return {"outs": json.loads(r.stdout)}
    if fn == "labels":
        lab = _layout(np.array(case["lab"], np.int64).reshape(case["h"], case["w"]).astype(case.get("dt", "int64")),
                      case.get("lay", "C"))
        keep = np.array(lab).copy()
        calls = []
        orig = M.skeletonize_loop

        def spy(result, i, j, order, table):
            c = {"mask": _g(result), "order": [[int(i[k]), int(j[k])] for k in order]}
            r = orig(result, i, j, order, table)
            c["res"] = _g(result)
            calls.append(c)
            return r
        M.skeletonize_loop = spy
        try:
            out = M.skeletonize_labels(lab)
        finally:
            M.skeletonize_loop = orig
        # "each label separately, without labels influencing each other", literally: erase all other labels, run
        # skeletonize_labels again; label k's pixels must be the same in both outputs (up to 6 labels per case)
        ks = np.unique(keep[keep > 0]).tolist()
        if len(ks) > 6:
            ks = [ks[int(round(x))] for x in np.linspace(0, len(ks) - 1, 6)]
        alone = []
        for k in ks:
            o1 = M.skeletonize_labels(np.where(keep == k, keep, 0).astype(keep.dtype))
            alone.append([int(k), _g(np.asarray(o1) == k)])
        return {"out": np.asarray(out).astype(np.int64).tolist(), "input_unchanged": bool((lab == keep).all()),
                "calls": calls, "dtype": str(np.asarray(out).dtype), "shape": list(np.asarray(out).shape),
                "alone": alone}
    a = _arr(case)
    a0 = np.array(a).copy()
    mask = _mask(case)
    m0 = None if mask is None else mask.copy()
    if fn == "thin":
        out = M.thin(a, mask, case["it"]) if mask is not None else M.thin(a, iterations=case["it"])
        r = {"out": _g(out)}
        if case["it"] is None:
            r["again"] = _g(M.thin(out, mask, None) if mask is not None else M.thin(out, iterations=None))
    elif fn == "shrink":
        out = M.binary_shrink(a, iterations=case["it"])
        r = {"out": _g(out)}
        if case["it"] == -1:
            r["again"] = _g(M.binary_shrink(out))
    elif fn == "lookup":
        table = _tables7()[case["t"]]
        ii, jj, im = K.prepare_for_index_lookup(a, False)
        ii, jj = K.index_lookup(ii, jj, im, table, case["it"])
        out = K.extract_from_image_lookup(a, ii, jj)
        r = {"out": _g(out), "idx": [[int(x) - 1, int(y) - 1] for x, y in zip(ii, jj)],
             "padded": _g(im[1:-1, 1:-1]) if a.size else []}
    elif fn == "loop":
        table = _table()
        pix = _fg(case["img"])
        pos = {tuple(p): k for k, p in enumerate(pix)}
        i = np.ascontiguousarray([p[0] for p in pix], np.int32)
        j = np.ascontiguousarray([p[1] for p in pix], np.int32)
        order = np.ascontiguousarray([pos[tuple(p)] for p in case["order"]], np.int32)
        out = np.ascontiguousarray(a != 0, np.uint8)
        K.skeletonize_loop(out, i, j, order, table)
        r = {"out": _g(out), "raw_max": int(out.max()) if out.size else 0}
        out = out.astype(a.dtype)
    elif fn in ("skel", "skel_ord"):
        got = {}
        orig = M.skeletonize_loop

        def spy(result, i, j, order, table):
            got["order"] = [[int(i[k]), int(j[k])] for k in order]
            return orig(result, i, j, order, table)
        M.skeletonize_loop = spy
        try:
            kw = {}
            if mask is not None:
                kw["mask"] = mask
            if fn == "skel_ord":
                kw["ordering"] = np.array(case["ord"], int).reshape(case["h"], case["w"])
            out = M.skeletonize(a, **kw)
        finally:
            M.skeletonize_loop = orig
        r = {"out": _g(out), "order": got.get("order")}
    else:
        raise ValueError(fn)
    out = np.asarray(out)
    r["dtype"] = str(out.dtype)
    r["shape"] = list(out.shape)
    if fn in ("thin", "shrink", "lookup") and out.size:
        r["vals_ok"] = bool((out[out != 0] == a0[out != 0]).all())
    r["input_unchanged"] = bool((np.asarray(a) == a0).all() and (m0 is None or (mask == m0).all()))
    return r


def _js(o):
    if isinstance(o, np.ndarray):
        return o.tolist()
    if isinstance(o, np.integer):
        return int(o)
    if isinstance(o, np.floating):
        return float(o)
    if isinstance(o, np.bool_):
        return bool(o)
    return str(o)


def _impl_safe(case):
    try:
        return _impl1(case)
    except BaseException as e:      # noqa: same mapping as harness/worker.py
        if isinstance(e, (KeyboardInterrupt, SystemExit)):
            raise
        return {"exc": type(e).__name__, "msg": str(e)[:300]}


# -- parallel implementation workers -----------------------------------------------------------------------------
# harness/worker.py calls impl(case) for the cases of its input file one after the other.  impl() looks ahead in
# that file and evaluates the next batch in a pool of forked worker processes (each has the staged package
# imported; consecutive cases go to different processes, so every process sees the entry points interleaved).
# Any trouble (a child dies or hangs, the case stream is not the file's) switches to plain sequential evaluation,
# so the core's localisation of crashes and hangs keeps working.
_PRE = {"cases": None, "pos": 0, "res": {}, "pool": None, "off": False}
_WORKERS = 4


def _cost(c):
    fn = c["fn"]
    if fn == "session":
        return 1.0 + 0.05 * len(c["calls"])
    if fn == "labels":
        return 0.4
    if fn in ("skel", "skel_ord"):
        return 0.04
    return 0.0006 + 2e-6 * c["h"] * c["w"]


def _pool_off():
    _PRE["off"] = True
    p = _PRE["pool"]
    _PRE["pool"] = None
    if p is not None:
        try:
            for pr in list(getattr(p, "_processes", {}).values()):
                pr.kill()
            p.shutdown(wait=False, cancel_futures=True)
        except Exception:
            pass


def _lookahead(case):
    st = _PRE
    if st["off"]:
        return None
    try:
        if st["cases"] is None:
            ok = len(sys.argv) >= 5 and sys.argv[2] == "impl" and os.path.basename(sys.argv[3]).startswith("in_")
            if not ok:
                st["off"] = True
                return None
            with open(sys.argv[3]) as f:
                st["cases"] = json.load(f)
            if len(st["cases"]) < 64:
                st["off"] = True
                return None
        k = st["pos"]
        if k >= len(st["cases"]) or st["cases"][k] != case:
            _pool_off()
            return None
        if k not in st["res"]:
            import multiprocessing
            from concurrent.futures import ProcessPoolExecutor
            if st["pool"] is None:
                st["pool"] = ProcessPoolExecutor(_WORKERS, mp_context=multiprocessing.get_context("fork"))
            batch, cost = [], 0.0
            while k + len(batch) < len(st["cases"]) and cost < 16.0 and len(batch) < 20000:
                c = st["cases"][k + len(batch)]
                batch.append(c)
                cost += _cost(c)
            st["res"] = {}
            chunk = max(1, min(64, len(batch) // (4 * _WORKERS)))
            for n, r in enumerate(st["pool"].map(_impl_safe, batch, timeout=40, chunksize=chunk)):
                st["res"][k + n] = r
        st["pos"] = k + 1
        return st["res"].pop(k)
    except BaseException as e:
        if isinstance(e, (KeyboardInterrupt, SystemExit)):
            raise
        _pool_off()
        return None


def impl(case):
    r = _lookahead(case)
    if r is None:
        _PRE["pos"] += 1
        return _impl1(case)
    return r


def _bad(o):
    return (not isinstance(o, dict)) or "exc" in o or "crash" in o


# ------------------------------------------------------------------------------ model

def _flag(it):
    return [0, 0] if it is None else [1, int(it)]


def _prun(ctx, entry, args, chunk=20000, workers=4):
    """ctx.run_model in chunks on a few threads (each chunk is one run of the extracted program)"""
    if len(args) <= 2000:
        return ctx.run_model(entry, args)
    from concurrent.futures import ThreadPoolExecutor
    chunk = min(chunk, -(-len(args) // workers))
    parts = [args[s:s + chunk] for s in range(0, len(args), chunk)]
    with ThreadPoolExecutor(workers) as ex:
        outs = list(ex.map(lambda a: ctx.run_model(entry, a), parts))
    return [r for o in outs for r in o]


def _eff(case):
    """the image the kernels actually process: image & mask"""
    if "mask" not in case:
        return case["img"]
    return [[int(bool(v) and bool(m)) for v, m in zip(r, mr)] for r, mr in zip(case["img"], case["mask"])]


def _expect(case, grid):
    """compose the model's result inside the mask with the input outside"""
    if "mask" not in case or grid is None:
        return grid
    return [[(g if m else int(bool(v))) for g, m, v in zip(gr, mr, r)]
            for gr, mr, r in zip(grid, case["mask"], case["img"])]


def _atoms(cases, outs):
    """flatten sessions: [(case index, position in session | None, case, out)]"""
    res = []
    for k, (c, o) in enumerate(zip(cases, outs)):
        if c["fn"] == "session":
            if _bad(o):
                continue
            for n, (sc, so) in enumerate(zip(c["calls"], o["outs"])):
                res.append((k, n, sc, so))
        else:
            res.append((k, None, c, o))
    return res


def _model_atoms(ctx, atoms):
    res = [None] * len(atoms)
    groups = {}
    for a, (_, _, c, o) in enumerate(atoms):
        fn = c["fn"]
        if fn == "labels":
            # one skeletonize_loop call per colour: mask and processing order as the code built them;
            # and label by label: the loop on the label ALONE (same order restricted to it)
            if not _bad(o):
                lab = np.array(c["lab"], np.int64).reshape(c["h"], c["w"])
                res[a] = {"calls": [None] * len(o.get("calls", [])), "alone": []}
                for n, call in enumerate(o.get("calls", [])):
                    groups.setdefault("entry_loop", []).append(((a, "calls", n), [c["h"], c["w"], call["mask"], call["order"]]))
                    cm = np.array(call["mask"], bool).reshape(lab.shape)
                    for lv in np.unique(lab[cm]).tolist():
                        one = (lab == lv)
                        ordl = [p for p in call["order"] if one[p[0], p[1]]]
                        res[a]["alone"].append([lv, n, None])
                        groups.setdefault("entry_loop", []).append(
                            ((a, "alone", len(res[a]["alone"]) - 1), [c["h"], c["w"], one.astype(int).tolist(), ordl]))
            continue
        base = [c["h"], c["w"], _eff(c)]
        if fn == "thin":
            groups.setdefault("entry_thin", []).append((a, base + _flag(c["it"])))
        elif fn == "shrink":
            groups.setdefault("entry_shrink", []).append((a, base + [int(c["it"])]))
        elif fn == "lookup":
            groups.setdefault("entry_lookup", []).append((a, base + [c["t"]] + _flag(c["it"])))
        elif fn == "loop":
            groups.setdefault("entry_loop", []).append((a, base + [c["order"]]))
        elif fn == "skel_ord":
            groups.setdefault("entry_skel_ord", []).append((a, base + [c["ord"]]))
            groups.setdefault("entry_order", []).append(((a, "order"), base + [c["ord"]]))
        elif fn == "skel":
            if not _bad(o) and o.get("order") is not None:
                groups.setdefault("entry_loop", []).append((a, base + [o["order"]]))
    for entry, items in groups.items():
        for (key, _), r in zip(items, _prun(ctx, entry, [x for _, x in items])):
            if not isinstance(key, tuple):
                if isinstance(res[key], dict):
                    res[key]["grid"] = r
                else:
                    res[key] = r
            elif key[1] == "order":
                if not isinstance(res[key[0]], dict):
                    res[key[0]] = {"grid": res[key[0]]}
                res[key[0]]["order"] = r
            elif key[1] == "calls":
                res[key[0]]["calls"][key[2]] = r
            else:
                res[key[0]]["alone"][key[2]][2] = r
    return res


def model(ctx, cases, outs):
    atoms = _atoms(cases, outs)
    mres = _model_atoms(ctx, atoms)
    res = [None] * len(cases)
    for (k, n, _, _), m in zip(atoms, mres):
        if n is None:
            res[k] = m
        else:
            if res[k] is None:
                res[k] = [None] * len(cases[k]["calls"])
            res[k][n] = m
    return res


def _expected_dtype(case):
    fn = case["fn"]
    if fn in ("thin", "shrink", "lookup"):
        return {"bool": "bool"}.get(case.get("dt", "bool"), case.get("dt", "bool"))
    if fn in ("skel", "skel_ord"):
        return "bool"
    return None


def _compare1(case, out, m):
    fn = case["fn"]
    if _bad(out):
        return "implementation raised/crashed: %s" % (str(out)[:300],)
    if out.get("shape") is not None and out["shape"] != [case["h"], case["w"]]:
        return "%s: output shape %s differs from the input shape" % (fn, out["shape"])
    if fn == "labels":
        lab = np.array(case["lab"], np.int64).reshape(case["h"], case["w"])
        if out["dtype"] != case.get("dt", "int64"):
            return "skeletonize_labels: output dtype %s for input dtype %s" % (out["dtype"], case.get("dt", "int64"))
        exp = np.zeros(lab.shape, np.int64)
        seen = np.zeros(lab.shape, bool)
        ress = []
        for call, mm in zip(out["calls"], (m or {}).get("calls", [])):
            if mm != [call["res"]]:
                return "skeletonize_labels: a per-colour skeletonize_loop call differs from the model"
            mask = np.array(call["mask"], bool).reshape(lab.shape)
            if (mask & seen).any() or (mask & (lab == 0)).any():
                return "skeletonize_labels: colour masks overlap or cover unlabelled pixels"
            seen |= mask
            r = np.array(call["res"], bool).reshape(lab.shape)
            ress.append(r)
            exp[r] = lab[r]
        if lab.max(initial=0) > 0 and not (seen == (lab > 0)).all():
            return "skeletonize_labels: the colour masks do not cover the labelled pixels"
        if exp.tolist() != out["out"] and lab.max(initial=0) > 0:
            return "skeletonize_labels output is not the relabelled union of the per-colour skeletons"
        # labels do not influence each other: each label's part equals the loop run on that label alone
        for lv, n, mm in (m or {}).get("alone", []):
            if mm != [(ress[n] & (lab == lv)).astype(int).tolist()]:
                return "skeletonize_labels: label %d is not skeletonized as it would be alone (same order)" % lv
        return None
    want = _expected_dtype(case)
    if want and out.get("dtype") != want:
        return "%s: output dtype %s, expected %s" % (fn, out.get("dtype"), want)
    if out.get("vals_ok") is False:
        return "%s: surviving pixels do not carry their input values" % fn
    if fn == "skel_ord":
        if m is None or m.get("order") != out["order"]:
            return "processing order differs: impl %s model %s" % (str(out["order"])[:120], str((m or {}).get("order"))[:120])
        m = m.get("grid")
    if m is None or m == []:
        return "no model output (skeletonize did not reach skeletonize_loop / malformed grid)"
    exp = _expect(case, m[0])
    if exp != out["out"]:
        return "%s output differs from the model: impl %s model %s" % (fn, str(out["out"])[:160], str(exp)[:160])
    if fn == "lookup":
        if out["idx"] != _fg(out["out"]):
            return "index_lookup's surviving index list is not the raster list of the surviving pixels"
        if out["padded"] != out["out"]:
            return "index_lookup's in-place image differs from the surviving index list"
    if fn == "loop" and out["raw_max"] > 1:
        return "skeletonize_loop wrote a value other than 0/1"
    return None


def compare(case, out, m):
    if case["fn"] != "session":
        return _compare1(case, out, m)
    if _bad(out):
        return "session raised/crashed: %s" % (str(out)[:300],)
    for n, (sc, so) in enumerate(zip(case["calls"], out["outs"])):
        d = _compare1(sc, so, (m or [None] * len(case["calls"]))[n])
        if d:
            return "call %d of a fresh-interpreter session (%s): %s" % (n, "/".join(c["fn"] for c in case["calls"]), d)
    return None


# ------------------------------------------------------------------------------ checker

_E8 = np.ones((3, 3), bool)


def topo_cc(a, b):
    """literal reading of the property with scipy.ndimage.label (untrusted second opinion)"""
    import scipy.ndimage as ndi
    a = np.asarray(a, bool)
    b = np.asarray(b, bool)
    if a.shape != b.shape:
        return "shape changed"
    if a.size == 0:
        return None
    if (b & ~a).any():
        return "output is not a subset of the input"
    la, na = ndi.label(a, _E8)
    lb, nb = ndi.label(b, _E8)
    if na != nb:
        return "number of 8-connected components %d -> %d" % (na, nb)
    if nb:
        first = np.unique(lb[b], return_index=True)[1]
        if len(set(la[b][first].tolist())) != na:
            return "some input component does not contain exactly one output component"
    pa = np.pad(~a, 1, constant_values=True)
    pb = np.pad(~b, 1, constant_values=True)
    ha, ma = ndi.label(pa)
    hb, mb = ndi.label(pb)
    if ma != mb:
        return "number of holes %d -> %d" % (ma - 1, mb - 1)
    first = np.unique(ha[pa], return_index=True)[1]
    if len(set(hb[pa][first].tolist())) != mb:
        return "holes of input and output do not correspond one to one"
    return None


def _hole_free_not_point(a, s):
    """binary_shrink to convergence: every hole-free object must end as exactly one pixel"""
    import scipy.ndimage as ndi
    a = np.asarray(a, bool)
    s = np.asarray(s, bool)
    if a.size == 0:
        return None
    la, na = ndi.label(a, _E8)
    if na == 0:
        return None
    for k, sl in enumerate(ndi.find_objects(la), 1):
        comp = la[sl] == k
        if (ndi.binary_fill_holes(comp) & ~comp).any():
            continue
        n = int((s[sl] & comp).sum())
        if n != 1:
            return "hole-free object %d is left with %d pixels by binary_shrink run to convergence" % (k, n)
    return None


def _check_atoms(ctx, atoms):
    res = [None] * len(atoms)
    extra = {}         # clauses beyond topology (reported only when the topology verdict is clean)
    jobs = []          # (atom index, H, W, before, after, what)
    for k, (_, _, c, o) in enumerate(atoms):
        if _bad(o):
            res[k] = "implementation raised/crashed on a valid input: %s" % (str(o)[:300],)
            continue
        h, w = c["h"], c["w"]
        if not o.get("input_unchanged", True):
            res[k] = "the call modified its input array"
            continue
        if c["fn"] == "labels":
            lab = np.array(c["lab"], np.int64).reshape(h, w)
            out = np.array(o["out"], np.int64).reshape(-1)
            if out.shape[0] != h * w:
                res[k] = "output shape differs from the input shape"
                continue
            out = out.reshape(h, w)
            if ((out != 0) & (out != lab)).any():
                res[k] = "skeletonize_labels output carries a label where the input has a different one"
                continue
            for lv in np.unique(lab[lab > 0]).tolist():
                jobs.append((k, h, w, (lab == lv).astype(int).tolist(), (out == lv).astype(int).tolist(),
                             "label %d" % lv))
            for lv, g1 in o.get("alone", []):
                if (out == lv).astype(int).tolist() != g1:
                    extra[k] = ("label %d is skeletonized differently when the other labels are erased: the labels "
                                "influence each other (with: %s alone: %s)" % (lv, (out == lv).astype(int).tolist(), g1))
                    break
            continue
        if c["fn"] == "lookup" and c["t"] == 0:
            continue      # the skeletonize table applied synchronously is outside the property
        if np.array(o["out"]).reshape(-1).shape[0] != h * w:
            res[k] = "output shape differs from the input shape"
            continue
        before, after = _eff(c), o["out"]
        if "mask" in c:
            outside = [[(not m) and (int(bool(v)) != g) for v, m, g in zip(r, mr, gr)]
                       for r, mr, gr in zip(c["img"], c["mask"], o["out"])]
            if any(any(r) for r in outside):
                res[k] = "%s changed pixels outside the mask" % c["fn"]
                continue
            after = [[int(g and m) for g, m in zip(gr, mr)] for gr, mr in zip(o["out"], c["mask"])]
        jobs.append((k, h, w, before, after, c["fn"]))
        if "again" in o and o["again"] != o["out"]:
            extra[k] = "%s run to convergence is not idempotent" % c["fn"]
        elif c["fn"] == "shrink" and c["it"] == -1:
            extra[k] = _hole_free_not_point(np.array(before, bool).reshape(h, w), np.array(o["out"], bool).reshape(h, w))
    verdicts = _prun(ctx, "entry_topo_check", [[h, w, a, b] for (_, h, w, a, b, _) in jobs]) if jobs else []
    for n, ((k, h, w, a, b, what), v) in enumerate(zip(jobs, verdicts)):
        if res[k] is not None:
            continue
        # second opinion (literal component counting): always when the verified checker rejects and on every
        # larger image; on the exhaustive tiny images (h*w <= 16) on one case in eight
        if v == 1 and h * w <= 16 and n % 8:
            continue
        cc = topo_cc(np.array(a, bool).reshape(h, w), np.array(b, bool).reshape(h, w))
        if v != 1:
            res[k] = "%s: topology not preserved (verified checker Spec.TopoCheck.topo_check = false%s)" % (
                what, "; " + cc if cc else "; NOTE: the component-counting check sees no change")
        elif cc:
            res[k] = "%s: %s (component-counting check; topo_check accepted - checker inconsistency)" % (what, cc)
    for k, v in extra.items():
        if res[k] is None and v:
            res[k] = v
    return res


def check(ctx, cases, outs):
    res = [None] * len(cases)
    for k, (c, o) in enumerate(zip(cases, outs)):
        if c["fn"] == "session" and _bad(o):
            res[k] = "session raised/crashed: %s" % (str(o)[:300],)
    atoms = _atoms(cases, outs)
    for (k, n, _, _), v in zip(atoms, _check_atoms(ctx, atoms)):
        if v and res[k] is None:
            res[k] = v if n is None else "call %d of a fresh-interpreter session: %s" % (n, v)
    return res


def _nontrivial1(case, out):
    if _bad(out):
        return False
    if case["fn"] == "labels":
        return out["out"] != case["lab"]
    return out["out"] != [[int(bool(v)) for v in r] for r in case["img"]]


def nontrivial(case, out):
    if case["fn"] == "session":
        return (not _bad(out)) and any(_nontrivial1(c, o) for c, o in zip(case["calls"], out["outs"]))
    return _nontrivial1(case, out)


def kernel_crosscheck(ctx, cases, outs):
    total = 0
    plan = [("thin", "entry_thin", 14), ("shrink", "entry_shrink", 12), ("loop", "entry_loop", 12),
            ("lookup", "entry_lookup", 8), ("skel_ord", "entry_skel_ord", 6)]
    rng = np.random.RandomState(ctx.seed + 5)
    for fn, entry, n in plan:
        idx = [k for k, c in enumerate(cases) if c["fn"] == fn and not _bad(outs[k]) and 6 <= c["h"] * c["w"] <= 64
               and "mask" not in c and _nontrivial1(c, outs[k])]
        if len(idx) > n:
            idx = sorted(rng.choice(idx, n, replace=False).tolist())
        args = []
        for k in idx:
            c = cases[k]
            base = [c["h"], c["w"], c["img"]]
            args.append(base + {"thin": lambda: _flag(c["it"]), "shrink": lambda: [int(c["it"])],
                                "loop": lambda: [c["order"]], "lookup": lambda: [c["t"]] + _flag(c["it"]),
                                "skel_ord": lambda: [c["ord"]]}[fn]())
        exp = [[outs[k]["out"]] for k in idx]
        r = ctx.coq_eval_eq("Model.ThinSkel", entry, args, exp, tag=fn)
        total += len(idx)
        bad = [k for k, b in zip(idx, r) if b is not True]
        if bad:
            return "vm_compute evaluation of Model.ThinSkel.%s differs from the implementation on case %d" % (entry, bad[0]), total
    # the checker itself: accepted pairs inside the kernel
    idx = [k for k, c in enumerate(cases) if c["fn"] in ("thin", "shrink") and not _bad(outs[k]) and "mask" not in c
           and 6 <= c["h"] * c["w"] <= 49 and _nontrivial1(c, outs[k])][:8]
    args = [[cases[k]["h"], cases[k]["w"], cases[k]["img"], outs[k]["out"]] for k in idx]
    r = ctx.coq_eval_eq("Spec.TopoCheck", "entry_topo_check", args, [1] * len(idx), tag="chk")
    total += len(idx)
    bad = [k for k, b in zip(idx, r) if b is not True]
    if bad:
        return "vm_compute evaluation of Spec.TopoCheck.entry_topo_check rejects case %d" % bad[0], total
    return None, total


def search_cases(ctx, rnd):
    rng = ctx.rng
    cases = []
    if rnd == 0:       # exhaustive small images first: a wrong table bit shows on a 3x3..4x4 image
        for h, w in [(3, 3), (3, 4), (4, 3), (4, 4)]:
            for code in range(1 << (h * w)):
                img = _img_from_code(h, w, code)
                cases.append(_mk("thin", img, h, w, it=None))
                cases.append(_mk("shrink", img, h, w, it=-1))
                cases.append(_mk("loop", img, h, w, order=_rand_order(rng, img)))
        return cases
    for _ in range(1200):
        for fn in ("thin", "shrink", "loop", "lookup"):
            cases.append(_rand_case(rng, fn, 30))
        if rng.rand() < 0.15:
            cases.append(_rand_case(rng, str(rng.choice(["skel", "skel_ord"])), 30))
        if rng.rand() < 0.05:
            cases.append(_rand_labels(rng, 20))
    for _ in range(250):
        cases.append(_rand_labels(rng, 14))
    for _ in range(6):
        cases.append(_session(rng, 14, 8))
    return cases


def _drop(m, axis, k):
    if axis == 0:
        return [r for n, r in enumerate(m) if n != k]
    return [[v for n, v in enumerate(r) if n != k] for r in m]


def shrink_candidates(case):
    if case["fn"] == "session":
        calls = case["calls"]
        for c in calls:             # a single call in the (long-lived) worker
            yield c
        if len(calls) > 1:
            for k in range(len(calls)):
                yield {"fn": "session", "calls": calls[:k] + calls[k + 1:]}
        return
    # plain variant first
    if any(k in case for k in ("dt", "lay", "val")):
        yield {k: v for k, v in case.items() if k not in ("dt", "lay", "val")}
    if "mask" in case and case["fn"] != "labels":
        d = dict(case)
        d["img"] = _eff(case)
        del d["mask"]
        if d["fn"] in ("skel", "skel_ord"):
            d.pop("dt", None)
            d.pop("val", None)
        yield d
    h, w = case["h"], case["w"]
    key = "lab" if case["fn"] == "labels" else "img"
    m = case[key]

    def rebuild(m2, h2, w2, axis=None, k=None):
        d = dict(case)
        d.update({"h": h2, "w": w2, key: m2})
        if case["fn"] == "loop":
            o = []
            for r, c in case["order"]:
                if axis == 0:
                    if r == k:
                        continue
                    r = r - 1 if r > k else r
                elif axis == 1:
                    if c == k:
                        continue
                    c = c - 1 if c > k else c
                if m2[r][c]:
                    o.append([r, c])
            d["order"] = o
        if axis is not None:
            if case["fn"] == "skel_ord":
                d["ord"] = _drop(case["ord"], axis, k)
            if "mask" in case:
                d["mask"] = _drop(case["mask"], axis, k)
        return d
    if h > 1:
        for k in ([0, h - 1] + list(range(1, h - 1)))[:8]:
            yield rebuild(_drop(m, 0, k), h - 1, w, 0, k)
    if w > 1:
        for k in ([0, w - 1] + list(range(1, w - 1)))[:8]:
            yield rebuild(_drop(m, 1, k), h, w - 1, 1, k)
    n = 0
    for r in range(h):
        for c in range(w):
            if m[r][c] and n < 40:
                n += 1
                m2 = [list(x) for x in m]
                m2[r][c] = 0
                yield rebuild(m2, h, w)


MANIFEST = {
    "level_text": (
        "Machine-checked proof (Coq 8.16, closed under the global context) that the executable Gallina models of "
        "thin, binary_shrink, index_lookup (synchronous table passes, the code's iteration/break structure), "
        "skeletonize_loop (sequential in-place removal, row-0 quirk, unconditional centre bit) and of "
        "skeletonize(ordering=M) preserve the topology relation TopoEq (subset; one output component in every "
        "input component; holes in one-to-one correspondence) for every image size, every image, every iteration "
        "count and every processing order, on the seven 512-entry tables that a translator dumps from the staged "
        "package on every run: the kernel re-runs the 512-pattern simple-point sweep (skeletonize table) and the "
        "pruned 4x5-window sweep (six pass tables) whenever a table bit changes. Also proved: convergence and "
        "idempotence of thin / binary_shrink run to convergence, equal component / hole counts from TopoEq, "
        "per-label independence of skeletonize_labels over the colouring model, that the topology relation restricts to "
        "every single object (so the Euler number of every object is preserved), and that binary_shrink run to "
        "convergence reduces every hole-free object of any image to exactly one pixel (end-pixel lemma: kernel sweeps + "
        "a crossing-parity Jordan argument + induction on the last raster pixel); every clause of the property text has "
        "its own for-all theorem (subset, component / hole counts, per object, idempotence, loop bound, shrink to a "
        "point, per-label). The models are tied to the code by exact equality of complete outputs (exhaustively on "
        "all small images, plus random images over every dtype, layout, mask, ordering and iteration parameter, long "
        "images, fresh-interpreter call sequences) with the extracted models cross-checked against vm_compute, and "
        "the verified checker topo_check (soundness proved) is evaluated on every output."),
    "level_note": (
        "Trusted: Coq kernel + vm_compute; extraction (ExtrOcamlBasic only) and the S-expression driver; the table "
        "translator tools/gen_tables_c05.py; the Python harness; scipy's EDT / NumPy's lexsort and permutation (only "
        "choose the processing order, which the theorem quantifies over); color_labels. The tie between model and "
        "code is differential, not a proof about Python/C++. One global digital-topology lemma is named as the "
        "hypothesis of a _partial theorem (Ronse's deletability theorem, for completeness of topo_check only; proved "
        "for the targets binary_shrink produces, validated exhaustively on small images outside Coq in general); "
        "soundness of the checker is proved."),
    "technique": "Coq proof over executable model (kernel-run finite sweeps on regenerated tables, lifted to all images) "
                 "+ exact differential correspondence (extracted OCaml and vm_compute) + verified checker on outputs",
    "design_ref": "DESIGN.md section 7, C05",
}
