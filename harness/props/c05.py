"""C05 - skeletonize, thin and binary_shrink preserve the topology of every object."""
import importlib.util
import itertools
import os

import numpy as np

ID = "C05"
PROPS_FILE = "theories/Props/C05.v"
EXTRACT = ("theories/Extract/XC05.v", "c05",
           ["entry_thin", "entry_shrink", "entry_lookup", "entry_loop", "entry_skel_ord", "entry_order",
            "entry_topo_check"])
PYX = {"_cpmorphology2.pyx": ["skeletonize_loop", "index_lookup", "prepare_for_index_lookup",
                              "extract_from_image_lookup"]}
CASE_TIMEOUT = 60
RULE = ("exhaustive: every binary image of every shape up to 3x3 plus 3x4, 4x3, 2x4, 4x2, 1x5, 5x1 (thorough: also 4x4, 3x5, 5x3, 2x5, 5x2) "
        "through thin(None), binary_shrink(-1) and skeletonize_loop (current table, a pseudo-random order per image); "
        "random: shapes skewed to 1xN/Nx1/2x2/3x3 up to 26x26 (thorough 40x40), contents all-0, all-1, noise at "
        "densities 0.1-0.95, thresholded smooth blobs, rings / nested rings, one-pixel lines, 2x2 blocks, "
        "border-touching frames, checkerboards, long winding one-pixel lines (serpentines, spirals); thin with iterations None/0..6, binary_shrink with -1/0..6, "
        "index_lookup with each of the seven tables, skeletonize_loop with random / raster / reverse orders, "
        "skeletonize with a random distinct-integer ordering (exact), skeletonize default ordering (exact, given the "
        "order the code built, plus topo_check), skeletonize_labels (topo_check per label). Non-trivial = at least "
        "one pixel removed; distinct by hash of the case")
TRUSTED = [
    "tools/gen_tables_c05.py (dumps the seven tables of the staged package into Gen/TablesC05.v on every run)",
    "modelled, not verified: scipy.ndimage.distance_transform_edt, np.random.permutation tiebreak and np.lexsort "
    "(the order they produce is captured at the skeletonize_loop call and handed to the model; the theorem holds "
    "for every order), color_labels (C15), NumPy boolean indexing in prepare_for_index_lookup / "
    "extract_from_image_lookup",
    "completeness of topo_check (it rejects only images whose topology changed) rests on Ronse's theorem on "
    "sequential deletion of simple points in 2-D; it is cross-checked on every case against a literal "
    "component-counting check (scipy.ndimage.label); soundness is proved (C05_topo_check_sound)",
]
ASSUMPTIONS = ["binary (boolean) input images; label images for skeletonize_labels are non-negative ints",
               "ordering matrices passed to skeletonize have pairwise distinct integer entries"]
EXHAUSTIVE = {"quick": False, "thorough": False}   # exhaustive only over the small shapes named in RULE

_HERE = os.path.dirname(os.path.abspath(__file__))


def _gen_tool():
    p = os.path.join(os.path.dirname(os.path.dirname(_HERE)), "tools", "gen_tables_c05.py")
    spec = importlib.util.spec_from_file_location("gen_tables_c05", p)
    m = importlib.util.module_from_spec(spec)
    spec.loader.exec_module(m)
    return m


def gen_files(ctx):
    return {"theories/Gen/TablesC05.v": _gen_tool().gen(ctx)}


# ------------------------------------------------------------------------------ generators

def _img_from_code(h, w, code):
    return [[(code >> (r * w + c)) & 1 for c in range(w)] for r in range(h)]


def _rand_shape(rng, big):
    u = rng.rand()
    if u < 0.06:
        return 1, int(rng.randint(1, 12))
    if u < 0.12:
        return int(rng.randint(1, 12)), 1
    if u < 0.2:
        return int(rng.choice([2, 3])), int(rng.choice([2, 3]))
    if u < 0.6:
        return int(rng.randint(3, 10)), int(rng.randint(3, 10))
    return int(rng.randint(4, big + 1)), int(rng.randint(4, big + 1))


def _rand_image(rng, big, counter=None):
    import scipy.ndimage as ndi
    h, w = _rand_shape(rng, big)
    kind = rng.choice(["zero", "one", "noise", "noise", "noise", "blob", "blob", "ring", "lines", "blocks", "frame",
                       "checker", "dense", "snake"])
    if kind == "snake":            # long winding one-pixel line: needs far more iterations than max(shape)
        h, w = int(rng.randint(7, big + 1)), int(rng.randint(7, big + 1))
    if counter is not None:
        counter("img:" + kind)
    if kind == "zero":
        a = np.zeros((h, w), bool)
    elif kind == "one":
        a = np.ones((h, w), bool)
    elif kind == "noise":
        a = rng.rand(h, w) < rng.choice([0.1, 0.2, 0.3, 0.4, 0.5, 0.6, 0.7, 0.8, 0.9])
    elif kind == "dense":
        a = rng.rand(h, w) < rng.choice([0.9, 0.95, 0.98])
    elif kind == "blob":
        a = ndi.gaussian_filter(rng.rand(h, w), rng.choice([0.7, 1.0, 1.5, 2.5])) > rng.choice([0.45, 0.5, 0.55])
    elif kind == "ring":
        a = np.zeros((h, w), bool)
        for _ in range(int(rng.randint(1, 4))):
            r0, c0 = int(rng.randint(0, h)), int(rng.randint(0, w))
            r1, c1 = int(rng.randint(r0, h)), int(rng.randint(c0, w))
            t = int(rng.randint(1, 3))
            a[r0:r1 + 1, c0:c1 + 1] = True
            if r1 - r0 >= 2 * t and c1 - c0 >= 2 * t:
                a[r0 + t:r1 + 1 - t, c0 + t:c1 + 1 - t] = False
                if rng.rand() < 0.4 and r1 - r0 >= 2 * t + 2 and c1 - c0 >= 2 * t + 2:   # nested object
                    a[r0 + t + 1:r1 - t, c0 + t + 1:c1 - t] = True
    elif kind == "lines":
        a = np.zeros((h, w), bool)
        for _ in range(int(rng.randint(1, 5))):
            if rng.rand() < 0.5:
                a[int(rng.randint(0, h)), :] = True
            else:
                a[:, int(rng.randint(0, w))] = True
            if rng.rand() < 0.5:
                k = min(h, w)
                off = int(rng.randint(0, max(1, max(h, w) - k + 1)))
                for d in range(k):
                    r, c = (d, d + off) if w >= h else (d + off, d)
                    if r < h and c < w:
                        a[r, c] = True
    elif kind == "blocks":
        a = np.zeros((h, w), bool)
        for _ in range(int(rng.randint(1, 6))):
            r, c = int(rng.randint(0, h)), int(rng.randint(0, w))
            a[r:r + 2, c:c + 2] = True
    elif kind == "frame":
        a = np.zeros((h, w), bool)
        a[0, :] = a[-1, :] = True
        a[:, 0] = a[:, -1] = True
        a |= rng.rand(h, w) < rng.choice([0.0, 0.1, 0.3])
    elif kind == "snake":
        a = np.zeros((h, w), bool)
        if rng.rand() < 0.6:       # serpentine: full rows 0,2,4,.. joined alternately right / left
            for r in range(0, h, 2):
                a[r, :] = True
                if r + 1 < h and r + 2 < h:
                    a[r + 1, (w - 1) if (r // 2) % 2 == 0 else 0] = True
        else:                      # rectangular spiral with one-pixel gaps
            t, b, l, r_ = 0, h - 1, 0, w - 1
            while t <= b and l <= r_:
                a[t, l:r_ + 1] = True
                a[t:b + 1, r_] = True
                if b - t >= 2:
                    a[b, l:r_ + 1] = True
                    a[t + 2:b + 1, l] = True
                    if t + 2 <= b and l + 1 <= r_ - 2:
                        a[t + 2, l:l + 2] = True
                t += 2; b -= 2; l += 2; r_ -= 2
        if rng.rand() < 0.3:
            a = a.T.copy(); h, w = w, h
        if rng.rand() < 0.3:
            a = a[::-1].copy()
    else:
        a = (np.add.outer(np.arange(h), np.arange(w)) % 2 == int(rng.randint(0, 2)))
        if rng.rand() < 0.5:
            a = a | (rng.rand(h, w) < 0.15)
    return a.astype(int).tolist(), h, w


def _fg(img):
    return [[r, c] for r, row in enumerate(img) for c, v in enumerate(row) if v]


def _rand_order(rng, img):
    px = _fg(img)
    u = rng.rand()
    if u < 0.15:
        return px
    if u < 0.3:
        return px[::-1]
    rng.shuffle(px)
    return px


def _mk(fn, img, h, w, **kw):
    d = {"fn": fn, "h": h, "w": w, "img": img}
    d.update(kw)
    return d


def _corpus():
    cs = []
    full = [[1] * 3 for _ in range(3)]
    # F3 witness pattern (a plus whose centre must stay), rings, lines, 2x2 block
    plus = [[0, 1, 0], [1, 1, 1], [0, 1, 0]]
    ring = [[1, 1, 1, 1], [1, 0, 0, 1], [1, 0, 0, 1], [1, 1, 1, 1]]
    big = [[1] * 5 for _ in range(5)]
    for img in (full, plus, ring, big, [[1, 1], [1, 1]], [[1]], [[0]], [[1, 1, 1, 1, 1]], [[1], [1], [1]]):
        h, w = len(img), len(img[0])
        cs.append(_mk("thin", img, h, w, it=None))
        cs.append(_mk("shrink", img, h, w, it=-1))
        cs.append(_mk("loop", img, h, w, order=_fg(img)))
        cs.append(_mk("loop", img, h, w, order=_fg(img)[::-1]))
        cs.append(_mk("skel", img, h, w))
    for h, w in ((0, 0), (0, 3), (3, 0)):
        img = [[] for _ in range(h)]
        cs.append(_mk("thin", img, h, w, it=None))
        cs.append(_mk("shrink", img, h, w, it=-1))
    cdir = os.path.join(os.path.dirname(os.path.dirname(_HERE)), "corpus", "C05")
    if os.path.isdir(cdir):
        import json
        for name in sorted(os.listdir(cdir)):
            if name.endswith(".json"):
                with open(os.path.join(cdir, name)) as f:
                    cs.extend(e["case"] for e in json.load(f)["cases"])
    return cs


def _exhaustive_shapes(ctx):
    shapes = [(h, w) for h in range(1, 4) for w in range(1, 4)] + [(3, 4), (4, 3), (2, 4), (4, 2), (1, 5), (5, 1)]
    if not ctx.quick():
        shapes += [(4, 4), (3, 5), (5, 3), (2, 5), (5, 2)]
    return shapes


def generate(ctx):
    rng = ctx.rng
    big = ctx.n(26, 40)
    cases = list(_corpus())
    for h, w in _exhaustive_shapes(ctx):
        for code in range(1 << (h * w)):
            img = _img_from_code(h, w, code)
            cases.append(_mk("thin", img, h, w, it=None))
            cases.append(_mk("shrink", img, h, w, it=-1))
            cases.append(_mk("loop", img, h, w, order=_rand_order(rng, img)))
        ctx.count("exhaustive:%dx%d" % (h, w), 1 << (h * w))
    cnt = lambda k: ctx.count(k)
    for _ in range(ctx.n(500, 3000)):
        img, h, w = _rand_image(rng, big, cnt)
        it = None if rng.rand() < 0.6 else int(rng.randint(0, 7))
        cases.append(_mk("thin", img, h, w, it=it))
    for _ in range(ctx.n(500, 3000)):
        img, h, w = _rand_image(rng, big, cnt)
        it = -1 if rng.rand() < 0.6 else int(rng.randint(0, 7))
        cases.append(_mk("shrink", img, h, w, it=it))
    for _ in range(ctx.n(350, 2000)):
        img, h, w = _rand_image(rng, big, cnt)
        it = None if rng.rand() < 0.4 else int(rng.randint(0, 4))
        cases.append(_mk("lookup", img, h, w, t=int(rng.randint(0, 7)), it=it))
    for _ in range(ctx.n(500, 3000)):
        img, h, w = _rand_image(rng, big, cnt)
        cases.append(_mk("loop", img, h, w, order=_rand_order(rng, img)))
    for _ in range(ctx.n(250, 1500)):
        img, h, w = _rand_image(rng, big, cnt)
        if h * w == 0:
            continue
        o = rng.permutation(h * w) * int(rng.choice([1, 1, 3])) - int(rng.choice([0, 0, 50]))
        cases.append(_mk("skel_ord", img, h, w, ord=o.reshape(h, w).tolist()))
    for _ in range(ctx.n(250, 1500)):
        img, h, w = _rand_image(rng, big, cnt)
        cases.append(_mk("skel", img, h, w))
    for _ in range(ctx.n(100, 500)):
        cases.append(_rand_labels(rng, min(big, 24), cnt))
    for c in cases:
        ctx.count("fn:" + c["fn"])
    return cases


def _rand_labels(rng, big, cnt=None):
    import scipy.ndimage as ndi
    img, h, w = _rand_image(rng, big, cnt)
    a = np.array(img, bool).reshape(h, w)
    u = rng.rand()
    if u < 0.4:       # connected components (4- or 8-connected), randomly renumbered, some numbers absent
        lab, n = ndi.label(a, np.ones((3, 3), bool) if rng.rand() < 0.5 else None)
        perm = np.concatenate([[0], rng.permutation(n) + 1 + int(rng.randint(0, 3))])
        lab = perm[lab]
    elif u < 0.7:     # noise labels: touching objects everywhere
        lab = a * rng.randint(1, int(rng.randint(2, 6)), (h, w))
    else:             # split every object by a random vertical / horizontal cut
        lab = a * (1 + (np.arange(w)[None, :] > rng.randint(0, w + 1)) + 2 * (np.arange(h)[:, None] > rng.randint(0, h + 1)))
    return {"fn": "labels", "h": h, "w": w, "lab": np.asarray(lab, int).tolist()}


# ------------------------------------------------------------------------------ implementation

_CAP = {}


def _table():
    """the removal table skeletonize builds, captured at its skeletonize_loop call"""
    if "t" not in _CAP:
        from centrosome import cpmorphology as M
        orig = M.skeletonize_loop
        got = {}

        def spy(result, i, j, order, table):
            got["t"] = np.array(table).copy()
            return orig(result, i, j, order, table)
        M.skeletonize_loop = spy
        try:
            M.skeletonize(np.ones((3, 3), bool))
        finally:
            M.skeletonize_loop = orig
        _CAP["t"] = np.ascontiguousarray(got["t"], np.uint8)
    return _CAP["t"]


def _tables7():
    from centrosome import cpmorphology as M
    if M.thin_table is None or M.binary_shrink_ulr_table is None:
        z = np.zeros((3, 3), bool)
        M.thin(z, iterations=1)
        M.binary_shrink(z)
    return [_table().astype(bool), M.thin_table[0], M.thin_table[1], M.binary_shrink_ulr_table,
            M.binary_shrink_urb_table, M.binary_shrink_lrl_table, M.binary_shrink_llt_table]


def _arr(case):
    return np.array(case["img"], bool).reshape(case["h"], case["w"])


def _g(a):
    return np.asarray(a).astype(int).tolist()


def impl(case):
    from centrosome import cpmorphology as M
    from centrosome import _cpmorphology2 as K
    fn = case["fn"]
    if fn == "labels":
        lab = np.array(case["lab"], int).reshape(case["h"], case["w"])
        keep = lab.copy()
        calls = []
        orig = M.skeletonize_loop

        def spy(result, i, j, order, table):
            c = {"mask": _g(np.asarray(result) != 0), "order": [[int(i[k]), int(j[k])] for k in order]}
            r = orig(result, i, j, order, table)
            c["res"] = _g(np.asarray(result) != 0)
            calls.append(c)
            return r
        M.skeletonize_loop = spy
        try:
            out = M.skeletonize_labels(lab)
        finally:
            M.skeletonize_loop = orig
        return {"out": np.asarray(out).astype(int).tolist(), "input_unchanged": bool((lab == keep).all()),
                "calls": calls}
    a = _arr(case)
    a0 = a.copy()
    if fn == "thin":
        out = M.thin(a, iterations=case["it"])
        r = {"out": _g(out)}
        if case["it"] is None:
            r["again"] = _g(M.thin(out, iterations=None))
    elif fn == "shrink":
        out = M.binary_shrink(a, iterations=case["it"])
        r = {"out": _g(out)}
        if case["it"] == -1:
            r["again"] = _g(M.binary_shrink(out))
    elif fn == "lookup":
        table = _tables7()[case["t"]]
        ii, jj, im = K.prepare_for_index_lookup(a, False)
        ii, jj = K.index_lookup(ii, jj, im, table, case["it"])
        out = K.extract_from_image_lookup(a, ii, jj)
        r = {"out": _g(out), "idx": [[int(x) - 1, int(y) - 1] for x, y in zip(ii, jj)],
             "padded": _g(im[1:-1, 1:-1] != 0) if a.size else []}
    elif fn == "loop":
        table = _table()
        pix = _fg(case["img"])
        pos = {tuple(p): k for k, p in enumerate(pix)}
        i = np.ascontiguousarray([p[0] for p in pix], np.int32)
        j = np.ascontiguousarray([p[1] for p in pix], np.int32)
        order = np.ascontiguousarray([pos[tuple(p)] for p in case["order"]], np.int32)
        result = np.ascontiguousarray(a, np.uint8)
        K.skeletonize_loop(result, i, j, order, table)
        r = {"out": _g(result != 0), "raw_max": int(result.max()) if result.size else 0}
    elif fn in ("skel", "skel_ord"):
        got = {}
        orig = M.skeletonize_loop

        def spy(result, i, j, order, table):
            got["order"] = [[int(i[k]), int(j[k])] for k in order]
            return orig(result, i, j, order, table)
        M.skeletonize_loop = spy
        try:
            if fn == "skel":
                out = M.skeletonize(a)
            else:
                out = M.skeletonize(a, ordering=np.array(case["ord"], int).reshape(case["h"], case["w"]))
        finally:
            M.skeletonize_loop = orig
        r = {"out": _g(out), "order": got.get("order")}
    else:
        raise ValueError(fn)
    r["input_unchanged"] = bool((a == a0).all())
    return r


def _bad(o):
    return (not isinstance(o, dict)) or "exc" in o or "crash" in o


# ------------------------------------------------------------------------------ model

def _flag(it):
    return [0, 0] if it is None else [1, int(it)]


def _prun(ctx, entry, args, chunk=20000, workers=4):
    """ctx.run_model in chunks on a few threads (each chunk is one run of the extracted program)"""
    if len(args) <= chunk:
        return ctx.run_model(entry, args)
    from concurrent.futures import ThreadPoolExecutor
    parts = [args[s:s + chunk] for s in range(0, len(args), chunk)]
    with ThreadPoolExecutor(workers) as ex:
        outs = list(ex.map(lambda a: ctx.run_model(entry, a), parts))
    return [r for o in outs for r in o]


def model(ctx, cases, outs):
    res = [None] * len(cases)
    groups = {}
    for k, (c, o) in enumerate(zip(cases, outs)):
        fn = c["fn"]
        if fn == "labels":
            # one skeletonize_loop call per colour: mask and processing order as the code built them
            if not _bad(o):
                for n, call in enumerate(o.get("calls", [])):
                    groups.setdefault("entry_loop", []).append(((k, n), [c["h"], c["w"], call["mask"], call["order"]]))
                res[k] = [None] * len(o.get("calls", []))
            continue
        base = [c["h"], c["w"], c["img"]]
        if fn == "thin":
            groups.setdefault("entry_thin", []).append((k, base + _flag(c["it"])))
        elif fn == "shrink":
            groups.setdefault("entry_shrink", []).append((k, base + [int(c["it"])]))
        elif fn == "lookup":
            groups.setdefault("entry_lookup", []).append((k, base + [c["t"]] + _flag(c["it"])))
        elif fn == "loop":
            groups.setdefault("entry_loop", []).append((k, base + [c["order"]]))
        elif fn == "skel_ord":
            groups.setdefault("entry_skel_ord", []).append((k, base + [c["ord"]]))
        elif fn == "skel":
            if not _bad(o) and o.get("order") is not None:
                groups.setdefault("entry_loop", []).append((k, base + [o["order"]]))
    for entry, items in groups.items():
        for (k, _), r in zip(items, _prun(ctx, entry, [a for _, a in items])):
            if isinstance(k, tuple):
                res[k[0]][k[1]] = r
            else:
                res[k] = r
    # the processing order the model derives from the ordering matrix
    so = [(k, [c["h"], c["w"], c["img"], c["ord"]]) for k, c in enumerate(cases) if c["fn"] == "skel_ord"]
    if so:
        for (k, _), r in zip(so, ctx.run_model("entry_order", [a for _, a in so])):
            res[k] = {"grid": res[k], "order": r}
    return res


def compare(case, out, m):
    fn = case["fn"]
    if _bad(out):
        return "implementation raised/crashed: %s" % (str(out)[:300],)
    if fn == "labels":
        # every per-colour skeletonize_loop call equals the model; the result is their union, relabelled
        lab = np.array(case["lab"], int).reshape(case["h"], case["w"])
        exp = np.zeros(lab.shape, int)
        seen = np.zeros(lab.shape, bool)
        for call, mm in zip(out["calls"], m or []):
            if mm != [call["res"]]:
                return "skeletonize_labels: a per-colour skeletonize_loop call differs from the model"
            mask = np.array(call["mask"], bool).reshape(lab.shape)
            if (mask & seen).any() or (mask & (lab == 0)).any():
                return "skeletonize_labels: colour masks overlap or cover unlabelled pixels"
            seen |= mask
            r = np.array(call["res"], bool).reshape(lab.shape)
            exp[r] = lab[r]
        if lab.max(initial=0) > 0 and not (seen == (lab > 0)).all():
            return "skeletonize_labels: the colour masks do not cover the labelled pixels"
        if exp.tolist() != out["out"] and lab.max(initial=0) > 0:
            return "skeletonize_labels output is not the relabelled union of the per-colour skeletons"
        return None
    if fn == "skel_ord":
        if m["order"] != out["order"]:
            return "processing order differs: impl %s model %s" % (str(out["order"])[:120], str(m["order"])[:120])
        m = m["grid"]
    if m is None:
        return "no model output (skeletonize did not reach skeletonize_loop)"
    if m != [out["out"]]:
        return "%s output differs from the model: impl %s model %s" % (fn, str(out["out"])[:160], str(m)[:160])
    if fn == "lookup":
        if out["idx"] != _fg(out["out"]):
            return "index_lookup's surviving index list is not the raster list of the surviving pixels"
        if out["padded"] != out["out"]:
            return "index_lookup's in-place image differs from the surviving index list"
    if fn == "loop" and out["raw_max"] > 1:
        return "skeletonize_loop wrote a value other than 0/1"
    return None


# ------------------------------------------------------------------------------ checker

_E8 = np.ones((3, 3), bool)


def topo_cc(a, b):
    """literal reading of the property with scipy.ndimage.label (untrusted second opinion)"""
    import scipy.ndimage as ndi
    a = np.asarray(a, bool)
    b = np.asarray(b, bool)
    if a.shape != b.shape:
        return "shape changed"
    if a.size == 0:
        return None
    if (b & ~a).any():
        return "output is not a subset of the input"
    la, na = ndi.label(a, _E8)
    lb, nb = ndi.label(b, _E8)
    if na != nb:
        return "number of 8-connected components %d -> %d" % (na, nb)
    if nb:
        first = np.unique(lb[b], return_index=True)[1]
        if len(set(la[b][first].tolist())) != na:
            return "some input component does not contain exactly one output component"
    pa = np.pad(~a, 1, constant_values=True)
    pb = np.pad(~b, 1, constant_values=True)
    ha, ma = ndi.label(pa)
    hb, mb = ndi.label(pb)
    if ma != mb:
        return "number of holes %d -> %d" % (ma - 1, mb - 1)
    first = np.unique(ha[pa], return_index=True)[1]
    if len(set(hb[pa][first].tolist())) != mb:
        return "holes of input and output do not correspond one to one"
    return None


def _hole_free_not_point(a, s):
    """binary_shrink to convergence: every hole-free object must end as exactly one pixel"""
    import scipy.ndimage as ndi
    a = np.asarray(a, bool)
    s = np.asarray(s, bool)
    if a.size == 0:
        return None
    la, na = ndi.label(a, _E8)
    if na == 0:
        return None
    filled = np.zeros(a.shape, bool)
    for k, sl in enumerate(ndi.find_objects(la), 1):
        comp = la[sl] == k
        if (ndi.binary_fill_holes(comp) & ~comp).any():
            continue
        n = int((s[sl] & comp).sum())
        if n != 1:
            return "hole-free object %d is left with %d pixels by binary_shrink run to convergence" % (k, n)
    return None


def check(ctx, cases, outs):
    res = [None] * len(cases)
    extra = {}         # clauses beyond topology (reported only when the topology verdict is clean)
    jobs = []          # (case index, H, W, before, after, what)
    for k, (c, o) in enumerate(zip(cases, outs)):
        if _bad(o):
            res[k] = "implementation raised/crashed on a valid input: %s" % (str(o)[:300],)
            continue
        h, w = c["h"], c["w"]
        if not o.get("input_unchanged", True):
            res[k] = "the call modified its input array"
            continue
        if c["fn"] == "labels":
            lab = np.array(c["lab"], int).reshape(h, w)
            out = np.array(o["out"], int).reshape(h, w)
            if ((out != 0) & (out != lab)).any():
                res[k] = "skeletonize_labels output carries a label where the input has a different one"
                continue
            for lv in np.unique(lab[lab > 0]).tolist():
                jobs.append((k, h, w, (lab == lv).astype(int).tolist(), (out == lv).astype(int).tolist(),
                             "label %d" % lv))
            continue
        if c["fn"] == "lookup" and c["t"] == 0:
            continue      # the skeletonize table applied synchronously is outside the property
        if np.array(o["out"]).reshape(-1).shape[0] != h * w:
            res[k] = "output shape differs from the input shape"
            continue
        jobs.append((k, h, w, c["img"], o["out"], c["fn"]))
        if "again" in o and o["again"] != o["out"]:
            extra[k] = "%s run to convergence is not idempotent" % c["fn"]
        elif c["fn"] == "shrink" and c["it"] == -1:
            extra[k] = _hole_free_not_point(_arr(c), np.array(o["out"], bool).reshape(h, w))
    verdicts = _prun(ctx, "entry_topo_check", [[h, w, a, b] for (_, h, w, a, b, _) in jobs]) if jobs else []
    for n, ((k, h, w, a, b, what), v) in enumerate(zip(jobs, verdicts)):
        if res[k] is not None:
            continue
        # second opinion (literal component counting): always when the verified checker rejects and on every
        # larger image; on the exhaustive tiny images (h*w <= 16) on one case in eight
        if v == 1 and h * w <= 16 and n % 8:
            continue
        cc = topo_cc(np.array(a, bool).reshape(h, w), np.array(b, bool).reshape(h, w))
        if v != 1:
            res[k] = "%s: topology not preserved (verified checker Spec.TopoCheck.topo_check = false%s)" % (
                what, "; " + cc if cc else "; NOTE: the component-counting check sees no change")
        elif cc:
            res[k] = "%s: %s (component-counting check; topo_check accepted - checker inconsistency)" % (what, cc)
    for k, v in extra.items():
        if res[k] is None and v:
            res[k] = v
    return res


def nontrivial(case, out):
    if _bad(out):
        return False
    if case["fn"] == "labels":
        return out["out"] != case["lab"]
    return out["out"] != case["img"]


def kernel_crosscheck(ctx, cases, outs):
    total = 0
    plan = [("thin", "entry_thin", 14), ("shrink", "entry_shrink", 12), ("loop", "entry_loop", 12),
            ("lookup", "entry_lookup", 8), ("skel_ord", "entry_skel_ord", 6)]
    rng = np.random.RandomState(ctx.seed + 5)
    for fn, entry, n in plan:
        idx = [k for k, c in enumerate(cases) if c["fn"] == fn and not _bad(outs[k]) and 6 <= c["h"] * c["w"] <= 64
               and outs[k]["out"] != c["img"]]
        if len(idx) > n:
            idx = sorted(rng.choice(idx, n, replace=False).tolist())
        args = []
        for k in idx:
            c = cases[k]
            base = [c["h"], c["w"], c["img"]]
            args.append(base + {"thin": lambda: _flag(c["it"]), "shrink": lambda: [int(c["it"])],
                                "loop": lambda: [c["order"]], "lookup": lambda: [c["t"]] + _flag(c["it"]),
                                "skel_ord": lambda: [c["ord"]]}[fn]())
        exp = [[outs[k]["out"]] for k in idx]
        r = ctx.coq_eval_eq("Model.ThinSkel", entry, args, exp, tag=fn)
        total += len(idx)
        bad = [k for k, b in zip(idx, r) if b is not True]
        if bad:
            return "vm_compute evaluation of Model.ThinSkel.%s differs from the implementation on case %d" % (entry, bad[0]), total
    # the checker itself: accepted pairs inside the kernel
    idx = [k for k, c in enumerate(cases) if c["fn"] in ("thin", "shrink") and not _bad(outs[k])
           and 6 <= c["h"] * c["w"] <= 49 and outs[k]["out"] != c["img"]][:8]
    args = [[cases[k]["h"], cases[k]["w"], cases[k]["img"], outs[k]["out"]] for k in idx]
    r = ctx.coq_eval_eq("Spec.TopoCheck", "entry_topo_check", args, [1] * len(idx), tag="chk")
    total += len(idx)
    bad = [k for k, b in zip(idx, r) if b is not True]
    if bad:
        return "vm_compute evaluation of Spec.TopoCheck.entry_topo_check rejects case %d" % bad[0], total
    return None, total


def search_cases(ctx, rnd):
    rng = ctx.rng
    cases = []
    if rnd == 0:       # exhaustive small images first: a wrong table bit shows on a 3x3..4x4 image
        for h, w in [(3, 3), (3, 4), (4, 3), (4, 4)]:
            for code in range(1 << (h * w)):
                img = _img_from_code(h, w, code)
                cases.append(_mk("thin", img, h, w, it=None))
                cases.append(_mk("shrink", img, h, w, it=-1))
                cases.append(_mk("loop", img, h, w, order=_rand_order(rng, img)))
        return cases
    for _ in range(1500):
        img, h, w = _rand_image(rng, 30)
        cases.append(_mk("thin", img, h, w, it=None if rng.rand() < 0.5 else int(rng.randint(0, 5))))
        cases.append(_mk("shrink", img, h, w, it=-1 if rng.rand() < 0.5 else int(rng.randint(0, 5))))
        cases.append(_mk("loop", img, h, w, order=_rand_order(rng, img)))
        if rng.rand() < 0.1:
            cases.append(_mk("skel", img, h, w))
    return cases


def _drop(m, axis, k):
    if axis == 0:
        return [r for n, r in enumerate(m) if n != k]
    return [[v for n, v in enumerate(r) if n != k] for r in m]


def shrink_candidates(case):
    h, w = case["h"], case["w"]
    key = "lab" if case["fn"] == "labels" else "img"
    m = case[key]

    def rebuild(m2, h2, w2, axis=None, k=None):
        d = dict(case)
        d.update({"h": h2, "w": w2, key: m2})
        if case["fn"] == "loop":
            o = []
            for r, c in case["order"]:
                if axis == 0:
                    if r == k:
                        continue
                    r = r - 1 if r > k else r
                elif axis == 1:
                    if c == k:
                        continue
                    c = c - 1 if c > k else c
                if m2[r][c]:
                    o.append([r, c])
            d["order"] = o
        if case["fn"] == "skel_ord" and axis is not None:
            d["ord"] = _drop(case["ord"], axis, k)
        return d
    if h > 1:
        for k in ([0, h - 1] + list(range(1, h - 1)))[:8]:
            yield rebuild(_drop(m, 0, k), h - 1, w, 0, k)
    if w > 1:
        for k in ([0, w - 1] + list(range(1, w - 1)))[:8]:
            yield rebuild(_drop(m, 1, k), h, w - 1, 1, k)
    n = 0
    for r in range(h):
        for c in range(w):
            if m[r][c] and n < 40:
                n += 1
                m2 = [list(x) for x in m]
                m2[r][c] = 0
                yield rebuild(m2, h, w)


MANIFEST = {
    "level_text": (
        "Machine-checked proof (Coq 8.16, closed under the global context) that the executable Gallina models of "
        "thin, binary_shrink, index_lookup (synchronous table passes, the code's iteration/break structure), "
        "skeletonize_loop (sequential in-place removal, row-0 quirk, unconditional centre bit) and of "
        "skeletonize(ordering=M) preserve the topology relation TopoEq (subset; one output component in every "
        "input component; holes in one-to-one correspondence) for every image size, every image, every iteration "
        "count and every processing order, on the seven 512-entry tables that a translator dumps from the staged "
        "package on every run: the kernel re-runs the 512-pattern simple-point sweep (skeletonize table) and the "
        "pruned 4x5-window sweep (six pass tables) whenever a table bit changes. The models are tied to the code by "
        "exact equality of complete outputs (exhaustively on all small images, plus random images) with the extracted "
        "models cross-checked against vm_compute, and the verified checker topo_check (soundness proved) is "
        "evaluated on every output of skeletonize, thin, binary_shrink and, per label, skeletonize_labels."),
    "level_note": (
        "Trusted: Coq kernel + vm_compute; extraction (ExtrOcamlBasic only) and the S-expression driver; the table "
        "translator tools/gen_tables_c05.py; the Python harness; scipy's EDT / NumPy's lexsort and permutation (only "
        "choose the processing order, which the theorem quantifies over); color_labels. The tie between model and "
        "code is differential, not a proof about Python/C++. Completeness of topo_check is not proved (cross-checked "
        "against a component-counting check on every case)."),
    "technique": "Coq proof over executable model (kernel-run finite sweeps on regenerated tables, lifted to all images) "
                 "+ exact differential correspondence (extracted OCaml and vm_compute) + verified checker on outputs",
    "design_ref": "DESIGN.md section 7, C05",
}
