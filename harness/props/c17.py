"""C17 - local-maximum detectors mark exactly the non-dominated pixels
(cpmorphology.is_local_maximum, cpmorphology.regional_maximum)."""
import numpy as np

ID = "C17"
PROPS_FILE = "theories/Props/C17.v"
EXTRACT = ("theories/Extract/XC17.v", "c17",
           ["entry_ilm", "entry_rm", "entry_rm_noties", "entry_check_ilm", "entry_check_rm", "entry_check_noties"])
PYX = {}
CASE_TIMEOUT = 30
RULE = ("three streams, corpus first: is_local_maximum(image, labels, footprint) with footprints 3x3..9x9 (both sizes "
        "odd >= 3; full, random density, one-sided/asymmetric, single off-centre cell, centre off, empty), "
        "regional_maximum(..., ties_are_ok=True) with structure None / 4-connected / random or one-sided 3x3 / "
        "2x2..5x5 and mask None / random / all / none, regional_maximum(..., ties_are_ok=False); shapes skewed to "
        "1x1, 1xN, Nx1, 2x2, 3x3 and images smaller than the footprint; images constant / 2-4 levels (plateaus) / "
        "signed integers / floats in every dtype the functions accept (floats are sent to the model through an "
        "order- and tie-preserving integer coding); label images all-one / random touching labels / blocks / "
        "sparse label numbers / all background. Non-trivial = the output has both a marked pixel and an "
        "unmarked candidate (labelled pixel for is_local_maximum, any pixel for regional_maximum); distinct by "
        "hash of the case")
TRUSTED = [
    "modelled, not verified: NumPy semantics of basic slicing, elementwise comparison/logical_and, boolean-mask "
    "compaction and assignment, fancy-index assignment, ravel() of a C-contiguous array being a view, strides of "
    "C-contiguous arrays (Model/LocalMax.v states each pointwise)",
    "scipy.ndimage.label, distance_transform_edt, rank_order, np.random.permutation and maximum_position are Section "
    "variables of the ties-not-ok model; the theorem about it is relative to 'label numbers the 8-components' and "
    "'maximum_position returns a position inside each label'; the implementation's ties-not-ok output is judged "
    "by the verified certificate checker Spec.LocalMaxSpec.noties_check, not by those assumptions",
    "the Python side computes the certificate (labels, BFS depths, roots) for noties_check; it is untrusted "
    "(a wrong certificate can only make the check fail)",
    "float images reach the model through np.unique ranks (order- and tie-preserving; NaN never generated)",
    "structure=None is sent to the model as the 3x3 all-ones array (scipy generate_binary_structure(2, 2))",
]
ASSUMPTIONS = [
    "C-contiguous image/labels of equal shape; footprint with both dimensions odd and >= 3 (DESIGN.md C17 scope note)",
    "no NaN intensities (all comparisons with NaN are false; outside the property's quantifier)",
    "regional_maximum: image at least as large as the structure's half shape (a larger offset makes a slice bound "
    "negative, NumPy then counts from the end and the shifted slices differ in shape)",
]
EXHAUSTIVE = {"quick": False, "thorough": False}

IMG_DTYPES = ["bool", "uint8", "int8", "uint16", "int16", "uint32", "int32", "uint64", "int64",
              "float16", "float32", "float64"]
LAB_DTYPES = ["int32", "int64", "uint8", "int8", "uint16", "int16", "uint32", "uint64", "bool", "float32", "float64"]
FP_DTYPES = ["bool", "uint8", "int64", "float64"]
E8 = [[1, 1, 1], [1, 1, 1], [1, 1, 1]]
E4 = [[0, 1, 0], [1, 1, 1], [0, 1, 0]]


# ------------------------------------------------------------------------------------ generators

def _shape(rng, big):
    u = rng.rand()
    if u < 0.06:
        return 1, 1
    if u < 0.16:
        return 1, int(rng.randint(2, big + 1))
    if u < 0.26:
        return int(rng.randint(2, big + 1)), 1
    if u < 0.34:
        return 2, 2
    if u < 0.42:
        return 3, 3
    if u < 0.50:
        return int(rng.randint(2, 4)), int(rng.randint(2, big + 1))
    if u < 0.58:
        return int(rng.randint(2, big + 1)), int(rng.randint(2, 4))
    return int(rng.randint(2, big + 1)), int(rng.randint(2, big + 1))


def _image(rng, h, w):
    """returns (nested list, dtype name, class)"""
    dt = IMG_DTYPES[rng.randint(len(IMG_DTYPES))] if rng.rand() < 0.7 else "float64"
    kind = np.dtype(dt).kind
    u = rng.rand()
    if u < 0.10:
        cls = "constant"; a = np.full((h, w), rng.randint(-3, 4))
    elif u < 0.45:
        cls = "levels"; a = rng.randint(0, int(rng.choice([2, 3, 4])), (h, w)) - int(rng.choice([0, 0, 1, 2]))
    elif u < 0.60:
        cls = "blocks"     # large plateaus
        a = np.kron(rng.randint(-2, 3, ((h + 1) // 2, (w + 1) // 2)), np.ones((2, 2), int))[:h, :w]
    elif u < 0.75:
        cls = "ramp"; a = np.add.outer(np.arange(h) * int(rng.choice([-1, 0, 1])), np.arange(w) * int(rng.choice([-1, 1])))
    elif u < 0.90:
        cls = "random"; a = rng.randint(-100, 101, (h, w))
    else:
        cls = "wide"; a = rng.randint(-2 ** 31, 2 ** 31, (h, w))
    if kind == "b":
        a = (a % 2) != 0
    elif kind == "u":
        a = np.abs(a).astype(np.int64) % (2 ** min(8 * np.dtype(dt).itemsize - 1, 62))
    elif kind == "i":
        lim = 2 ** min(8 * np.dtype(dt).itemsize - 1, 62)
        a = np.clip(a, -lim, lim - 1)
    else:
        a = a.astype(np.float64)
        v = rng.rand()
        if v < 0.3 and cls in ("random", "wide"):
            a = a + rng.rand(h, w)
        elif v < 0.5:
            a = a / 4.0
        if dt == "float16":
            a = np.clip(a, -60000, 60000)
        if rng.rand() < 0.05 and a.size:
            a.flat[rng.randint(a.size)] = np.inf if rng.rand() < 0.5 else -np.inf
        if rng.rand() < 0.05 and a.size:
            a.flat[rng.randint(a.size)] = -0.0
    a = np.asarray(a).astype(dt)
    return a.tolist(), dt, cls


def _labels(rng, h, w):
    dt = LAB_DTYPES[rng.randint(len(LAB_DTYPES))] if rng.rand() < 0.6 else "int32"
    u = rng.rand()
    if u < 0.15:
        cls = "all-one"; a = np.ones((h, w), int)
    elif u < 0.50:
        cls = "touching"; a = rng.randint(0, int(rng.choice([2, 3, 4, 6])), (h, w))
    elif u < 0.70:
        cls = "blocks"
        a = np.kron(rng.randint(0, 4, ((h + 2) // 3, (w + 2) // 3)), np.ones((3, 3), int))[:h, :w]
    elif u < 0.80:
        cls = "sparse-numbers"; a = rng.choice([0, 1, 7, 100, 127], (h, w))
    elif u < 0.87:
        cls = "background"; a = np.zeros((h, w), int)
    elif u < 0.94:
        cls = "single"; a = np.zeros((h, w), int)
        if a.size:
            a.flat[rng.randint(a.size)] = 3
    else:
        cls = "stripes"; a = np.add.outer(np.arange(h), np.zeros(w, int)) % 3
    if dt == "bool":
        a = a > 0
    a = np.asarray(a).astype(dt)
    return a.tolist(), dt, cls


FP_SHAPES = [(3, 3), (3, 3), (3, 3), (5, 3), (3, 5), (5, 5), (3, 7), (7, 3), (7, 7), (5, 7), (9, 3), (9, 9)]


def _footprint(rng):
    fh, fw = FP_SHAPES[rng.randint(len(FP_SHAPES))]
    u = rng.rand()
    if u < 0.3:
        cls = "full"; f = np.ones((fh, fw), bool)
    elif u < 0.6:
        cls = "random"; f = rng.rand(fh, fw) < rng.choice([0.3, 0.6, 0.9])
    elif u < 0.75:
        cls = "one-sided"; f = np.zeros((fh, fw), bool)
        if rng.rand() < 0.5:
            f[:fh // 2 + (rng.rand() < 0.5), :] = True
        else:
            f[:, fw // 2 + (rng.rand() < 0.5):] = True
        f &= rng.rand(fh, fw) < 0.9
    elif u < 0.85:
        cls = "single-cell"; f = np.zeros((fh, fw), bool); f[rng.randint(fh), rng.randint(fw)] = True
    elif u < 0.92:
        cls = "centre-off"; f = rng.rand(fh, fw) < 0.7; f[fh // 2, fw // 2] = False
    elif u < 0.96:
        cls = "corners"; f = np.zeros((fh, fw), bool); f[0, 0] = f[-1, -1] = True; f[0, -1] = rng.rand() < 0.5
    else:
        cls = "empty"; f = np.zeros((fh, fw), bool)
    dt = FP_DTYPES[rng.randint(len(FP_DTYPES))] if rng.rand() < 0.4 else "bool"
    f = f.astype(dt)
    if dt != "bool" and rng.rand() < 0.5:
        f = f * 3          # footprint != 0
    return f.tolist(), dt, cls


def _structure(rng, h, w, ties_ok):
    u = rng.rand()
    if u < 0.35:
        return None, "default"
    if u < 0.55:
        return E4, "4-connected"
    if u < 0.62:
        return E8, "8-connected"
    if u < 0.80:
        return (rng.rand(3, 3) < 0.6).astype(int).tolist(), "random3x3"
    if u < 0.88:
        s = np.zeros((3, 3), int); s[:2, :] = 1; s[1, 1] = rng.rand() < 0.5
        return s.tolist(), "one-sided3x3"
    # other shapes (also even ones) as long as the half shape fits into the image
    for _ in range(8):
        sh, sw = int(rng.choice([1, 2, 3, 4, 5])), int(rng.choice([1, 2, 3, 4, 5]))
        if sh // 2 <= h and sw // 2 <= w:
            return (rng.rand(sh, sw) < 0.7).astype(int).tolist(), "%dx%d" % (sh, sw)
    return E8, "8-connected"


def _mask(rng, h, w):
    u = rng.rand()
    if u < 0.3:
        return None, None, "none"
    dt = "bool" if rng.rand() < 0.8 else "uint8"
    if u < 0.75:
        m = rng.rand(h, w) < 0.85; cls = "dense"
    elif u < 0.85:
        m = np.ones((h, w), bool); cls = "all"
    elif u < 0.92:
        m = rng.rand(h, w) < 0.4; cls = "sparse"
    else:
        m = np.zeros((h, w), bool); cls = "empty"
    return m.astype(dt).tolist(), dt, cls


def _ilm_case(rng, big):
    h, w = _shape(rng, big)
    img, idt, icls = _image(rng, h, w)
    lab, ldt, lcls = _labels(rng, h, w)
    fp, fdt, fcls = _footprint(rng)
    return {"fn": "ilm", "shape": [h, w], "image": img, "idt": idt, "labels": lab, "ldt": ldt, "fp": fp, "fdt": fdt,
            "cls": [icls, lcls, fcls]}


def _rm_case(rng, big, ties_ok):
    h, w = _shape(rng, big)
    img, idt, icls = _image(rng, h, w)
    if rng.rand() < 0.5:          # regional maxima need plateaus to be interesting
        img, idt, icls = (rng.randint(0, 3, (h, w)).astype("float64").tolist(), "float64", "levels")
    m, mdt, mcls = _mask(rng, h, w)
    st, scls = _structure(rng, h, w, ties_ok)
    return {"fn": "rm" if ties_ok else "rmnt", "shape": [h, w], "image": img, "idt": idt, "mask": m, "mdt": mdt,
            "st": st, "cls": [icls, mcls, scls]}


def _corpus():
    c = []
    one = lambda h, w: [[1] * w for _ in range(h)]
    # images smaller than the footprint, 1xN, Nx1, zero-size
    for (h, w) in [(1, 1), (1, 5), (5, 1), (2, 2), (0, 3), (3, 0)]:
        for fs in [(3, 3), (7, 7), (9, 3)]:
            c.append({"fn": "ilm", "shape": [h, w], "image": [[(3 * y + x) % 3 - 1 for x in range(w)] for y in range(h)],
                      "idt": "int32", "labels": one(h, w), "ldt": "int32", "fp": one(*fs), "fdt": "bool",
                      "cls": ["corpus", "all-one", "full"]})
    # two labels touching; the larger neighbour belongs to the other label
    c.append({"fn": "ilm", "shape": [2, 3], "image": [[1, 5, 2], [0, 1, 9]], "idt": "float64",
              "labels": [[1, 2, 1], [1, 1, 2]], "ldt": "int32", "fp": one(3, 3), "fdt": "bool",
              "cls": ["corpus", "touching", "full"]})
    # asymmetric footprint: only the pixel to the upper left is looked at
    c.append({"fn": "ilm", "shape": [3, 3], "image": [[9, 1, 1], [1, 5, 1], [1, 1, 7]], "idt": "uint8",
              "labels": one(3, 3), "ldt": "uint8", "fp": [[1, 0, 0], [0, 0, 0], [0, 0, 0]], "fdt": "uint8",
              "cls": ["corpus", "all-one", "single-cell"]})
    # plateau
    c.append({"fn": "ilm", "shape": [3, 4], "image": [[2, 2, 2, 0], [2, 2, 2, 0], [0, 0, 0, 0]], "idt": "int8",
              "labels": one(3, 4), "ldt": "int8", "fp": one(3, 3), "fdt": "bool", "cls": ["corpus", "all-one", "full"]})
    for ties in (True, False):
        fn = "rm" if ties else "rmnt"
        for (h, w) in [(1, 1), (1, 4), (4, 1), (3, 3), (5, 6)]:
            c.append({"fn": fn, "shape": [h, w], "image": [[0.0] * w for _ in range(h)], "idt": "float64",
                      "mask": None, "mdt": None, "st": None, "cls": ["constant", "none", "default"]})
        # two plateaus touching diagonally + a masked pixel
        c.append({"fn": fn, "shape": [6, 6], "idt": "float64", "mask": None, "mdt": None, "st": None,
                  "image": [[0, 0, 0, 0, 0, 0], [0, 2, 2, 0, 0, 0], [0, 2, 2, 0, 0, 0], [0, 0, 0, 2, 2, 0],
                            [0, 0, 0, 2, 0, 0], [0, 0, 0, 0, 0, 0]], "cls": ["corpus", "none", "default"]})
        c.append({"fn": fn, "shape": [5, 5], "idt": "int16", "mdt": "bool", "st": E4,
                  "image": [[0, 0, 0, 0, 0], [0, 3, 3, 3, 0], [0, 3, -1, 3, 0], [0, 3, 3, 3, 0], [0, 0, 0, 0, 0]],
                  "mask": [[1, 1, 1, 1, 1], [1, 1, 1, 1, 1], [1, 1, 0, 1, 1], [1, 1, 1, 1, 1], [1, 1, 1, 1, 1]],
                  "cls": ["corpus", "hole", "4-connected"]})
        # the peak itself is masked out, all its neighbours are inside the mask (full and non-full structure)
        for st in (None, E4, [[0, 1, 0], [0, 0, 0], [0, 0, 0]]):
            c.append({"fn": fn, "shape": [5, 5], "idt": "float64", "mdt": "bool", "st": st,
                      "image": [[0, 0, 0, 0, 0], [0, 0, 0, 0, 0], [0, 0, 5, 0, 0], [0, 0, 0, 0, 0], [0, 0, 0, 0, 0]],
                      "mask": [[1, 1, 1, 1, 1], [1, 1, 1, 1, 1], [1, 1, 0, 1, 1], [1, 1, 1, 1, 1], [1, 1, 1, 1, 1]],
                      "cls": ["corpus", "hole", "default" if st is None else "4-connected" if st == E4 else "one-sided3x3"]})
    return c


def generate(ctx):
    rng = ctx.rng
    big = ctx.n(9, 12)
    cases = _corpus()
    for _ in range(ctx.n(1500, 15000)):
        cases.append(_ilm_case(rng, big))
    for _ in range(ctx.n(1000, 10000)):
        cases.append(_rm_case(rng, big, True))
    for _ in range(ctx.n(500, 5000)):
        cases.append(_rm_case(rng, big, False))
    for c in cases:
        ctx.count(c["fn"])
        ctx.count("shape:%s" % ("1x1" if c["shape"] == [1, 1] else "1xN" if c["shape"][0] == 1 else
                                "Nx1" if c["shape"][1] == 1 else "small" if max(c["shape"]) <= 3 else "general"))
        ctx.count("image:" + c["cls"][0])
        ctx.count("idt:" + c["idt"])
        if c["fn"] == "ilm":
            ctx.count("labels:" + c["cls"][1]); ctx.count("fp:" + c["cls"][2])
            ctx.count("fp:%dx%d" % (len(c["fp"]), len(c["fp"][0])))
            if c["shape"][0] < len(c["fp"]) or c["shape"][1] < len(c["fp"][0]):
                ctx.count("image smaller than footprint")
        else:
            ctx.count("mask:" + c["cls"][1]); ctx.count("structure:" + c["cls"][2])
    return cases


# ------------------------------------------------------------------------------------ implementation side

def _arr(lst, dt, shape):
    return np.ascontiguousarray(np.array(lst, dtype=dt).reshape(shape))


def impl(case):
    from centrosome import cpmorphology as M
    shape = tuple(case["shape"])
    image = _arr(case["image"], case["idt"], shape)
    if case["fn"] == "ilm":
        labels = _arr(case["labels"], case["ldt"], shape)
        fp = np.array(case["fp"], dtype=case["fdt"])
        r = M.is_local_maximum(image, labels, fp)
        return {"out": np.asarray(r).astype(int).tolist(), "dtype": str(r.dtype), "shape": list(r.shape)}
    mask = None if case["mask"] is None else _arr(case["mask"], case["mdt"], shape)
    st = None if case["st"] is None else np.array(case["st"], dtype=bool)
    if case["fn"] == "rm":
        r = M.regional_maximum(image, mask, st, True)
        return {"out": np.asarray(r).astype(int).tolist(), "dtype": str(r.dtype), "shape": list(r.shape)}
    r = M.regional_maximum(image, mask, st, False)
    return {"out": np.asarray(r).astype(int).tolist(), "dtype": str(r.dtype), "shape": list(r.shape)}


# ------------------------------------------------------------------------------------ model side

def _code(case):
    """intensities as integers: integer/bool dtypes as they are, floats by rank (order and ties kept)"""
    a = np.array(case["image"], dtype=case["idt"]).reshape(case["shape"])
    if a.dtype.kind == "f":
        assert not np.isnan(a).any()
        vals = np.unique(a)
        a = np.searchsorted(vals, a) - len(vals) // 2
    return [[int(v) for v in row] for row in a.tolist()] if a.shape[0] else []


def _rows(lst, dt, shape, conv):
    a = np.array(lst, dtype=dt).reshape(shape)
    return [[conv(v) for v in row] for row in a.tolist()] if a.shape[0] else []


def _margs(case):
    shape = case["shape"]
    if case["fn"] == "ilm":
        lab = np.array(case["labels"], dtype=case["ldt"]).reshape(shape)
        assert (lab == np.round(lab)).all()
        labs = [[int(v) for v in row] for row in lab.tolist()] if shape[0] else []
        fp = [[int(v != 0) for v in row] for row in np.array(case["fp"], dtype=case["fdt"]).tolist()]
        return [_code(case), labs, fp]
    mask = [] if case["mask"] is None else [_rows(case["mask"], case["mdt"], shape, lambda v: int(v != 0))]
    st = E8 if case["st"] is None else [[int(bool(v)) for v in row] for row in case["st"]]
    return [_code(case), mask, st]


def _bad(o):
    return (not isinstance(o, dict)) or "exc" in o or "crash" in o


ENTRY = {"ilm": "entry_ilm", "rm": "entry_rm", "rmnt": "entry_rm_noties"}


def model(ctx, cases, outs):
    res = [None] * len(cases)
    for fn, entry in ENTRY.items():
        idx = [k for k, c in enumerate(cases) if c["fn"] == fn]
        for k, r in zip(idx, ctx.run_model(entry, [_margs(cases[k]) for k in idx])):
            res[k] = r
    return res


def compare(case, out, m):
    if _bad(out):
        return "implementation raised/crashed: %s" % (str(out)[:300],)
    if not isinstance(m, list) or not m or m[0] != 1:
        return "the model rejects this input (%s) but the implementation returned a result" % (str(m)[:100],)
    if out["dtype"] != "bool" or out["shape"] != case["shape"]:
        return "result dtype/shape %s %s" % (out["dtype"], out["shape"])
    if case["fn"] == "rmnt":
        # the selection among tied pixels is random in the implementation: compare the number of marked pixels
        a, b = sum(map(sum, m[1])), sum(map(sum, out["out"]))
        return None if a == b else "ties-not-ok: model (instances) marks %d pixels, implementation %d" % (a, b)
    if m[1] != out["out"]:
        return "%s differs from the model: impl %s model %s" % (case["fn"], str(out["out"])[:160], str(m[1])[:160])
    return None


# ------------------------------------------------------------------------------------ the property (checker)

NB8 = [(-1, -1), (-1, 0), (-1, 1), (0, -1), (0, 1), (1, -1), (1, 0), (1, 1)]


def _certificate(S, out):
    """labels / BFS depth / roots of the 8-components of S, and the marked pixel of every label (untrusted)"""
    h = len(S); w = len(S[0]) if h else 0
    L = [[0] * w for _ in range(h)]
    D = [[0] * w for _ in range(h)]
    roots = []
    for y in range(h):
        for x in range(w):
            if S[y][x] and not L[y][x]:
                roots.append([y, x]); k = len(roots)
                L[y][x] = k
                frontier = [(y, x)]
                while frontier:
                    nxt = []
                    for (a, b) in frontier:
                        for dy, dx in NB8:
                            p, q = a + dy, b + dx
                            if 0 <= p < h and 0 <= q < w and S[p][q] and not L[p][q]:
                                L[p][q] = k; D[p][q] = D[a][b] + 1; nxt.append((p, q))
                    frontier = nxt
    sel = [[-1, -1] for _ in roots]
    for y in range(h):
        for x in range(w):
            if y < len(out) and x < len(out[y]) and out[y][x] and L[y][x] and sel[L[y][x] - 1] == [-1, -1]:
                sel[L[y][x] - 1] = [y, x]
    return L, D, roots, sel, len(roots)


def check(ctx, cases, outs):
    res = [None] * len(cases)
    for k, o in enumerate(outs):
        if _bad(o):
            res[k] = "implementation raised/crashed on a valid input: %s" % (str(o)[:300],)
        elif o["dtype"] != "bool" or o["shape"] != cases[k]["shape"]:
            res[k] = "result is not a boolean array of the image's shape: %s %s" % (o["dtype"], o["shape"])
    ok = [k for k in range(len(cases)) if res[k] is None]
    for fn, entry, what in (("ilm", "entry_check_ilm", "is_local_maximum output is not the set of non-dominated labelled "
                             "pixels (Spec.LocalMaxSpec.ilm_check false)"),
                            ("rm", "entry_check_rm", "regional_maximum(ties_are_ok=True) output is not the set of pixels "
                             "whose neighbourhood is inside image and mask with no larger value (rm_check false)")):
        idx = [k for k in ok if cases[k]["fn"] == fn]
        args = [_margs(cases[k]) + [outs[k]["out"]] for k in idx]
        for k, r in zip(idx, ctx.run_model(entry, args)):
            if r != 1:
                res[k] = what
    idx = [k for k in ok if cases[k]["fn"] == "rmnt"]
    if idx:
        margs = [_margs(cases[k]) for k in idx]
        ties = ctx.run_model("entry_rm", margs)       # the verified tie set, only used to build the certificate
        args = []
        for k, a, t in zip(idx, margs, ties):
            S = t[1] if isinstance(t, list) and t and t[0] == 1 else []
            L, D, roots, sel, n = _certificate(S, outs[k]["out"])
            args.append(a + [outs[k]["out"], L, D, roots, sel, n])
        for k, r in zip(idx, ctx.run_model("entry_check_noties", args)):
            if r != 1:
                res[k] = ("regional_maximum(ties_are_ok=False) does not mark exactly one pixel of every 8-connected "
                          "plateau of the ties-allowed set (Spec.LocalMaxSpec.noties_check false)")
    return res


def nontrivial(case, out):
    if _bad(out):
        return False
    o = out["out"]
    if case["fn"] == "ilm":
        lab = np.array(case["labels"], dtype=case["ldt"]).reshape(case["shape"]) > 0
        o = np.array(o, bool).reshape(case["shape"])
        return bool((o & lab).any() and (~o & lab).any())
    flat = [v for row in o for v in row]
    return any(flat) and not all(flat)


def kernel_crosscheck(ctx, cases, outs):
    n = 0
    for fn, entry in (("ilm", "entry_ilm"), ("rm", "entry_rm")):
        idx = [k for k, c in enumerate(cases) if c["fn"] == fn and not _bad(outs[k])
               and c["shape"][0] * c["shape"][1] <= 30][:25]
        args = [_margs(cases[k]) for k in idx]
        exp = [[1, outs[k]["out"]] for k in idx]
        r = ctx.coq_eval_eq("Spec.LocalMaxSpec", entry, args, exp, tag=fn)
        n += len(idx)
        bad = [k for k, b in zip(idx, r) if b is not True]
        if bad:
            return "vm_compute evaluation of %s differs from the implementation on case %d" % (entry, bad[0]), n
    return None, n


def search_cases(ctx, rnd):
    rng = ctx.rng
    cases = []
    for _ in range(250):
        cases.append(_ilm_case(rng, 8))
        cases.append(_rm_case(rng, 8, True))
    for _ in range(120):
        cases.append(_rm_case(rng, 8, False))
    return cases


def shrink_candidates(case):
    h, w = case["shape"]
    grids = ["image", "labels", "mask"]

    def cut(rows=None, cols=None):
        c = dict(case)
        for g in grids:
            if c.get(g) is not None:
                a = [list(r) for r in c[g]]
                if rows is not None:
                    a = [r for y, r in enumerate(a) if y != rows]
                if cols is not None:
                    a = [[v for x, v in enumerate(r) if x != cols] for r in a]
                c[g] = a
        c["shape"] = [h - (rows is not None), w - (cols is not None)]
        return c
    lim = 1 if case["fn"] == "ilm" else 2
    if h >= lim + 1:
        for y in (0, h - 1, h // 2):
            yield cut(rows=y)
    if w >= lim + 1:
        for x in (0, w - 1, w // 2):
            yield cut(cols=x)
    if case["fn"] == "ilm":
        fp = case["fp"]
        if len(fp) > 3:
            c = dict(case); c["fp"] = fp[1:-1]; yield c
        if len(fp[0]) > 3:
            c = dict(case); c["fp"] = [r[1:-1] for r in fp]; yield c
        n = 0
        for a in range(len(fp)):
            for b in range(len(fp[0])):
                if fp[a][b] and n < 12:
                    n += 1
                    c = dict(case); f = [list(r) for r in fp]; f[a][b] = 0; c["fp"] = f; yield c
    if case.get("mask") is not None:
        c = dict(case); c["mask"] = None; c["mdt"] = None; yield c
    if case["idt"] != "int64":
        # same order, plain integers
        a = np.array(case["image"], dtype=case["idt"]).reshape(case["shape"])
        if a.size and not np.isinf(a.astype(float)).any():
            vals = np.unique(a)
            c = dict(case); c["image"] = np.searchsorted(vals, a).tolist(); c["idt"] = "int64"; yield c
    if case["fn"] == "ilm" and case["ldt"] != "int32":
        a = np.array(case["labels"], dtype=case["ldt"]).reshape(case["shape"])
        c = dict(case); c["labels"] = a.astype("int32").tolist(); c["ldt"] = "int32"; yield c
    n = 0
    for y in range(h):
        for x in range(w):
            if case["image"][y][x] not in (0, False) and n < 10:
                n += 1
                c = dict(case); a = [list(r) for r in case["image"]]; a[y][x] = 0; c["image"] = a; yield c


MANIFEST = {
    "level_text": (
        "Machine-checked proof (Coq 8.16) about line-level executable Gallina models of is_local_maximum (zero-padded "
        "label copy, stride offsets of the footprint sorted by distance, raveled bounds-checked reads, the three "
        "parallel index arrays shrunk once per offset) and regional_maximum (big_mask, shifted-slice loops, "
        "min_mask): for every image shape (also smaller than the footprint), every label image and every footprint "
        "with odd sizes >= 3, symmetric or not, the model never reads out of bounds and returns exactly the "
        "non-dominated labelled pixels; the ties-allowed regional maximum is exactly the set of pixels whose "
        "structure neighbours are all inside image and mask and not larger; the ties-not-allowed form marks exactly "
        "one pixel per 8-connected plateau relative to stated hypotheses on scipy's label/maximum_position. The "
        "models are tied to the code by exact comparison of complete outputs on generated inputs (extracted OCaml, "
        "cross-checked against vm_compute); the implementation's outputs are also judged by verified checkers, the "
        "ties-not-allowed one through a certificate checker proved sound."),
    "level_note": (
        "Trusted: Coq kernel + vm_compute; extraction (ExtrOcamlBasic only) and the S-expression driver; the Python "
        "harness; NumPy slicing / masking / ravel semantics as modelled pointwise. The tie between model and code is "
        "differential, not a proof about Python."),
    "technique": "Coq proof over executable model + exact differential correspondence + verified certificate checker",
    "design_ref": "DESIGN.md section 7, C17",
}
