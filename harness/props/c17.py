"""C17 - local-maximum detectors mark exactly the non-dominated pixels
(cpmorphology.is_local_maximum, cpmorphology.regional_maximum)."""
import numpy as np

ID = "C17"
PROPS_FILE = "theories/Props/C17.v"
EXTRACT = ("theories/Extract/XC17.v", "c17",
           ["entry_ilm", "entry_rm", "entry_rm_noties", "entry_check_ilm", "entry_check_rm", "entry_check_noties"])
PYX = {}
CASE_TIMEOUT = 30
RULE = ("four streams, corpus first (round 2: every array in C / Fortran / strided / negative-stride / transposed / "
        "read-only layout, dtype extremes, thin 900x3 and 3x900 images, many labels, footprints up to 9x9 / 3x11 / 11x3, "
        "structures 1x1..11x11 with arbitrary content incl. unset centre and larger than the image (model and "
        "implementation must reject the same inputs), border/mask-touching plateaus, call histories in one process "
        "with the global RNG perturbed between calls): is_local_maximum(image, labels, footprint) with footprints 3x3..9x9 (both sizes "
        "odd >= 3; full, random density, one-sided/asymmetric, single off-centre cell, centre off, empty), "
        "regional_maximum(..., ties_are_ok=True) with structure None / 4-connected / random or one-sided 3x3 / "
        "2x2..5x5 and mask None / random / all / none, regional_maximum(..., ties_are_ok=False); shapes skewed to "
        "1x1, 1xN, Nx1, 2x2, 3x3 and images smaller than the footprint; images constant / 2-4 levels (plateaus) / "
        "signed integers / floats in every dtype the functions accept (floats are sent to the model through an "
        "order- and tie-preserving integer coding); label images all-one / random touching labels / blocks / "
        "sparse label numbers / all background. Non-trivial = the output has both a marked pixel and an "
        "unmarked candidate (labelled pixel for is_local_maximum, any pixel for regional_maximum); distinct by "
        "hash of the case")
TRUSTED = [
    "modelled, not verified: NumPy semantics of basic slicing, elementwise comparison/logical_and, boolean-mask "
    "compaction and assignment, fancy-index assignment, ravel() of a C-contiguous array being a view, strides of "
    "C-contiguous arrays (Model/LocalMax.v states each pointwise)",
    "scipy.ndimage.label, distance_transform_edt, rank_order, np.random.permutation and maximum_position are Section "
    "variables of the ties-not-ok model; the theorem about it is relative to 'label numbers the 8-components' and "
    "'maximum_position returns a position inside each label'; the implementation's ties-not-ok output is judged "
    "by the verified certificate checker Spec.LocalMaxSpec.noties_check, not by those assumptions",
    "the Python side computes the certificate (labels, BFS depths, roots) for noties_check; it is untrusted "
    "(a wrong certificate can only make the check fail)",
    "float images reach the model through np.unique ranks (order- and tie-preserving; NaN never generated)",
    "structure=None is sent to the model as the 3x3 all-ones array (scipy generate_binary_structure(2, 2))",
]
ASSUMPTIONS = [
    "image/labels of equal shape in any memory layout; footprint with both dimensions odd and >= 3 (DESIGN.md C17 scope note)",
    "no NaN intensities (all comparisons with NaN are false; outside the property's quantifier)",
    "regional_maximum: a structure with a set non-centre cell at an offset off with n < |off| < 2n-1 along an axis of "
    "length n makes the real code raise ValueError (negative slice bound wraps, shapes differ); outside the property's "
    "quantifier; the model rejects exactly these inputs (C17_regional_maximum_ties_char) and the check only requires "
    "that the implementation rejects them too",
]
EXHAUSTIVE = {"quick": False, "thorough": False}

IMG_DTYPES = ["bool", "uint8", "int8", "uint16", "int16", "uint32", "int32", "uint64", "int64",
              "float16", "float32", "float64"]
LAB_DTYPES = ["int32", "int64", "uint8", "int8", "uint16", "int16", "uint32", "uint64", "bool", "float32", "float64"]
ST_DTYPES = ["bool", "uint8", "int32", "int64"]
FP_DTYPES = ["bool", "uint8", "int64", "float64"]
E8 = [[1, 1, 1], [1, 1, 1], [1, 1, 1]]
E4 = [[0, 1, 0], [1, 1, 1], [0, 1, 0]]


# ------------------------------------------------------------------------------------ generators

def _shape(rng, big):
    u = rng.rand()
    if u < 0.06:
        return 1, 1
    if u < 0.16:
        return 1, int(rng.randint(2, big + 1))
    if u < 0.26:
        return int(rng.randint(2, big + 1)), 1
    if u < 0.34:
        return 2, 2
    if u < 0.42:
        return 3, 3
    if u < 0.50:
        return int(rng.randint(2, 4)), int(rng.randint(2, big + 1))
    if u < 0.58:
        return int(rng.randint(2, big + 1)), int(rng.randint(2, 4))
    return int(rng.randint(2, big + 1)), int(rng.randint(2, big + 1))


def _image(rng, h, w):
    """returns (nested list, dtype name, class)"""
    dt = IMG_DTYPES[rng.randint(len(IMG_DTYPES))] if rng.rand() < 0.7 else "float64"
    kind = np.dtype(dt).kind
    u = rng.rand()
    if u < 0.10:
        cls = "constant"; a = np.full((h, w), rng.randint(-3, 4))
    elif u < 0.45:
        cls = "levels"; a = rng.randint(0, int(rng.choice([2, 3, 4])), (h, w)) - int(rng.choice([0, 0, 1, 2]))
    elif u < 0.60:
        cls = "blocks"     # large plateaus
        a = np.kron(rng.randint(-2, 3, ((h + 1) // 2, (w + 1) // 2)), np.ones((2, 2), int))[:h, :w]
    elif u < 0.75:
        cls = "ramp"; a = np.add.outer(np.arange(h) * int(rng.choice([-1, 0, 1])), np.arange(w) * int(rng.choice([-1, 1])))
    elif u < 0.90:
        cls = "random"; a = rng.randint(-100, 101, (h, w))
    elif u < 0.95:
        cls = "wide"; a = rng.randint(-2 ** 31, 2 ** 31, (h, w))
    else:
        # the extreme values of the dtype (no arithmetic on them below)
        cls = "extremes"
        if kind == "f":
            fi = np.finfo(dt)
            vals = [fi.max, fi.min, fi.tiny, -fi.tiny, 0.0, -0.0, np.inf, -np.inf, 1.0, fi.eps]
        elif kind == "b":
            vals = [False, True]
        else:
            ii = np.iinfo(dt)
            vals = [ii.min, ii.max, ii.min + 1, ii.max - 1, 0, 1]
        a = np.array([vals[rng.randint(len(vals))] for _ in range(h * w)], dtype=dt).reshape(h, w)
        return a.tolist(), dt, cls
    if kind == "b":
        a = (a % 2) != 0
    elif kind == "u":
        a = np.abs(a).astype(np.int64) % (2 ** min(8 * np.dtype(dt).itemsize - 1, 62))
    elif kind == "i":
        lim = 2 ** min(8 * np.dtype(dt).itemsize - 1, 62)
        a = np.clip(a, -lim, lim - 1)
    else:
        a = a.astype(np.float64)
        v = rng.rand()
        if v < 0.3 and cls in ("random", "wide"):
            a = a + rng.rand(h, w)
        elif v < 0.5:
            a = a / 4.0
        if dt == "float16":
            a = np.clip(a, -60000, 60000)
        if rng.rand() < 0.05 and a.size:
            a.flat[rng.randint(a.size)] = np.inf if rng.rand() < 0.5 else -np.inf
        if rng.rand() < 0.05 and a.size:
            a.flat[rng.randint(a.size)] = -0.0
    a = np.asarray(a).astype(dt)
    return a.tolist(), dt, cls


def _labels(rng, h, w):
    dt = LAB_DTYPES[rng.randint(len(LAB_DTYPES))] if rng.rand() < 0.6 else "int32"
    u = rng.rand()
    if u < 0.15:
        cls = "all-one"; a = np.ones((h, w), int)
    elif u < 0.50:
        cls = "touching"; a = rng.randint(0, int(rng.choice([2, 3, 4, 6])), (h, w))
    elif u < 0.70:
        cls = "blocks"
        a = np.kron(rng.randint(0, 4, ((h + 2) // 3, (w + 2) // 3)), np.ones((3, 3), int))[:h, :w]
    elif u < 0.80:
        cls = "sparse-numbers"; a = rng.choice([0, 1, 7, 100, 127], (h, w))
    elif u < 0.87:
        cls = "background"; a = np.zeros((h, w), int)
    elif u < 0.94:
        cls = "single"; a = np.zeros((h, w), int)
        if a.size:
            a.flat[rng.randint(a.size)] = 3
    elif u < 0.97:
        cls = "stripes"; a = np.add.outer(np.arange(h), np.zeros(w, int)) % 3
    else:
        cls = "many"      # every pixel (or every 2x2 block) its own label
        if rng.rand() < 0.5:
            a = np.arange(1, h * w + 1).reshape(h, w)
        else:
            a = np.kron(np.arange(1, ((h + 1) // 2) * ((w + 1) // 2) + 1).reshape((h + 1) // 2, (w + 1) // 2),
                        np.ones((2, 2), int))[:h, :w]
        if np.dtype(dt).kind in "iu":
            a = a % (np.iinfo(dt).max + 1 if np.iinfo(dt).max < 2 ** 31 else 2 ** 31)
    if dt == "bool":
        a = a > 0
    a = np.asarray(a).astype(dt)
    return a.tolist(), dt, cls


FP_SHAPES = [(3, 3), (3, 3), (3, 3), (5, 3), (3, 5), (5, 5), (3, 7), (7, 3), (7, 7), (5, 7), (9, 3), (9, 9),
             (3, 11), (11, 3), (9, 5)]


def _footprint(rng):
    fh, fw = FP_SHAPES[rng.randint(len(FP_SHAPES))]
    u = rng.rand()
    if u < 0.3:
        cls = "full"; f = np.ones((fh, fw), bool)
    elif u < 0.6:
        cls = "random"; f = rng.rand(fh, fw) < rng.choice([0.3, 0.6, 0.9])
    elif u < 0.75:
        cls = "one-sided"; f = np.zeros((fh, fw), bool)
        if rng.rand() < 0.5:
            f[:fh // 2 + (rng.rand() < 0.5), :] = True
        else:
            f[:, fw // 2 + (rng.rand() < 0.5):] = True
        f &= rng.rand(fh, fw) < 0.9
    elif u < 0.85:
        cls = "single-cell"; f = np.zeros((fh, fw), bool); f[rng.randint(fh), rng.randint(fw)] = True
    elif u < 0.92:
        cls = "centre-off"; f = rng.rand(fh, fw) < 0.7; f[fh // 2, fw // 2] = False
    elif u < 0.96:
        cls = "corners"; f = np.zeros((fh, fw), bool); f[0, 0] = f[-1, -1] = True; f[0, -1] = rng.rand() < 0.5
    else:
        cls = "empty"; f = np.zeros((fh, fw), bool)
    dt = FP_DTYPES[rng.randint(len(FP_DTYPES))] if rng.rand() < 0.4 else "bool"
    f = f.astype(dt)
    if dt != "bool" and rng.rand() < 0.5:
        f = f * 3          # footprint != 0
    return f.tolist(), dt, cls


def _structure(rng, h, w, ties_ok):
    u = rng.rand()
    if u < 0.25:
        return None, "default"
    if u < 0.40:
        return E4, "4-connected"
    if u < 0.45:
        return E8, "8-connected"
    if u < 0.58:
        return (rng.rand(3, 3) < 0.6).astype(int).tolist(), "random3x3"
    if u < 0.64:
        s = np.zeros((3, 3), int); s[:2, :] = 1; s[1, 1] = rng.rand() < 0.5
        return s.tolist(), "one-sided3x3"
    if u < 0.72:
        # very sparse: plateaus may touch the border (no neighbour is looked at in most directions)
        s = np.zeros((3, 3), int); s[rng.randint(3), rng.randint(3)] = 1; s[1, 1] = rng.rand() < 0.5
        return s.tolist(), "sparse3x3"
    if u < 0.90:
        # every odd shape up to 11x11, arbitrary content, centre set or not; may exceed the image
        sh, sw = int(rng.choice([1, 3, 5, 7, 9, 11])), int(rng.choice([1, 3, 5, 7, 9, 11]))
        s = (rng.rand(sh, sw) < rng.choice([0.2, 0.5, 0.8])).astype(int)
        s[sh // 2, sw // 2] = rng.rand() < 0.5
        return s.tolist(), "odd%dx%d" % (sh, sw)
    sh, sw = int(rng.choice([2, 4, 6])), int(rng.choice([1, 2, 3, 4]))
    if rng.rand() < 0.5:
        sh, sw = sw, sh
    return (rng.rand(sh, sw) < 0.6).astype(int).tolist(), "even%dx%d" % (sh, sw)


def _mask(rng, h, w):
    u = rng.rand()
    if u < 0.3:
        return None, None, "none"
    dt = "bool" if rng.rand() < 0.8 else "uint8"
    if u < 0.75:
        m = rng.rand(h, w) < 0.85; cls = "dense"
    elif u < 0.85:
        m = np.ones((h, w), bool); cls = "all"
    elif u < 0.92:
        m = rng.rand(h, w) < 0.4; cls = "sparse"
    else:
        m = np.zeros((h, w), bool); cls = "empty"
    return m.astype(dt).tolist(), dt, cls


def _ilm_case(rng, big, shape=None):
    h, w = shape or _shape(rng, big)
    img, idt, icls = _image(rng, h, w)
    lab, ldt, lcls = _labels(rng, h, w)
    fp, fdt, fcls = _footprint(rng)
    return {"fn": "ilm", "shape": [h, w], "image": img, "idt": idt, "labels": lab, "ldt": ldt, "fp": fp, "fdt": fdt,
            "lay": _pick_layouts(rng, ["image", "labels", "fp"]), "cls": [icls, lcls, fcls]}


def _rm_case(rng, big, ties_ok, shape=None):
    h, w = shape or _shape(rng, big)
    img, idt, icls = _image(rng, h, w)
    if rng.rand() < 0.5:          # regional maxima need plateaus to be interesting
        img, idt, icls = (rng.randint(0, 3, (h, w)).astype("float64").tolist(), "float64", "levels")
    m, mdt, mcls = _mask(rng, h, w)
    st, scls = _structure(rng, h, w, ties_ok)
    return {"fn": "rm" if ties_ok else "rmnt", "shape": [h, w], "image": img, "idt": idt, "mask": m, "mdt": mdt,
            "st": st, "sdt": ST_DTYPES[rng.randint(len(ST_DTYPES))] if st is not None else None,
            "lay": _pick_layouts(rng, ["image", "mask", "st"]), "cls": [icls, mcls, scls]}


def _hist_case(rng, big):
    """a few calls in one process, with repetitions; the global RNG is perturbed before every call"""
    base = [_rm_case(rng, min(big, 7), False) for _ in range(2)] + [_rm_case(rng, min(big, 7), True)]
    if rng.rand() < 0.5:
        base.append(_ilm_case(rng, min(big, 7)))
    order = [0, 1, 0, 2, 1, 0] if len(base) == 3 else [0, 3, 1, 0, 2, 3, 1, 0]
    calls = [base[k] for k in order]
    return {"fn": "hist", "shape": [0, 0], "calls": calls, "seeds": [int(rng.randint(0, 10 ** 6)) for _ in calls],
            "idt": "-", "cls": ["hist", "-", "-"]}


def _corpus():
    c = []
    one = lambda h, w: [[1] * w for _ in range(h)]
    # images smaller than the footprint, 1xN, Nx1, zero-size
    for (h, w) in [(1, 1), (1, 5), (5, 1), (2, 2), (0, 3), (3, 0)]:
        for fs in [(3, 3), (7, 7), (9, 3)]:
            c.append({"fn": "ilm", "shape": [h, w], "image": [[(3 * y + x) % 3 - 1 for x in range(w)] for y in range(h)],
                      "idt": "int32", "labels": one(h, w), "ldt": "int32", "fp": one(*fs), "fdt": "bool",
                      "cls": ["corpus", "all-one", "full"]})
    # two labels touching; the larger neighbour belongs to the other label
    c.append({"fn": "ilm", "shape": [2, 3], "image": [[1, 5, 2], [0, 1, 9]], "idt": "float64",
              "labels": [[1, 2, 1], [1, 1, 2]], "ldt": "int32", "fp": one(3, 3), "fdt": "bool",
              "cls": ["corpus", "touching", "full"]})
    # asymmetric footprint: only the pixel to the upper left is looked at
    c.append({"fn": "ilm", "shape": [3, 3], "image": [[9, 1, 1], [1, 5, 1], [1, 1, 7]], "idt": "uint8",
              "labels": one(3, 3), "ldt": "uint8", "fp": [[1, 0, 0], [0, 0, 0], [0, 0, 0]], "fdt": "uint8",
              "cls": ["corpus", "all-one", "single-cell"]})
    # plateau
    c.append({"fn": "ilm", "shape": [3, 4], "image": [[2, 2, 2, 0], [2, 2, 2, 0], [0, 0, 0, 0]], "idt": "int8",
              "labels": one(3, 4), "ldt": "int8", "fp": one(3, 3), "fdt": "bool", "cls": ["corpus", "all-one", "full"]})
    for ties in (True, False):
        fn = "rm" if ties else "rmnt"
        for (h, w) in [(1, 1), (1, 4), (4, 1), (3, 3), (5, 6)]:
            c.append({"fn": fn, "shape": [h, w], "image": [[0.0] * w for _ in range(h)], "idt": "float64",
                      "mask": None, "mdt": None, "st": None, "cls": ["constant", "none", "default"]})
        # two plateaus touching diagonally + a masked pixel
        c.append({"fn": fn, "shape": [6, 6], "idt": "float64", "mask": None, "mdt": None, "st": None,
                  "image": [[0, 0, 0, 0, 0, 0], [0, 2, 2, 0, 0, 0], [0, 2, 2, 0, 0, 0], [0, 0, 0, 2, 2, 0],
                            [0, 0, 0, 2, 0, 0], [0, 0, 0, 0, 0, 0]], "cls": ["corpus", "none", "default"]})
        c.append({"fn": fn, "shape": [5, 5], "idt": "int16", "mdt": "bool", "st": E4,
                  "image": [[0, 0, 0, 0, 0], [0, 3, 3, 3, 0], [0, 3, -1, 3, 0], [0, 3, 3, 3, 0], [0, 0, 0, 0, 0]],
                  "mask": [[1, 1, 1, 1, 1], [1, 1, 1, 1, 1], [1, 1, 0, 1, 1], [1, 1, 1, 1, 1], [1, 1, 1, 1, 1]],
                  "cls": ["corpus", "hole", "4-connected"]})
        # the peak itself is masked out, all its neighbours are inside the mask (full and non-full structure)
        for st in (None, E4, [[0, 1, 0], [0, 0, 0], [0, 0, 0]]):
            c.append({"fn": fn, "shape": [5, 5], "idt": "float64", "mdt": "bool", "st": st,
                      "image": [[0, 0, 0, 0, 0], [0, 0, 0, 0, 0], [0, 0, 5, 0, 0], [0, 0, 0, 0, 0], [0, 0, 0, 0, 0]],
                      "mask": [[1, 1, 1, 1, 1], [1, 1, 1, 1, 1], [1, 1, 0, 1, 1], [1, 1, 1, 1, 1], [1, 1, 1, 1, 1]],
                      "cls": ["corpus", "hole", "default" if st is None else "4-connected" if st == E4 else "one-sided3x3"]})
    return c


def _count(ctx, c):
    ctx.count(c["fn"])
    if c["fn"] == "hist":
        for s in c["calls"]:
            ctx.count("hist-call:" + s["fn"])
        return
    ctx.count("shape:%s" % ("1x1" if c["shape"] == [1, 1] else "thin-long" if max(c["shape"]) >= 100 else
                            "1xN" if c["shape"][0] == 1 else "Nx1" if c["shape"][1] == 1 else
                            "small" if max(c["shape"]) <= 3 else "general"))
    ctx.count("image:" + c["cls"][0])
    ctx.count("idt:" + c["idt"])
    for name, kind in sorted((c.get("lay") or {}).items()):
        ctx.count("layout:%s:%s" % (name, kind))
    if not (c.get("lay") or {}):
        ctx.count("layout:all-C")
    if c["fn"] == "ilm":
        ctx.count("labels:" + c["cls"][1]); ctx.count("fp:" + c["cls"][2]); ctx.count("ldt:" + c["ldt"])
        ctx.count("fp:%dx%d" % (len(c["fp"]), len(c["fp"][0])))
        if c["shape"][0] < len(c["fp"]) or c["shape"][1] < len(c["fp"][0]):
            ctx.count("image smaller than footprint")
    else:
        ctx.count("mask:" + c["cls"][1]); ctx.count("structure:" + c["cls"][2])
        if not _slices_ok(c):
            ctx.count("structure exceeds image (both must reject)")


def generate(ctx):
    rng = ctx.rng
    big = ctx.n(9, 12)
    cases = _corpus()
    for _ in range(ctx.n(1500, 15000)):
        cases.append(_ilm_case(rng, big))
    for _ in range(ctx.n(1000, 10000)):
        cases.append(_rm_case(rng, big, True))
    for _ in range(ctx.n(500, 5000)):
        cases.append(_rm_case(rng, big, False))
    for _ in range(ctx.n(40, 400)):
        cases.append(_hist_case(rng, big))
    # thin long images (longer than any internal chunk) and wide many-label images
    for _ in range(ctx.n(2, 12)):
        for shape in ((900, 3), (3, 900), (1, 700), (650, 1)):
            cases.append(_ilm_case(rng, big, shape))
    for _ in range(ctx.n(1, 6)):
        for shape in ((900, 3), (3, 900)):
            cases.append(_rm_case(rng, big, True, shape))
            cases.append(_rm_case(rng, big, False, shape))
    for c in cases:
        _count(ctx, c)
    return cases


LAYOUTS = ["C", "F", "strided", "neg", "T", "ro", "strided-ro", "offset"]


def _lay(a, kind):
    """an array equal to a in the requested memory layout"""
    a = np.ascontiguousarray(a)
    if kind in (None, "C"):
        r = a
    elif kind == "F":
        r = np.asfortranarray(a)
    elif kind in ("strided", "strided-ro"):
        big = np.zeros(tuple(2 * n + 1 for n in a.shape), a.dtype)
        big[tuple(slice(1, None, 2) for _ in a.shape)] = a
        r = big[tuple(slice(1, None, 2) for _ in a.shape)]
    elif kind == "neg":
        r = np.ascontiguousarray(a[::-1, ::-1])[::-1, ::-1]
    elif kind == "T":
        r = np.ascontiguousarray(a.T).T
    elif kind == "offset":
        big = np.zeros(tuple(n + 3 for n in a.shape), a.dtype)
        big[2:2 + a.shape[0], 1:1 + a.shape[1]] = a
        r = big[2:2 + a.shape[0], 1:1 + a.shape[1]]
    elif kind == "ro":
        r = a.copy()
    else:
        raise ValueError(kind)
    if kind in ("ro", "strided-ro"):
        r.setflags(write=False)
    assert r.shape == a.shape and r.dtype == a.dtype and (r == a).all()
    return r


def _arr(lst, dt, shape, kind=None):
    return _lay(np.array(lst, dtype=dt).reshape(shape), kind)


def _pick_layouts(rng, names):
    if rng.rand() < 0.35:
        return {}
    return {n: LAYOUTS[rng.randint(len(LAYOUTS))] for n in names if rng.rand() < 0.7}


def _impl_one(case):
    from centrosome import cpmorphology as M
    shape = tuple(case["shape"])
    lay = case.get("lay") or {}
    image = _arr(case["image"], case["idt"], shape, lay.get("image"))
    keep = [image.copy()]
    if case["fn"] == "ilm":
        labels = _arr(case["labels"], case["ldt"], shape, lay.get("labels"))
        fpa = np.array(case["fp"], dtype=case["fdt"])
        fp = _lay(fpa, lay.get("fp"))
        r = M.is_local_maximum(image, labels, fp)
        same = (image == keep[0]).all()
    else:
        mask = None if case["mask"] is None else _arr(case["mask"], case["mdt"], shape, lay.get("mask"))
        st = None if case["st"] is None else _lay(np.array(case["st"], dtype=case.get("sdt") or "bool"), lay.get("st"))
        r = M.regional_maximum(image, mask, st, case["fn"] == "rm")
        same = (image == keep[0]).all()
    return {"out": np.asarray(r).astype(int).tolist(), "dtype": str(r.dtype), "shape": list(r.shape),
            "image_unchanged": bool(same)}


def impl(case):
    if case["fn"] != "hist":
        return _impl_one(case)
    outs = []
    for k, sub in enumerate(case["calls"]):
        # perturb the global RNG between calls: results must not depend on the call history
        np.random.seed(case["seeds"][k])
        np.random.rand(case["seeds"][k] % 7)
        try:
            outs.append(_impl_one(sub))
        except Exception as e:       # noqa
            outs.append({"exc": type(e).__name__, "msg": str(e)[:300]})
    return {"outs": outs}


# ------------------------------------------------------------------------------------ model side

def _code(case):
    """intensities as integers: integer/bool dtypes as they are, floats by rank (order and ties kept)"""
    a = np.array(case["image"], dtype=case["idt"]).reshape(case["shape"])
    if a.dtype.kind == "f":
        assert not np.isnan(a).any()
        vals = np.unique(a)
        a = np.searchsorted(vals, a) - len(vals) // 2
    return [[int(v) for v in row] for row in a.tolist()] if a.shape[0] else []


def _rows(lst, dt, shape, conv):
    a = np.array(lst, dtype=dt).reshape(shape)
    return [[conv(v) for v in row] for row in a.tolist()] if a.shape[0] else []


def _margs(case):
    shape = case["shape"]
    if case["fn"] == "ilm":
        lab = np.array(case["labels"], dtype=case["ldt"]).reshape(shape)
        assert (lab == np.round(lab)).all()
        labs = [[int(v) for v in row] for row in lab.tolist()] if shape[0] else []
        fp = [[int(v != 0) for v in row] for row in np.array(case["fp"], dtype=case["fdt"]).tolist()]
        return [_code(case), labs, fp]
    mask = [] if case["mask"] is None else [_rows(case["mask"], case["mdt"], shape, lambda v: int(v != 0))]
    st = E8 if case["st"] is None else [[int(bool(v)) for v in row] for row in case["st"]]
    return [_code(case), mask, st]


def _bad(o):
    return (not isinstance(o, dict)) or "exc" in o or "crash" in o


def _slices_ok(case):
    """Python copy of Proofs.LocalMaxReg.slices_okb: does the real code's slice arithmetic work for this structure?
    (only used to decide whether an exception of regional_maximum is inside the property's domain)"""
    if case["fn"] == "ilm":
        return True
    st = E8 if case["st"] is None else case["st"]
    sh, sw = len(st), len(st[0]) if st else 0
    h, w = case["shape"]

    def ok(off, n):
        return abs(off) <= n or 2 * n - 1 <= abs(off)
    for i in range(sh):
        for j in range(sw):
            if st[i][j] and not (i == sh // 2 and j == sw // 2):
                if not (ok(i - sh // 2, h) and ok(j - sw // 2, w)):
                    return False
    return True


ENTRY = {"ilm": "entry_ilm", "rm": "entry_rm", "rmnt": "entry_rm_noties"}
BIG = 150          # cells; above this the (slow) executable label instance is not run


def _flatten(cases, outs):
    """hist cases are sequences of ordinary calls: returns the flat list [(case index, sub index, case, out)]"""
    flat = []
    for k, c in enumerate(cases):
        o = outs[k] if outs is not None else None
        if c["fn"] == "hist":
            subs = o["outs"] if isinstance(o, dict) and "outs" in o else [o] * len(c["calls"])
            for s, (sc, so) in enumerate(zip(c["calls"], subs)):
                flat.append((k, s, sc, so))
        else:
            flat.append((k, None, c, o))
    return flat


def _model_flat(ctx, fcases):
    res = [None] * len(fcases)
    for fn, entry in ENTRY.items():
        idx = [k for k, c in enumerate(fcases) if c["fn"] == fn
               and not (fn == "rmnt" and c["shape"][0] * c["shape"][1] > BIG)]
        for k, r in zip(idx, ctx.run_model(entry, [_margs(fcases[k]) for k in idx])):
            res[k] = r
        if fn == "rmnt":      # large ties-not-ok cases: only whether the model rejects (through the ties-allowed model)
            idx = [k for k, c in enumerate(fcases) if c["fn"] == fn and c["shape"][0] * c["shape"][1] > BIG]
            for k, r in zip(idx, ctx.run_model("entry_rm", [_margs(fcases[k]) for k in idx])):
                res[k] = [1, None] if isinstance(r, list) and r and r[0] == 1 else r
    return res


def model(ctx, cases, outs):
    flat = _flatten(cases, outs)
    ms = _model_flat(ctx, [f[2] for f in flat])
    res = [None] * len(cases)
    for (k, s, _, _), m in zip(flat, ms):
        if s is None:
            res[k] = m
        else:
            res[k] = (res[k] or []) + [m]
    return res


def _compare_one(case, out, m):
    rejected = not (isinstance(m, list) and m and m[0] == 1)
    if rejected:
        if m != [0]:
            return "model error: %s" % (str(m)[:100],)
        if isinstance(out, dict) and out.get("exc") in ("ValueError", "IndexError"):
            return None          # model and implementation reject the same input
        return "the model rejects this input but the implementation returned %s" % (str(out)[:120],)
    if _bad(out):
        return "implementation raised/crashed but the model accepts the input: %s" % (str(out)[:300],)
    if out["dtype"] != "bool" or out["shape"] != case["shape"]:
        return "result dtype/shape %s %s" % (out["dtype"], out["shape"])
    if case["fn"] == "rmnt":
        if m[1] is None:
            return None
        # the selection among tied pixels is random in the implementation: compare the number of marked pixels
        a, b = sum(map(sum, m[1])), sum(map(sum, out["out"]))
        return None if a == b else "ties-not-ok: model (instances) marks %d pixels, implementation %d" % (a, b)
    if m[1] != out["out"]:
        return "%s differs from the model: impl %s model %s" % (case["fn"], str(out["out"])[:160], str(m[1])[:160])
    return None


def compare(case, out, m):
    if case["fn"] != "hist":
        return _compare_one(case, out, m)
    if _bad(out):
        return "implementation raised/crashed: %s" % (str(out)[:300],)
    for s, (sc, so, sm) in enumerate(zip(case["calls"], out["outs"], m)):
        d = _compare_one(sc, so, sm)
        if d:
            return "call %d of the history: %s" % (s, d)
    return None


# ------------------------------------------------------------------------------------ the property (checker)

NB8 = [(-1, -1), (-1, 0), (-1, 1), (0, -1), (0, 1), (1, -1), (1, 0), (1, 1)]


def _certificate(S, out):
    """labels / BFS depth / roots of the 8-components of S, and the marked pixel of every label (untrusted)"""
    h = len(S); w = len(S[0]) if h else 0
    L = [[0] * w for _ in range(h)]
    D = [[0] * w for _ in range(h)]
    roots = []
    for y in range(h):
        for x in range(w):
            if S[y][x] and not L[y][x]:
                roots.append([y, x]); k = len(roots)
                L[y][x] = k
                frontier = [(y, x)]
                while frontier:
                    nxt = []
                    for (a, b) in frontier:
                        for dy, dx in NB8:
                            p, q = a + dy, b + dx
                            if 0 <= p < h and 0 <= q < w and S[p][q] and not L[p][q]:
                                L[p][q] = k; D[p][q] = D[a][b] + 1; nxt.append((p, q))
                    frontier = nxt
    sel = [[-1, -1] for _ in roots]
    for y in range(h):
        for x in range(w):
            if y < len(out) and x < len(out[y]) and out[y][x] and L[y][x] and sel[L[y][x] - 1] == [-1, -1]:
                sel[L[y][x] - 1] = [y, x]
    return L, D, roots, sel, len(roots)


def _check_flat(ctx, fcases, fouts):
    res = [None] * len(fcases)
    for k, o in enumerate(fouts):
        inside = _slices_ok(fcases[k])
        if _bad(o):
            if not inside and isinstance(o, dict) and o.get("exc") in ("ValueError", "IndexError"):
                ctx.count("structure exceeds image: rejected (outside the property's domain)")
                res[k] = "skip"
            else:
                res[k] = "implementation raised/crashed on a valid input: %s" % (str(o)[:300],)
        elif not inside:
            res[k] = ("implementation returned a result for a structure whose shifted slices are incompatible "
                      "(the faithful model fails here)")
        elif o["dtype"] != "bool" or o["shape"] != fcases[k]["shape"]:
            res[k] = "result is not a boolean array of the image's shape: %s %s" % (o["dtype"], o["shape"])
        elif not o.get("image_unchanged", True):
            res[k] = "the call modified its image argument"
    ok = [k for k in range(len(fcases)) if res[k] is None]
    for fn, entry, what in (("ilm", "entry_check_ilm", "is_local_maximum output is not the set of non-dominated labelled "
                             "pixels (Spec.LocalMaxSpec.ilm_check false)"),
                            ("rm", "entry_check_rm", "regional_maximum(ties_are_ok=True) output is not the set of pixels "
                             "inside the mask whose neighbourhood is inside image and mask with no larger value "
                             "(rm_check false)")):
        idx = [k for k in ok if fcases[k]["fn"] == fn]
        args = [_margs(fcases[k]) + [fouts[k]["out"]] for k in idx]
        for k, r in zip(idx, ctx.run_model(entry, args)):
            if r != 1:
                res[k] = what
    idx = [k for k in ok if fcases[k]["fn"] == "rmnt"]
    if idx:
        margs = [_margs(fcases[k]) for k in idx]
        ties = ctx.run_model("entry_rm", margs)       # the verified tie set, only used to build the certificate
        args = []
        for k, a, t in zip(idx, margs, ties):
            S = t[1] if isinstance(t, list) and t and t[0] == 1 else []
            L, D, roots, sel, n = _certificate(S, fouts[k]["out"])
            args.append(a + [fouts[k]["out"], L, D, roots, sel, n])
        for k, r in zip(idx, ctx.run_model("entry_check_noties", args)):
            if r != 1:
                res[k] = ("regional_maximum(ties_are_ok=False) does not mark exactly one pixel of every 8-connected "
                          "plateau of the ties-allowed set (Spec.LocalMaxSpec.noties_check false)")
    return [None if r == "skip" else r for r in res]


def check(ctx, cases, outs):
    res = [None] * len(cases)
    for k, (c, o) in enumerate(zip(cases, outs)):
        if c["fn"] == "hist" and (_bad(o) or "outs" not in o):
            res[k] = "implementation raised/crashed: %s" % (str(o)[:300],)
    flat = [f for f in _flatten(cases, outs) if res[f[0]] is None]
    verdicts = _check_flat(ctx, [f[2] for f in flat], [f[3] for f in flat])
    for (k, s, _, _), v in zip(flat, verdicts):
        if v and res[k] is None:
            res[k] = v if s is None else "call %d of the history: %s" % (s, v)
    # history independence: the same call made several times in one process gives the same result
    for k, (c, o) in enumerate(zip(cases, outs)):
        if c["fn"] == "hist" and res[k] is None:
            seen = {}
            for s, (sc, so) in enumerate(zip(c["calls"], o["outs"])):
                key = case_key(sc)
                if key in seen and seen[key] != so:
                    res[k] = ("history dependence: call %d repeats an earlier call but returns a different result "
                              "(%s vs %s)" % (s, str(so)[:120], str(seen[key])[:120]))
                    break
                seen[key] = so
    return res


def case_key(c):
    import json
    return json.dumps(c, sort_keys=True)


def nontrivial(case, out):
    if _bad(out):
        return False
    if case["fn"] == "hist":
        return any(nontrivial(sc, so) for sc, so in zip(case["calls"], out["outs"]))
    o = out["out"]
    if case["fn"] == "ilm":
        lab = np.array(case["labels"], dtype=case["ldt"]).reshape(case["shape"]) > 0
        o = np.array(o, bool).reshape(case["shape"])
        return bool((o & lab).any() and (~o & lab).any())
    flat = [v for row in o for v in row]
    return any(flat) and not all(flat)


def kernel_crosscheck(ctx, cases, outs):
    n = 0
    for fn, entry in (("ilm", "entry_ilm"), ("rm", "entry_rm")):
        idx = [k for k, c in enumerate(cases) if c["fn"] == fn and not _bad(outs[k])
               and c["shape"][0] * c["shape"][1] <= 30 and _slices_ok(c)][:25]
        args = [_margs(cases[k]) for k in idx]
        exp = [[1, outs[k]["out"]] for k in idx]
        r = ctx.coq_eval_eq("Spec.LocalMaxSpec", entry, args, exp, tag=fn)
        n += len(idx)
        bad = [k for k, b in zip(idx, r) if b is not True]
        if bad:
            return "vm_compute evaluation of %s differs from the implementation on case %d" % (entry, bad[0]), n
    return None, n


def search_cases(ctx, rnd):
    rng = ctx.rng
    cases = []
    for _ in range(250):
        cases.append(_ilm_case(rng, 8))
        cases.append(_rm_case(rng, 8, True))
    for _ in range(120):
        cases.append(_rm_case(rng, 8, False))
    for _ in range(20):
        cases.append(_hist_case(rng, 8))
    return cases


def shrink_candidates(case):
    if case["fn"] == "hist":
        calls = case["calls"]
        for k in range(len(calls)):            # a single call, then histories without one call
            yield calls[k]
        for k in range(len(calls)):
            if len(calls) > 2:
                c = dict(case); c["calls"] = calls[:k] + calls[k + 1:]; c["seeds"] = case["seeds"][:k] + case["seeds"][k + 1:]
                yield c
        return
    if case.get("lay"):
        c = dict(case); c["lay"] = {}; yield c
        for n in list(case["lay"]):
            c = dict(case); c["lay"] = {k: v for k, v in case["lay"].items() if k != n}; yield c
    h, w = case["shape"]
    if max(h, w) > 40:
        # long images: halve
        c = dict(case)
        for g in ("image", "labels", "mask"):
            if c.get(g) is not None:
                c[g] = [r[:max(1, w // 2)] for r in c[g][:max(1, h // 2)]]
        c["shape"] = [max(1, h // 2) if h else 0, max(1, w // 2) if w else 0]
        yield c
    grids = ["image", "labels", "mask"]

    def cut(rows=None, cols=None):
        c = dict(case)
        for g in grids:
            if c.get(g) is not None:
                a = [list(r) for r in c[g]]
                if rows is not None:
                    a = [r for y, r in enumerate(a) if y != rows]
                if cols is not None:
                    a = [[v for x, v in enumerate(r) if x != cols] for r in a]
                c[g] = a
        c["shape"] = [h - (rows is not None), w - (cols is not None)]
        return c
    lim = 1 if case["fn"] == "ilm" else 2
    if h >= lim + 1:
        for y in (0, h - 1, h // 2):
            yield cut(rows=y)
    if w >= lim + 1:
        for x in (0, w - 1, w // 2):
            yield cut(cols=x)
    if case["fn"] == "ilm":
        fp = case["fp"]
        if len(fp) > 3:
            c = dict(case); c["fp"] = fp[1:-1]; yield c
        if len(fp[0]) > 3:
            c = dict(case); c["fp"] = [r[1:-1] for r in fp]; yield c
        n = 0
        for a in range(len(fp)):
            for b in range(len(fp[0])):
                if fp[a][b] and n < 12:
                    n += 1
                    c = dict(case); f = [list(r) for r in fp]; f[a][b] = 0; c["fp"] = f; yield c
    if case.get("mask") is not None:
        c = dict(case); c["mask"] = None; c["mdt"] = None; yield c
    if case["idt"] != "int64":
        # same order, plain integers
        a = np.array(case["image"], dtype=case["idt"]).reshape(case["shape"])
        if a.size and not np.isinf(a.astype(float)).any():
            vals = np.unique(a)
            c = dict(case); c["image"] = np.searchsorted(vals, a).tolist(); c["idt"] = "int64"; yield c
    if case["fn"] == "ilm" and case["ldt"] != "int32":
        a = np.array(case["labels"], dtype=case["ldt"]).reshape(case["shape"])
        c = dict(case); c["labels"] = a.astype("int32").tolist(); c["ldt"] = "int32"; yield c
    n = 0
    for y in range(h):
        for x in range(w):
            if case["image"][y][x] not in (0, False) and n < 10:
                n += 1
                c = dict(case); a = [list(r) for r in case["image"]]; a[y][x] = 0; c["image"] = a; yield c


MANIFEST = {
    "level_text": (
        "Machine-checked proof (Coq 8.16) about line-level executable Gallina models of is_local_maximum (zero-padded "
        "label copy, stride offsets of the footprint sorted by distance, raveled bounds-checked reads, the three "
        "parallel index arrays shrunk once per offset) and regional_maximum (big_mask, shifted-slice loops, "
        "min_mask): for every image shape (also smaller than the footprint), every label image and every footprint "
        "with odd sizes >= 3, symmetric or not, the model never reads out of bounds and returns exactly the "
        "non-dominated labelled pixels; the ties-allowed regional maximum is exactly the set of pixels whose "
        "structure neighbours are all inside image and mask and not larger; the ties-not-allowed form marks exactly "
        "one pixel per 8-connected plateau relative to stated hypotheses on scipy's label/maximum_position. The "
        "models are tied to the code by exact comparison of complete outputs on generated inputs (extracted OCaml, "
        "cross-checked against vm_compute); the implementation's outputs are also judged by verified checkers, the "
        "ties-not-allowed one through a certificate checker proved sound."),
    "level_note": (
        "Trusted: Coq kernel + vm_compute; extraction (ExtrOcamlBasic only) and the S-expression driver; the Python "
        "harness; NumPy slicing / masking / ravel semantics as modelled pointwise. The tie between model and code is "
        "differential, not a proof about Python."),
    "technique": "Coq proof over executable model + exact differential correspondence + verified certificate checker",
    "design_ref": "DESIGN.md section 7, C17",
}
