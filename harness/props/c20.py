"""C20 - calls never modify their inputs; results are history-independent.

T + history replay (DESIGN.md section 7, C20):
 * gen_files: the fail-closed `ast` translator tools/gen_effects_c20.py regenerates
   coq/theories/Gen/EffectsC20.v from the STAGED sources on every run; the theorems of
   Props/C20.v about that table (cache_inv, history_independent, rng_leak_free, effects_ok,
   inplace_candidates_exempt) are re-proved by the kernel.
 * impl: one case = one call history.  The worker process imports the staged package and never
   calls into it; every history runs in a forked child (pristine post-import state = a fresh
   interpreter), every call of it is repeated alone in another pristine fork whose global
   np.random state was scrambled differently ("fresh interpreter" reference), and a sub-sample is
   repeated in true fresh interpreters (subprocess) from `check`.
 * check (the property): after every call every shared input array is compared byte for byte
   (plus shape/strides/dtype/flags/base) with its pristine twin, and the result digest of the call
   in the history must equal the digest of the same call in the fresh interpreter (exact).
 * model/compare (correspondence of the generated signatures with the running code): the module
   state the call was observed to change must be allowed by the signature the Coq state machine
   runs on (filled tables, global generator touched, seed-dominated generator state).
"""
import hashlib
import json
import os
import select
import signal
import sys
import time

import numpy as np

ID = "C20"
PROPS_FILE = "theories/Props/C20.v"
EXTRACT = ("theories/Extract/XC20.v", "c20", ["entry_run", "entry_hi", "entry_sig", "entry_check"])
PYX = {}
CASE_TIMEOUT = 240
FORK_TIMEOUT = 20        # per child; the whole case must stay below the core's 60 s stall limit
RULE = ("one case = one random call history of length 2-12 (repetitions, interleavings, the same function on two "
        "different input sets) over the drivable public functions of the eleven modules (catalog of 211 calls on "
        "132 functions), on input arrays shared by all calls of the history, each array in a dtype from "
        "{bool,uint8,int32,int64,float32,float64} that its role admits and a layout from {C, Fortran, sliced view, "
        "read-only}; non-trivial = at least two calls of the history returned a result (not an exception) and at "
        "least one of them fills a lazily built table or draws from the global generator, or the history repeats a "
        "function on different inputs; distinct by hash of the case")
TRUSTED = [
    "translator tools/gen_effects_c20.py (Python ast -> Gen/EffectsC20.v): intraprocedural taint/alias analysis with "
    "call summaries; name tables for NumPy view/copy semantics, mutating methods and the write sets of the compiled "
    "kernels are hand-written (from NumPy's documentation and the .pyx sources)",
    "modelled, not verified: that the body of a function sees nothing of the process state beyond what its "
    "signature lists (the translator's claim); the dynamic history replay is the check of that claim",
    "no theorem covers mutation of caller arrays (NumPy aliasing is a runtime fact, DESIGN.md section 8): decided by "
    "the byte-for-byte comparison over histories; the static candidate list is an obligation only on the translator's "
    "output",
    "fresh interpreter = fork of the worker after import and before any call into the package; cross-checked on a "
    "sub-sample against true fresh interpreters (subprocess)",
]
ASSUMPTIONS = [
    "same machine, same build: results are compared bit for bit between processes",
    "exceptions raised identically in the history and in the fresh interpreter are consistent rejections, not "
    "violations (counted)",
]
EXHAUSTIVE = {"quick": False, "thorough": False}

MODS = ["cpmorphology", "filter", "threshold", "otsu", "smooth", "propagate", "lapjv", "zernike", "haralick",
        "rankorder", "outline"]

_HERE = os.path.dirname(os.path.abspath(__file__))
_VERIF = os.path.dirname(os.path.dirname(_HERE))


# =========================================================================== translator glue

_SIDE = {}


def _side(ctx):
    key = ctx.scratch
    if key not in _SIDE:
        sys.path.insert(0, os.path.join(_VERIF, "tools"))
        try:
            import gen_effects_c20 as G
        finally:
            sys.path.pop(0)
        try:
            side = G.translate(ctx.staged_source)
            _SIDE[key] = (side, G.coq_text(side))
        except Exception as e:                  # remembered: the translator is run once per check
            _SIDE[key] = e
    if isinstance(_SIDE[key], Exception):
        raise _SIDE[key]
    return _SIDE[key]


def _side_or_none(ctx):
    """the translator's table, or None when the translator refused the source (fail-closed: gen_files has
    already reported that as a broken obligation; the dynamic check still runs)"""
    try:
        return _side(ctx)[0]
    except Exception:
        return None


def gen_files(ctx):
    side, text = _side(ctx)
    pub = [e for e in side["functions"] if e["public"]]
    ctx.count("translator.functions", len(side["functions"]))
    ctx.count("translator.public", len(pub))
    ctx.count("translator.globals", len(side["globals"]))
    ctx.count("translator.inplace_candidates_exempt", sum(1 for e in side["functions"] if e["inplace"] and e["exempt"]))
    ctx.count("translator.inplace_candidates_nonexempt",
              sum(1 for e in side["functions"] if e["inplace"] and not e["exempt"]))
    for e in side["functions"]:
        bad = []
        if any(k not in (0, 3) for _, k in e["fills"]):
            bad.append("non-constant module state: " + "; ".join(
                "%s %s (%s, line %s)" % (g, kind, form, line) for g, kind, form, line in e["fill_sites"] if kind not in ("KConst", "KMemo")))
        if e["unguarded_reads"]:
            bad.append("reads lazily filled table before filling it: %s" % e["unguarded_reads"])
        if e["draws_global"] and not e["seed_dominated"]:
            bad.append("draws from the global np.random stream without a dominating literal seed")
        if e["entropy"]:
            bad.append("unseeded generator / entropy at lines %s" % e["entropy"])
        if e["inplace"] and not e["exempt"]:
            bad.append("candidate in-place write to parameter: " + "; ".join(
                "%s at line %d (%s)" % (n, l, f) for _, l, f, n in e["inplace"]))
        if bad:
            ctx.note("translator: %s: %s" % (e["name"], " | ".join(bad)))
    return {"theories/Gen/EffectsC20.v": text}


# =========================================================================== catalog of calls

def _catalog():
    """[(key, qualified function name, roles, callable)]; roles: I intensity image, B binary image,
    M mask, L labels.  Built inside the process that runs the calls."""
    import warnings
    warnings.filterwarnings("ignore")
    import centrosome.cpmorphology as M
    import centrosome.filter as F
    import centrosome.threshold as T
    import centrosome.otsu as O
    import centrosome.smooth as S
    import centrosome.rankorder as R
    import centrosome.outline as OL
    import centrosome.propagate as P
    import centrosome.lapjv as LJ
    import centrosome.zernike as Z
    import centrosome.haralick as Hk
    cat = []

    def add(key, fn, roles, f):
        cat.append((key, fn, roles, f))
    idx = [1, 2, 3]
    for nm in ("bridge clean diag endpoints branchpoints fill fill4 hbreak vbreak majority remove spur thicken thin "
               "skeletonize branchings life").split():
        add(nm, "cpmorphology." + nm, "B", getattr(M, nm))
        add(nm + "+mask", "cpmorphology." + nm, "BM", getattr(M, nm))
    add("thin-it3", "cpmorphology.thin", "B", lambda b: M.thin(b, iterations=3))
    add("spur-it2", "cpmorphology.spur", "B", lambda b: M.spur(b, iterations=2))
    add("thicken-it2", "cpmorphology.thicken", "B", lambda b: M.thicken(b, iterations=2))
    for nm in "grey_erosion grey_dilation opening closing white_tophat black_tophat".split():
        add(nm, "cpmorphology." + nm, "I", lambda a, f=getattr(M, nm): f(a, 1))
        add(nm + "+mask", "cpmorphology." + nm, "IM", lambda a, m, f=getattr(M, nm): f(a, 1, mask=m))
        add(nm + "-r2", "cpmorphology." + nm, "I", lambda a, f=getattr(M, nm): f(a, 2))
    add("binary_shrink", "cpmorphology.binary_shrink", "B", M.binary_shrink)
    add("binary_shrink-it2", "cpmorphology.binary_shrink", "B", lambda b: M.binary_shrink(b, 2))
    add("binary_shrink_old", "cpmorphology.binary_shrink_old", "B", M.binary_shrink_old)
    add("binary_thin", "cpmorphology.binary_thin", "B",
        lambda b: M.binary_thin(b, np.array([[0, 0, 0], [0, 1, 0], [1, 1, 1]], bool),
                                np.array([[1, 1, 1], [0, 0, 0], [0, 0, 0]], bool)))
    add("skeletonize_labels", "cpmorphology.skeletonize_labels", "L", M.skeletonize_labels)
    add("skeletonize+ordering", "cpmorphology.skeletonize", "BI", lambda b, a: M.skeletonize(b, ordering=a))
    add("fill_labeled_holes", "cpmorphology.fill_labeled_holes", "L", M.fill_labeled_holes)
    add("fill_labeled_holes+mask", "cpmorphology.fill_labeled_holes", "LM", lambda l, m: M.fill_labeled_holes(l, mask=m))
    add("adjacent", "cpmorphology.adjacent", "L", M.adjacent)
    add("relabel", "cpmorphology.relabel", "L", M.relabel)
    add("convex_hull", "cpmorphology.convex_hull", "L", M.convex_hull)
    add("convex_hull-idx", "cpmorphology.convex_hull", "L", lambda l: M.convex_hull(l, idx))
    add("convex_hull_image", "cpmorphology.convex_hull_image", "B", M.convex_hull_image)
    add("fill_convex_hulls", "cpmorphology.fill_convex_hulls", "L", lambda l: M.fill_convex_hulls(*M.convex_hull(l, idx)))
    add("euler_number", "cpmorphology.euler_number", "L", lambda l: M.euler_number(l, idx))
    add("find_neighbors", "cpmorphology.find_neighbors", "L", M.find_neighbors)
    add("color_labels", "cpmorphology.color_labels", "L", M.color_labels)
    add("distance_color_labels", "cpmorphology.distance_color_labels", "L", M.distance_color_labels)
    add("regional_maximum", "cpmorphology.regional_maximum", "I", M.regional_maximum)
    add("regional_maximum+mask", "cpmorphology.regional_maximum", "IM", M.regional_maximum)
    add("regional_maximum-ties", "cpmorphology.regional_maximum", "I", lambda a: M.regional_maximum(a, ties_are_ok=True))
    add("is_local_maximum", "cpmorphology.is_local_maximum", "IL",
        lambda a, l: M.is_local_maximum(a, l, np.ones((3, 3), bool)))
    add("grey_reconstruction", "cpmorphology.grey_reconstruction", "I", lambda a: M.grey_reconstruction(a // 2 if a.dtype.kind in "iub" else a * 0.5, a))
    add("median_of_labels", "cpmorphology.median_of_labels", "IL", lambda a, l: M.median_of_labels(a, l, idx))
    add("maximum_position_of_labels", "cpmorphology.maximum_position_of_labels", "IL",
        lambda a, l: M.maximum_position_of_labels(a, l, idx))
    add("farthest_from_edge", "cpmorphology.farthest_from_edge", "L", lambda l: M.farthest_from_edge(l, idx))
    add("calculate_perimeters", "cpmorphology.calculate_perimeters", "L", lambda l: M.calculate_perimeters(l, idx))
    add("calculate_extents", "cpmorphology.calculate_extents", "L", lambda l: M.calculate_extents(l, idx))
    add("calculate_convex_hull_areas", "cpmorphology.calculate_convex_hull_areas", "L",
        lambda l: M.calculate_convex_hull_areas(l, idx))
    add("calculate_solidity", "cpmorphology.calculate_solidity", "L", lambda l: M.calculate_solidity(l, idx))
    add("minimum_enclosing_circle", "cpmorphology.minimum_enclosing_circle", "L",
        lambda l: M.minimum_enclosing_circle(l, idx))
    add("ellipse_from_second_moments", "cpmorphology.ellipse_from_second_moments", "IL",
        lambda a, l: M.ellipse_from_second_moments(a, l, idx))
    add("centers_of_labels", "cpmorphology.centers_of_labels", "L", M.centers_of_labels)
    add("distance_to_edge", "cpmorphology.distance_to_edge", "L", M.distance_to_edge)
    add("label_skeleton", "cpmorphology.label_skeleton", "B", M.label_skeleton)
    add("skeleton_length", "cpmorphology.skeleton_length", "L", lambda l: M.skeleton_length(l, idx))
    add("skeleton_length-all", "cpmorphology.skeleton_length", "L", M.skeleton_length)
    add("table_idx_from_labels", "cpmorphology.table_idx_from_labels", "L", M.table_idx_from_labels)
    add("feret_diameter", "cpmorphology.feret_diameter", "L",
        lambda l: M.feret_diameter(*(M.convex_hull(l, idx) + (idx,))))
    add("get_outline_pts", "cpmorphology.get_outline_pts", "L", lambda l: M.get_outline_pts(l, idx))
    add("cpmaximum", "cpmorphology.cpmaximum", "I", M.cpmaximum)
    add("openlines", "cpmorphology.openlines", "I", lambda a: M.openlines(a, 3, 30))
    add("openlines+mask", "cpmorphology.openlines", "IM", lambda a, m: M.openlines(a, 3, 30, m))
    add("table_lookup", "cpmorphology.table_lookup", "B",
        lambda b: M.table_lookup(b, np.arange(512) % 3 == 0, False, 2))
    add("block", "cpmorphology.block", "I", lambda a: M.block(a.shape, (3, 3)))
    add("all_connected_components", "cpmorphology.all_connected_components", "L",
        lambda l: M.all_connected_components(l.ravel()[:20].astype(int) % 7, l.ravel()[20:40].astype(int) % 7))
    add("strel_disk", "cpmorphology.strel_disk", "", lambda: M.strel_disk(2.5))
    add("strel_line", "cpmorphology.strel_line", "", lambda: M.strel_line(5, 30))
    add("strel_octagon", "cpmorphology.strel_octagon", "", lambda: M.strel_octagon(3))
    add("get_line_pts", "cpmorphology.get_line_pts", "L",
        lambda l: M.get_line_pts(l[0, :4].astype(int), l[1, :4].astype(int), l[2, :4].astype(int) + 3, l[3, :4].astype(int) + 5))
    add("polygon_lines_to_mask", "cpmorphology.polygon_lines_to_mask", "",
        lambda: M.polygon_lines_to_mask(np.array([1, 1, 8]), np.array([1, 9, 5]), np.array([1, 8, 1]),
                                        np.array([9, 5, 1]), (12, 12)))
    add("minimum_distance2", "cpmorphology.minimum_distance2", "",
        lambda: M.minimum_distance2(np.array([[0, 0], [0, 3], [3, 3], [3, 0]]), np.array([1.5, 1.5]),
                                    np.array([[6, 6], [6, 9], [9, 9], [9, 6]]), np.array([7.5, 7.5])))
    add("distance2_to_line", "cpmorphology.distance2_to_line", "pqr", M.distance2_to_line)
    add("distance2_to_line-rows", "cpmorphology.distance2_to_line", "I",
        lambda a: M.distance2_to_line(a[0, :2], a[1, :2], a[2, :2] + 1))
    add("within_hull-pt", "cpmorphology.within_hull", "p",
        lambda p: M.within_hull(p, np.array([[0, 0], [0, 30], [30, 30], [30, 0]])))
    add("lines_intersect", "cpmorphology.lines_intersect", "pqr",
        lambda p, q, r: M.lines_intersect(p, q, r, p + 1))
    add("find_farthest", "cpmorphology.find_farthest", "p",
        lambda p: M.find_farthest(p, np.array([[0, 0], [0, 30], [30, 30], [30, 0]])))
    add("distance2_to_line-2d", "cpmorphology.distance2_to_line", "I",
        lambda a: M.distance2_to_line(a[:3, :2], a[3:6, :2], a[6:9, :2] + 1))
    add("within_hull", "cpmorphology.within_hull", "I",
        lambda a: M.within_hull(a[0, :2] * 3, np.array([[0, 0], [0, 3], [3, 3], [3, 0]])))
    add("associate_by_distance", "cpmorphology.associate_by_distance", "L",
        lambda l: M.associate_by_distance(l, (l == 1).astype(int) + 2 * (l == 3), 3))
    add("pairwise_permutations", "cpmorphology.pairwise_permutations", "L",
        lambda l: M.pairwise_permutations(np.sort(l.ravel()[:12].astype(int) % 4), np.arange(12)))
    add("ellipse_from_second_moments_ijv", "cpmorphology.ellipse_from_second_moments_ijv", "L",
        lambda l: M.ellipse_from_second_moments_ijv(np.argwhere(l > 0)[:, 0], np.argwhere(l > 0)[:, 1],
                                                    np.ones(int(np.sum(l > 0))), l[l > 0].astype(int), idx, True))
    add("life-it3", "cpmorphology.life", "B", lambda b: M.life(b, iterations=3))
    # calls on 1x1 .. 2x3 arrays of their own (small blocks come and go on the heap between other calls)
    for hk in (1, 2, 3, 7):
        add("tiny:outline-%d" % hk, "outline.outline", "", lambda hk=hk: OL.outline(np.full((1, hk), 2, np.int32)))
        add("tiny:relabel-%d" % hk, "cpmorphology.relabel", "", lambda hk=hk: M.relabel(np.full((hk, 3), 2, np.int32)))
    add("tiny:table_lookup", "cpmorphology.table_lookup", "",
        lambda: M.table_lookup(np.ones((1, 3), bool), np.arange(512) % 2 == 0, False, 1))
    add("tiny:color_labels", "cpmorphology.color_labels", "", lambda: M.color_labels(np.full((1, 2), 1, np.int32)))
    add("tiny:convex_hull", "cpmorphology.convex_hull", "", lambda: M.convex_hull(np.full((1, 1), 2, np.int32), [2]))
    # --- every optional / auxiliary array-like parameter driven by a caller-owned array of the history
    for nm in "grey_erosion grey_dilation opening closing white_tophat black_tophat".split():
        add(nm + "+fp", "cpmorphology." + nm, "If", lambda a, fp, f=getattr(M, nm): f(a, footprint=fp))
        add(nm + "+fp+mask", "cpmorphology." + nm, "IMf", lambda a, m, fp, f=getattr(M, nm): f(a, mask=m, footprint=fp))
    add("grey_reconstruction+fp", "cpmorphology.grey_reconstruction", "IG",
        lambda a, fp: M.grey_reconstruction(a // 2 if a.dtype.kind in "iub" else a * 0.5, a, footprint=fp))
    add("grey_reconstruction+fp+off", "cpmorphology.grey_reconstruction", "IHo",
        lambda a, fp, o: M.grey_reconstruction(a // 2 if a.dtype.kind in "iub" else a * 0.5, a, footprint=fp, offset=o))
    for nm in "grey_erosion grey_dilation opening".split():
        add(nm + "+fpG", "cpmorphology." + nm, "IG", lambda a, fp, f=getattr(M, nm): f(a, footprint=fp))
        add(nm + "+fpH", "cpmorphology." + nm, "IH", lambda a, fp, f=getattr(M, nm): f(a, footprint=fp))
    add("is_local_maximum+fpG", "cpmorphology.is_local_maximum", "ILG", M.is_local_maximum)
    # since /repo 6f73ae9 grey_reconstruction converts its footprint to a boolean copy: every dtype again
    add("grey_reconstruction+fp-anydtype", "cpmorphology.grey_reconstruction", "If",
        lambda a, fp: M.grey_reconstruction(a // 2 if a.dtype.kind in "iub" else a * 0.5, a, footprint=fp))
    add("grey_reconstruction+st-anydtype+off", "cpmorphology.grey_reconstruction", "Iso",
        lambda a, fp, o: M.grey_reconstruction(a // 2 if a.dtype.kind in "iub" else a * 0.5, a, footprint=fp, offset=o))
    add("grey_reconstruction-2img", "cpmorphology.grey_reconstruction", "I", lambda a: M.grey_reconstruction(a, a))
    add("cpmaximum+st", "cpmorphology.cpmaximum", "Is", lambda a, s: M.cpmaximum(a, s))
    add("cpmaximum+st+off", "cpmorphology.cpmaximum", "Iso", lambda a, s, o: M.cpmaximum(a, s, o))
    add("regional_maximum+st", "cpmorphology.regional_maximum", "IMs", lambda a, m, s: M.regional_maximum(a, m, s))
    add("regional_maximum+st-ties", "cpmorphology.regional_maximum", "Is",
        lambda a, s: M.regional_maximum(a, structure=s, ties_are_ok=True))
    add("is_local_maximum+fp", "cpmorphology.is_local_maximum", "ILf", M.is_local_maximum)
    add("is_local_maximum+st", "cpmorphology.is_local_maximum", "ILs", M.is_local_maximum)
    add("binary_thin+strels", "cpmorphology.binary_thin", "BTS", M.binary_thin)
    add("make_table+care", "cpmorphology.make_table", "Ts", lambda pat, care: M.make_table(True, pat, care))
    add("make_table", "cpmorphology.make_table", "T", lambda pat: M.make_table(False, pat))
    add("index_of", "cpmorphology.index_of", "T", M.index_of)
    add("table_lookup+tbl", "cpmorphology.table_lookup", "Bt", lambda b, tb: M.table_lookup(b, tb, False, 2))
    add("table_lookup+tbl-border", "cpmorphology.table_lookup", "Bt", lambda b, tb: M.table_lookup(b, tb, True, 1))
    for nm in ("convex_hull euler_number calculate_convex_hull_areas calculate_solidity skeleton_length "
               "minimum_enclosing_circle calculate_perimeters calculate_extents farthest_from_edge get_outline_pts").split():
        add(nm + "+idx", "cpmorphology." + nm, "Lx", getattr(M, nm))
    for nm in "median_of_labels maximum_position_of_labels ellipse_from_second_moments".split():
        add(nm + "+idx", "cpmorphology." + nm, "ILx", getattr(M, nm))
    add("ellipse_from_second_moments+idx-compact", "cpmorphology.ellipse_from_second_moments", "ILx",
        lambda a, l, x: M.ellipse_from_second_moments(a, l, x, True))
    add("ellipse_from_second_moments_ijv+arrays", "cpmorphology.ellipse_from_second_moments_ijv", "vuUwx",
        M.ellipse_from_second_moments_ijv)
    add("convex_hull_ijv", "cpmorphology.convex_hull_ijv", "Jx", M.convex_hull_ijv)
    add("fill_convex_hulls+arrays", "cpmorphology.fill_convex_hulls", "PN", M.fill_convex_hulls)
    add("feret_diameter+arrays", "cpmorphology.feret_diameter", "PNx", M.feret_diameter)
    add("minimum_enclosing_circle+hull", "cpmorphology.minimum_enclosing_circle", "LxPN",
        lambda l, x, p, n: M.minimum_enclosing_circle(l, x, (p, n)))
    add("all_true", "cpmorphology.all_true", "Bx", lambda b, x: M.all_true(b.ravel()[:12] != 0, x * 3))
    add("triangle_areas", "cpmorphology.triangle_areas", "hij", M.triangle_areas)
    add("minimum_distance2+arrays", "cpmorphology.minimum_distance2", "hpiq", M.minimum_distance2)
    add("slow_minimum_distance2", "cpmorphology.slow_minimum_distance2", "hi", M.slow_minimum_distance2)
    add("faster_minimum_distance2", "cpmorphology.faster_minimum_distance2", "hpiq", M.faster_minimum_distance2)
    add("find_visible", "cpmorphology.find_visible", "hq", lambda h, q: M.find_visible(h, q + 20, 0))
    add("find_farthest+hull", "cpmorphology.find_farthest", "ph", M.find_farthest)
    add("within_hull+hull", "cpmorphology.within_hull", "ph", M.within_hull)
    add("is_obtuse", "cpmorphology.is_obtuse", "hij", M.is_obtuse)
    add("colinear_intersection_test", "cpmorphology.colinear_intersection_test", "hij", M.colinear_intersection_test)
    add("get_line_pts+arrays", "cpmorphology.get_line_pts", "degy", M.get_line_pts)
    add("polygon_lines_to_mask+arrays", "cpmorphology.polygon_lines_to_mask", "degy",
        lambda d, e, g, y: M.polygon_lines_to_mask(d, e, g, y, (12, 12)))
    add("all_connected_components+arrays", "cpmorphology.all_connected_components", "ab", M.all_connected_components)
    add("pairwise_permutations+arrays", "cpmorphology.pairwise_permutations", "ab", M.pairwise_permutations)
    add("single_shortest_paths", "cpmorphology.single_shortest_paths", "W", lambda w: M.single_shortest_paths(0, w))
    # (angular_distribution swaps the axes of its meshgrid and rejects every non-square image: the medium
    # input set is square)
    add("angular_distribution", "cpmorphology.angular_distribution", "L", lambda l: M.angular_distribution(l, 8))
    add("angular_distribution+w", "cpmorphology.angular_distribution", "LI", lambda l, a: M.angular_distribution(l, 8, a))
    add("fixup_scipy_ndimage_result", "cpmorphology.fixup_scipy_ndimage_result", "D", M.fixup_scipy_ndimage_result)
    add("draw_line-copy", "cpmorphology.draw_line", "Lpq",
        lambda l, p, q: M.draw_line(l.copy(), (int(p[0]) % 8, int(p[1]) % 8), (int(q[0]) % 8, int(q[1]) % 8), 5))
    add("strel_diamond", "cpmorphology.strel_diamond", "", lambda: M.strel_diamond(2))
    add("strel_pair", "cpmorphology.strel_pair", "", lambda: M.strel_pair(2, 1))
    add("strel_periodicline", "cpmorphology.strel_periodicline", "", lambda: M.strel_periodicline(1, 2, 2))
    add("strel_rectangle", "cpmorphology.strel_rectangle", "", lambda: M.strel_rectangle(3, 5))
    add("strel_square", "cpmorphology.strel_square", "", lambda: M.strel_square(3))
    add("pattern_of", "cpmorphology.pattern_of", "", lambda: M.pattern_of(341))
    add("color_labels-dt", "cpmorphology.color_labels", "L", lambda l: M.color_labels(l, True))
    # filter
    add("masked_convolution+k", "filter.masked_convolution", "IMk", F.masked_convolution)
    add("inv_n+arr", "filter.inv_n", "Q", F.inv_n)
    add("det_n+arr", "filter.det_n", "Q", F.det_n)
    add("cofactor_n", "filter.cofactor_n", "Q", lambda q: F.cofactor_n(q, 0, 1))
    add("dot_n+arr", "filter.dot_n", "QR", F.dot_n)
    add("permutations+arr", "filter.permutations", "x", lambda x: [list(p) for p in F.permutations(x)])
    add("haralick.cooccurrence+q", "haralick.cooccurrence", "BL", lambda b, l: Hk.cooccurrence(b, l, 1, 1))
    add("kalman_filter+arrays", "filter.kalman_filter", "nmQR", _kalman2)
    # shared KalmanState objects: every pattern of old_indices (identity / all retained but permuted / one
    # dropped + one new / all new) for the static, velocity and reverse-velocity model
    for orole, mname in (("E", "static"), ("F", "velocity"), ("O", "reverse")):
        for irole, pname in (("n", "identity"), ("l", "permuted"), ("C", "partial"), ("Z", "allnew")):
            add("kalman:%s:%s" % (mname, pname), "filter.kalman_filter", orole + irole + "m", _kalman_obj)
        add("kalman:%s:deep_copy" % mname, "filter.KalmanState.deep_copy", orole, lambda st: _kstate(st.deep_copy()))
        add("kalman:%s:predicted" % mname, "filter.KalmanState.predicted_obs_vec", orole,
            lambda st: [st.predicted_state_vec, st.predicted_obs_vec, st.state_len, st.obs_len])
    for hn in "H1 H2 H3 H4 H5 H6 H7 H8 H9 H10 H11 H12 H13 all".split():
        add("haralick-object." + hn, "haralick.Haralick." + hn, "Y", lambda h, hn=hn: getattr(h, hn)())
    add("inverse_log_transform", "threshold.inverse_log_transform", "I", lambda a: T.inverse_log_transform(*T.log_transform(a)))
    add("get_adaptive_threshold", "threshold.get_adaptive_threshold", "IM",
        lambda a, m: T.get_adaptive_threshold(T.TM_OTSU, a, 0.5, mask=m, adaptive_window_size=4))
    add("get_per_object_threshold", "threshold.get_per_object_threshold", "IML",
        lambda a, m, l: T.get_per_object_threshold(T.TM_OTSU, a, 0.5, mask=m, labels=l))
    add("get_global_threshold", "threshold.get_global_threshold", "IM",
        lambda a, m: T.get_global_threshold(T.TM_KAPUR, a, mask=m))
    add("otsu-1d", "otsu.otsu", "D", O.otsu)
    add("entropy-1d", "otsu.entropy", "D", O.entropy)
    add("otsu3-1d", "otsu.otsu3", "D", O.otsu3)
    add("running_variance", "otsu.running_variance", "D", O.running_variance)
    add("entropy_score", "otsu.entropy_score", "DU", lambda d, w: O.entropy_score(d, 8, w))
    add("otsu.weighted_variance", "otsu.weighted_variance", "D",
        lambda d: O.weighted_variance(d, d, 3, 17))
    add("otsu_entropy", "otsu.otsu_entropy", "D",
        lambda d: O.otsu_entropy(d, d, 3, 17))
    add("lapjv+arrays", "lapjv.lapjv", "abc", LJ.lapjv)
    add("lapjv+arrays-dual", "lapjv.lapjv", "abc", lambda a, b, c: LJ.lapjv(a, b, c, True, 3))
    add("zernike+arrays", "zernike.zernike", "zLx", Z.zernike)
    add("construct_zernike_lookuptable", "zernike.construct_zernike_lookuptable", "z", Z.construct_zernike_lookuptable)
    add("construct_zernike_polynomials+arrays", "zernike.construct_zernike_polynomials", "VXzKW",
        Z.construct_zernike_polynomials)
    add("construct_zernike_polynomials+xy", "zernike.construct_zernike_polynomials", "VXz",
        Z.construct_zernike_polynomials)
    add("score_zernike", "zernike.score_zernike", "zLx",
        lambda zi, l, x: Z.score_zernike(Z.construct_zernike_polynomials(*(np.mgrid[-1:1:complex(0, l.shape[0]), -1:1:complex(0, l.shape[1])]), zernike_indexes=zi),
                                         np.array([4.0, 4.0, 4.0]), l, x))
    add("score_zernike+radii", "zernike.score_zernike", "zLxA",
        lambda zi, l, x, rad: Z.score_zernike(Z.construct_zernike_polynomials(*(np.mgrid[-1:1:complex(0, l.shape[0]), -1:1:complex(0, l.shape[1])]), zernike_indexes=zi),
                                              rad, l, x))
    add("haralick.minimum", "haralick.minimum", "ILx", Hk.minimum)
    add("haralick.maximum", "haralick.maximum", "ILx", Hk.maximum)
    add("haralick.normalized_per_object", "haralick.normalized_per_object", "IL", Hk.normalized_per_object)
    add("haralick.quantize", "haralick.quantize", "I", lambda a: Hk.quantize(a, 8))
    add("stretch", "filter.stretch", "I", F.stretch)
    add("stretch+mask", "filter.stretch", "IM", F.stretch)
    add("unstretch", "filter.unstretch", "I", lambda a: F.unstretch(a, 0.25, 4.0))
    add("median_filter", "filter.median_filter", "IM", lambda a, m: F.median_filter(a, m, 2))
    add("median_filter-r3", "filter.median_filter", "IM", lambda a, m: F.median_filter(a, m, 3, 30))
    add("bilateral_filter", "filter.bilateral_filter", "IM", lambda a, m: F.bilateral_filter(a, m, 2.0, 0.1))
    for nm in "roberts sobel hsobel vsobel prewitt hprewitt vprewitt".split():
        add(nm, "filter." + nm, "IM", getattr(F, nm))
        add(nm + "-nomask", "filter." + nm, "I", getattr(F, nm))
    add("canny", "filter.canny", "IM", lambda a, m: F.canny(a, m, 1.0, 0.1, 0.2))
    add("laplacian_of_gaussian", "filter.laplacian_of_gaussian", "IM", lambda a, m: F.laplacian_of_gaussian(a, m, 5, 1.0))
    add("masked_convolution", "filter.masked_convolution", "IM", lambda a, m: F.masked_convolution(a, m, np.ones((3, 3)) / 9.0))
    add("gabor", "filter.gabor", "IL", lambda a, l: F.gabor(a, l, 4, 0.5))
    add("variance_transform", "filter.variance_transform", "IM", lambda a, m: F.variance_transform(a, 1.0, m))
    add("circular_average_filter", "filter.circular_average_filter", "IM", lambda a, m: F.circular_average_filter(a, 2, m))
    add("enhance_dark_holes", "filter.enhance_dark_holes", "IM", lambda a, m: F.enhance_dark_holes(a, 1, 3, m))
    add("granulometry_filter", "filter.granulometry_filter", "IM", lambda a, m: F.granulometry_filter(a, 1, 3, m))
    add("hessian", "filter.hessian", "I", F.hessian)
    add("hessian-noeig", "filter.hessian", "I", lambda a: F.hessian(a, return_hessian=True, return_eigenvalues=False, return_eigenvectors=False))
    add("circular_hough", "filter.circular_hough", "IM", lambda a, m: F.circular_hough(a, 3, mask=m))
    add("convex_hull_transform", "filter.convex_hull_transform", "IM", lambda a, m: F.convex_hull_transform(a, mask=m))
    add("line_integration", "filter.line_integration", "I", lambda a: F.line_integration(a, 30, 0.9, 2.0))
    add("poisson_equation", "filter.poisson_equation", "B", lambda b: F.poisson_equation(b))
    add("inv_n", "filter.inv_n", "I", lambda a: F.inv_n(a[:8, :8].astype(float).reshape(16, 2, 2) + np.eye(2)))
    add("det_n", "filter.det_n", "I", lambda a: F.det_n(a[:6, :6].astype(float).reshape(4, 3, 3)))
    add("dot_n", "filter.dot_n", "I", lambda a: F.dot_n(a[:4, :4].astype(float).reshape(4, 2, 2), a[4:8, :4].astype(float).reshape(4, 2, 2)))
    add("permutations", "filter.permutations", "", lambda: list(F.permutations([1, 2, 3, 4])))
    add("kalman_filter", "filter.kalman_filter", "I", _kalman)
    # smooth
    add("smooth_with_noise", "smooth.smooth_with_noise", "I", lambda a: S.smooth_with_noise(a, 7))
    add("smooth_with_function_and_mask", "smooth.smooth_with_function_and_mask", "IM",
        lambda a, m: S.smooth_with_function_and_mask(a, lambda x: F.gaussian_filter(x, 1.0), m))
    add("fit_polynomial", "smooth.fit_polynomial", "IM", lambda a, m: S.fit_polynomial(a, m))
    add("fit_polynomial-clip", "smooth.fit_polynomial", "IM", lambda a, m: S.fit_polynomial(a, m, False))
    add("circular_gaussian_kernel", "smooth.circular_gaussian_kernel", "", lambda: S.circular_gaussian_kernel(1.5, 3))
    # threshold
    for meth in T.TM_METHODS:
        add("thr-" + meth, "threshold.get_threshold", "IM",
            lambda a, m, meth=meth: T.get_threshold(meth, T.TM_GLOBAL, a, mask=m, threshold_range_min=0,
                                                    threshold_range_max=1))
        add("thrA-" + meth, "threshold.get_threshold", "IM",
            lambda a, m, meth=meth: T.get_threshold(meth, T.TM_ADAPTIVE, a, mask=m, threshold_range_min=0,
                                                    threshold_range_max=1, adaptive_window_size=4))
        add("thrPO-" + meth, "threshold.get_threshold", "IML",
            lambda a, m, l, meth=meth: T.get_threshold(meth, T.TM_PER_OBJECT, a, mask=m, labels=l,
                                                       threshold_range_min=0, threshold_range_max=1))
    for meth in T.TM_METHODS:
        add("thr-" + meth + "-nomask", "threshold.get_threshold", "I",
            lambda a, meth=meth: T.get_threshold(meth, T.TM_GLOBAL, a))
        add("thrG-" + meth + "-nomask", "threshold.get_global_threshold", "I",
            lambda a, meth=meth: T.get_global_threshold(meth, a))
        add("thrG-" + meth, "threshold.get_global_threshold", "IM",
            lambda a, m, meth=meth: T.get_global_threshold(meth, a, m))
        add("thrA-" + meth + "-nomask", "threshold.get_threshold", "I",
            lambda a, meth=meth: T.get_threshold(meth, T.TM_ADAPTIVE, a, threshold_range_min=0, threshold_range_max=1,
                                                 adaptive_window_size=4))
        add("thrPO-" + meth + "-nomask", "threshold.get_threshold", "IL",
            lambda a, l, meth=meth: T.get_threshold(meth, T.TM_PER_OBJECT, a, labels=l, threshold_range_min=0,
                                                    threshold_range_max=1))
    add("get_otsu_threshold", "threshold.get_otsu_threshold", "IM", T.get_otsu_threshold)
    add("get_mog_threshold", "threshold.get_mog_threshold", "IM", T.get_mog_threshold)
    add("get_mog_threshold-nomask", "threshold.get_mog_threshold", "I", T.get_mog_threshold)
    add("get_background_threshold", "threshold.get_background_threshold", "IM", T.get_background_threshold)
    add("get_robust_background_threshold", "threshold.get_robust_background_threshold", "IM",
        T.get_robust_background_threshold)
    add("get_ridler_calvard_threshold", "threshold.get_ridler_calvard_threshold", "IM", T.get_ridler_calvard_threshold)
    add("get_kapur_threshold", "threshold.get_kapur_threshold", "IM", T.get_kapur_threshold)
    add("get_maximum_correlation_threshold", "threshold.get_maximum_correlation_threshold", "IM",
        T.get_maximum_correlation_threshold)
    add("weighted_variance", "threshold.weighted_variance", "IM", lambda a, m: T.weighted_variance(a, m, a > 0.5))
    add("sum_of_entropies", "threshold.sum_of_entropies", "IM", lambda a, m: T.sum_of_entropies(a, m, a > 0.5))
    add("mad", "threshold.mad", "I", T.mad)
    add("binned_mode", "threshold.binned_mode", "I", T.binned_mode)
    add("log_transform", "threshold.log_transform", "I", T.log_transform)
    # otsu
    add("otsu", "otsu.otsu", "I", lambda a: O.otsu(a.ravel()))
    add("otsu-2d", "otsu.otsu", "I", O.otsu)
    add("entropy", "otsu.entropy", "I", O.entropy)
    add("otsu3", "otsu.otsu3", "I", O.otsu3)
    add("entropy3", "otsu.entropy3", "I", O.entropy3)
    # rankorder, outline, propagate, lapjv, zernike, haralick
    add("rank_order", "rankorder.rank_order", "I", R.rank_order)
    add("rank_order-8", "rankorder.rank_order", "I", lambda a: R.rank_order(a, 8))
    add("rank_order-labels", "rankorder.rank_order", "L", R.rank_order)
    add("outline", "outline.outline", "L", OL.outline)
    add("propagate", "propagate.propagate", "ILM", lambda a, l, m: P.propagate(a, l, m, 1.0))
    add("propagate-w0", "propagate.propagate", "ILM", lambda a, l, m: P.propagate(a, l, m, 0.0))
    add("lapjv", "lapjv.lapjv", "I", _lapjv)
    add("zernike", "zernike.zernike", "L", lambda l: Z.zernike(Z.get_zernike_indexes(4), l, idx))
    add("get_zernike_indexes", "zernike.get_zernike_indexes", "", lambda: Z.get_zernike_indexes(5))
    add("construct_zernike_polynomials", "zernike.construct_zernike_polynomials", "I",
        lambda a: Z.construct_zernike_polynomials(a[:5, :5].astype(float) - 0.5, a[5:10, :5].astype(float) - 0.5,
                                                  Z.get_zernike_indexes(4)))
    add("haralick", "haralick.Haralick.all", "IL", lambda a, l: Hk.Haralick(a, l, 2, 0).all())
    add("haralick+mask", "haralick.Haralick.all", "ILM", lambda a, l, m: Hk.Haralick(a, l, 0, 1, mask=m).all())
    add("haralick-cooccurrence", "haralick.cooccurrence", "IL",
        lambda a, l: Hk.cooccurrence(Hk.quantize(Hk.normalized_per_object(a, l), 8), l, 1, 1))
    return cat


def _kalman(a):
    import centrosome.filter as F
    k = F.static_kalman_model()
    pts = a[:6, :2].astype(float) * 10
    q = np.tile(np.eye(2) * 0.5, (3, 1, 1))
    r = np.tile(np.eye(2) * 0.25, (3, 1, 1))
    k = F.kalman_filter(k, -np.ones(3, int), pts[:3], q, r)
    k = F.kalman_filter(k, np.arange(3), pts[3:6], q, r)
    return [k.state_vec, k.state_cov, k.noise_var, k.state_noise, k.state_noise_idx, k.predicted_obs_vec]


def _kalman2(old, coords, q, r):
    import centrosome.filter as F
    k = F.static_kalman_model()
    k = F.kalman_filter(k, -np.ones(3, int), coords, q, r)
    k = F.kalman_filter(k, old, coords, q, r)
    k2 = k.deep_copy()
    return [k.state_vec, k.state_cov, k.noise_var, k.state_noise, k.state_noise_idx, k2.predicted_obs_vec,
            k.state_len, k.obs_len]


def _kstate(k):
    return [k.state_vec, k.state_cov, k.noise_var, k.state_noise, k.state_noise_idx, k.translation_matrix,
            k.observation_matrix]


def _kalman_obj(st, old, coords):
    import centrosome.filter as F
    n = len(old)
    q = np.tile(np.eye(st.state_len) * 0.5, (n, 1, 1))
    r = np.tile(np.eye(st.obs_len) * 0.25, (n, 1, 1))
    return _kstate(F.kalman_filter(st, old, coords, q, r))


def _lapjv(a):
    import centrosome.lapjv as LJ
    n = 5
    i, j = np.mgrid[0:n, 0:n]
    c = a[:n, :n].astype(float).ravel() + 0.01
    return LJ.lapjv(i.ravel(), j.ravel(), c)


# --- calls synthesised from the signatures of ALL public functions of the eleven modules ----------------
# parameter name -> role of the shared pool (array-like) ...
NAME_ROLES = {
    "image": "I", "img": "I", "data": "I", "pixel_data": "I", "input": "I", "a": "I", "ordering": "I",
    "labels": "L", "mask": "M", "binary_image": "B", "skeleton": "B", "footprint": "f", "structure": "s",
    "indexes": "x", "indices": "x", "idxs": "x", "index": "x", "table": "t", "kernel": "k", "offset": "o",
    "weights": "W", "strel1": "T", "strel2": "S", "pattern": "T", "care": "s", "zernike_indexes": "z",
    "costs": "c", "i": "a", "j": "b", "hull": "h", "point": "p", "pt": "p", "l0": "q", "l1": "r",
    "hull_a": "h", "hull_b": "i", "center_a": "p", "center_b": "q", "p1": "h", "p2": "i", "p3": "j", "v": "j",
    "pt0i": "d", "pt0j": "e", "pt1i": "g", "pt1j": "y", "ch_pts": "P", "ch_counts": "N", "chulls": "P", "counts": "N",
    "x": "Q", "y": "R", "pixel_labels": "J", "cs": "D", "cs2": "D", "var": "D", "quantized_image": "B",
}
# ... or a scalar value
NAME_SCALARS = {
    "radius": 2, "iterations": 2, "sigma": 1.0, "size": 5, "bits": 7, "weight": 1.0, "min_radius": 1, "max_radius": 3,
    "low_threshold": 0.1, "high_threshold": 0.2, "frequency": 4, "theta": 0.5, "angle": 30, "decay": 0.9,
    "nlevels": 8, "scale_i": 1, "scale_j": 1, "sigma_spatial": 2.0, "sigma_range": 0.1, "percent": 50,
    "minval": 0.25, "maxval": 4.0, "border_value": False, "threshold": 0.5, "distance": 3, "limit": 5,
    "linelength": 3, "dAngle": 30, "resolution": 8, "nbins": 8, "bins": 64, "value": 1, "start_node": 0,
    "lo": 3, "hi": 17, "sd": 1.5, "length": 5, "xoff": 1, "yoff": 2, "n": 2, "width": 3, "height": 5, "s": 3,
    "block_shape": (3, 3), "adaptive_window_size": 4, "object_fraction": 0.3, "two_class_otsu": False,
    "wants_compactness": True, "distance_transform": True, "ties_are_ok": True, "fast": False, "clip": False,
    "wants_dual_variables": True, "levels": 16, "nangles": 8, "max_iter": 20, "gradient": 1,
}
# functions whose `image` is a binary image
_BINARY_IMAGE = set("binary_thin binary_shrink_old binary_shrink convex_hull_image table_lookup branchpoints branchings "
                    "bridge clean diag endpoints fill fill4 hbreak vbreak life majority remove spur thicken thin "
                    "skeletonize poisson_equation".split())
_AUTO_SKIP = {"cpmorphology.draw_line",                      # the documented in-place helper
              "lapjv.slow_reduction_transfer", "lapjv.slow_augmenting_row_reduction", "lapjv.slow_augment",
              # parameter names that mean something else here (bound by the hand-written calls instead)
              "cpmorphology.grey_reconstruction", "cpmorphology.all_true", "cpmorphology.strel_pair",
              "cpmorphology.ellipse_from_second_moments_ijv", "filter.cofactor_n", "filter.parity",
              "otsu.entropy_score", "zernike.construct_zernike_polynomials"}
_FUNC_ROLES = {"cpmorphology.relabel": {"image": "L"}, "otsu.running_variance": {"x": "D"},
               "cpmorphology.convex_hull": {"fast": None}, "cpmorphology.convex_hull_ijv": {"fast": None}}


def _auto_catalog():
    """for every public function whose required parameters can be bound from the tables above: one call with
    every optional argument left out, one per optional array argument supplied alone, one with all of them"""
    import importlib
    import inspect
    import types
    out = []
    skipped = []
    for m in MODS:
        mod = importlib.import_module("centrosome." + m)
        for name, fn in sorted(vars(mod).items()):
            if name.startswith("_") or not isinstance(fn, types.FunctionType) or fn.__module__ != mod.__name__:
                continue
            q = "%s.%s" % (m, name)
            if q in _AUTO_SKIP:
                continue
            try:
                sig = inspect.signature(fn)
            except (TypeError, ValueError):
                continue
            req, opt_arr, opt_sc = [], [], []
            ok = True
            used_roles = set()
            for pn, prm in sig.parameters.items():
                if prm.kind in (prm.VAR_POSITIONAL, prm.VAR_KEYWORD):
                    continue
                role = NAME_ROLES.get(pn)
                if pn in _FUNC_ROLES.get(q, {}):
                    role = _FUNC_ROLES[q][pn]
                    if role is None:
                        continue
                if role == "I" and pn == "image" and name in _BINARY_IMAGE:
                    role = "B"
                if role is not None and role in used_roles:
                    role = None                      # one array of the pool per parameter
                if prm.default is inspect.Parameter.empty:
                    if role is not None:
                        req.append((pn, "role", role)); used_roles.add(role)
                    elif pn in NAME_SCALARS:
                        req.append((pn, "scalar", NAME_SCALARS[pn]))
                    else:
                        ok = False
                        break
                else:
                    if role is not None:
                        opt_arr.append((pn, role)); used_roles.add(role)
                    elif pn in NAME_SCALARS and prm.default is not None and type(prm.default) is not type(NAME_SCALARS[pn]):
                        pass
                    elif pn in NAME_SCALARS:
                        opt_sc.append((pn, NAME_SCALARS[pn]))
            if not ok:
                skipped.append(q)
                continue
            patterns = [()]
            for pn, role in opt_arr:
                patterns.append((pn,))
            if len(opt_arr) > 1:
                patterns.append(tuple(pn for pn, _ in opt_arr))
            if opt_sc:
                patterns.append(tuple(pn for pn, _ in opt_arr) + ("+scalars",))
            for pat in patterns:
                roles = [r for _, k, r in req if k == "role"] + [r for pn, r in opt_arr if pn in pat]

                def call(*arrs, _fn=fn, _req=req, _opt=[(pn, r) for pn, r in opt_arr if pn in pat],
                         _sc=(opt_sc if "+scalars" in pat else [])):
                    it = iter(arrs)
                    kw = {}
                    for pn, k, v in _req:
                        kw[pn] = next(it) if k == "role" else v
                    for pn, r in _opt:
                        kw[pn] = next(it)
                    for pn, v in _sc:
                        kw[pn] = v
                    r = _fn(**kw)
                    return list(r) if isinstance(r, types.GeneratorType) else r
                key = "auto:%s(%s)" % (q, ",".join(pat))
                out.append((key, q, "".join(roles), call))
    return out, skipped


_CAT = None
_AUTO_SKIPPED = []


def catalog():
    """the hand-written calls plus the calls synthesised from the signatures"""
    global _CAT
    if _CAT is None:
        hand = [c for c in _catalog() if c is not None]
        auto, skipped = _auto_catalog()
        _AUTO_SKIPPED[:] = skipped
        base = hand + auto
        # every call that takes an index list also with each index list that repeats entries
        reps = [(key + "~idx" + rr, fn, roles.replace("x", rr), f) for key, fn, roles, f in base if "x" in roles
                for rr in REPEAT_ROLES]
        _CAT = base + reps
    return _CAT


def drives_main():
    """which (function, parameter) pairs does each catalog call feed DIRECTLY with a caller-owned array of
    the history (identity of the object)?  Every function of the eleven modules is wrapped; each catalog
    call is executed once on base dtypes.  Prints {key: [[function, parameter, role], ...]} and the run time
    and outcome of every call."""
    import importlib
    import inspect
    import types
    import functools
    _ensure_imported()
    cat = catalog()
    state = {"depth": 0, "ids": {}, "seen": None}
    mods = {m: importlib.import_module("centrosome." + m) for m in MODS}

    def wrap(qual, fn):
        try:
            sig = inspect.signature(fn)
        except (TypeError, ValueError):
            return fn

        @functools.wraps(fn)
        def w(*a, **k):
            if state["seen"] is not None:
                try:
                    ba = sig.bind(*a, **k)
                    for pn, v in ba.arguments.items():
                        for x in ([v] + list(v) if isinstance(v, (tuple, list)) else [v]):
                            if id(x) in state["ids"]:
                                state["seen"].add((qual, pn, state["ids"][id(x)], state["depth"]))
                except TypeError:
                    pass
            state["depth"] += 1
            try:
                return fn(*a, **k)
            finally:
                state["depth"] -= 1
        return w
    wrapped = {}
    for m, mod in mods.items():
        for name, v in list(vars(mod).items()):
            if isinstance(v, types.FunctionType) and (v.__module__ or "").startswith("centrosome."):
                q = v.__module__.split(".", 1)[1] + "." + v.__name__
                if id(v) not in wrapped:
                    wrapped[id(v)] = wrap(q, v)
                setattr(mod, name, wrapped[id(v)])
            elif isinstance(v, type) and v.__module__ == mod.__name__:
                for mn, mv in list(vars(v).items()):
                    if isinstance(mv, types.FunctionType):
                        setattr(v, mn, wrap("%s.%s.%s" % (m, v.__name__, mn), mv))
    global _CAT
    _CAT = None
    cat = catalog()                      # rebuilt: the lambdas now see the wrapped functions
    rng = np.random.RandomState(0)
    case = _mk_case(None, rng, [[c[0], c[1], c[2]] for c in cat], calls=[[c[0], 0] for c in cat])
    for k in case["dt"]:
        case["dt"][k] = {"I": "float64", "B": "bool", "M": "bool", "L": "int32"}.get(k[0]) or ROLE_DTYPES[k[0]][0]
        case["lay"][k] = "C"
    pool, bases = build_pool(case)
    state["ids"] = {id(a): k for k, a in pool.items()}
    catd = {c[0]: c for c in cat}
    out, info = {}, {}
    for c in cat:
        if "~idx" in c[0]:
            # same call as its base with the index list replaced (and possibly the known out-of-bounds read F36,
            # which may not return): the drives are those of the base call
            b = c[0].split("~idx")[0]
            out[c[0]] = [[q, pn, (c[0][-1] if r == "x" else r)] for q, pn, r in out.get(b, [])]
            info[c[0]] = [0.0, "", "derived from " + b]
            continue
        state["seen"] = set()
        t0 = time.time()
        r = _exec_call(catd, [c[0], 0], pool)
        info[c[0]] = [round(time.time() - t0, 3), r.get("exc", ""), r.get("msg", "")[:100]]
        out[c[0]] = sorted([q, pn, key[0]] for (q, pn, key, d) in state["seen"] if d == 0)
    print("C20DRIVES " + json.dumps({"drives": out, "info": info}))


# catalog keys/roles/function names must be known to the generator without importing centrosome:
# the table is produced once in the staged interpreter and cached per run
def _drives(ctx):
    key = ("drives", ctx.scratch)
    if key not in _SIDE:
        out = ctx.run_staged_python("import harness.props.c20 as P; P.drives_main()", timeout=600)
        line = [l for l in out.splitlines() if l.startswith("C20DRIVES ")][-1]
        _SIDE[key] = json.loads(line[10:])
    return _SIDE[key]


def _catalog_index(ctx):
    key = ("cat", ctx.scratch)
    if key not in _SIDE:
        out = ctx.run_staged_python(
            "import json, harness.props.c20 as P; print(json.dumps([[k, fn, r] for k, fn, r, _ in P.catalog()]))")
        _SIDE[key] = json.loads(out.strip().splitlines()[-1])
    return _SIDE[key]


# =========================================================================== inputs

ROLE_DTYPES = {
    "p": ["float64", "float64", "float32", "int32", "int64"],
    "q": ["float64", "float64", "float32", "int32", "int64"],
    "r": ["float64", "float64", "float32", "int32", "int64"],
    "I": ["float64", "float64", "float64", "float32", "float32", "uint8", "int32", "int64"],
    "B": ["bool", "bool", "bool", "uint8", "int32", "int64", "float32", "float64"],
    "M": ["bool"],
    "L": ["int32", "int32", "int64", "int64", "uint8"],
}
LAYOUTS = ["C", "F", "view", "ro", "rowview"]

_INTS = ["int32", "int64", "int64", "uint8", "uint32"]
_FLTS = ["float64", "float64", "float32"]
_ANY = ["bool", "uint8", "int32", "int64", "float32", "float64"]
# small caller-owned arrays for every optional / auxiliary array-like parameter (footprints, structures,
# tables, index lists, offsets, kernels, cost vectors, point lists ...): role -> (values, dtypes it is tried in).
# The first dtype listed is the one the library converts to ("already the target dtype": what asarray /
# astype(copy=False) / ravel / reshape alias instead of copying).
SMALL = {
    "f": (lambda: np.array([[0, 1, 0], [1, 1, 1], [0, 1, 0]]), ["bool", "bool"] + _ANY),        # footprint
    "s": (lambda: np.ones((3, 3), int), ["bool", "bool"] + _ANY),                               # structure
    # boolean-only footprints (already the target dtype of every conversion), shared by grey_reconstruction and
    # other footprint-taking calls.  (Before /repo 6f73ae9 grey_reconstruction indexed its offset grid with an
    # integer footprint - fancy indexing instead of masking - and ran the compiled loop on garbage strides.)
    "G": (lambda: np.array([[1, 1, 1], [1, 1, 1], [0, 1, 0]]), ["bool"]),
    "H": (lambda: np.ones((3, 3), int), ["bool"]),
    "S": (lambda: np.array([[1, 1, 1], [0, 0, 0], [0, 0, 0]]), ["bool", "bool", "uint8", "int64"]),   # 2nd strel
    "T": (lambda: np.array([[0, 0, 0], [0, 1, 0], [1, 1, 1]]), ["bool", "bool", "uint8", "int64"]),   # 1st strel
    "x": (lambda: np.array([1, 2, 3]), ["int32"] + _INTS),                                      # index list
    # index lists with REPEATED entries (nothing in the docstrings forbids them): adjacent repeat, the
    # largest label requested twice apart, twice at the end, a repeated absent label
    "1": (lambda: np.array([1, 2, 2, 3]), ["int32"] + _INTS),
    "2": (lambda: np.array([3, 1, 3]), ["int32"] + _INTS),
    "3": (lambda: np.array([1, 2, 3, 3]), ["int32"] + _INTS),
    "4": (lambda: np.array([1, 7, 7]), ["int32"] + _INTS),
    "t": (lambda: (np.arange(512) % 3 == 0) & ((np.arange(512) & 16) != 0), ["bool", "bool", "uint8", "int32", "int64"]),
    "k": (lambda: np.array([[1, 2, 1], [2, 4, 2], [1, 2, 1]]) / 16.0, _FLTS),                   # convolution kernel
    "o": (lambda: np.array([1, 1]), ["int64", "int32", "int64", "uint8"]),                      # footprint offset
    "a": (lambda: np.repeat(np.arange(5), 5), ["uint32", "int32", "int64", "uint32"]),          # lapjv i
    "b": (lambda: np.tile(np.arange(5), 5), ["uint32", "int32", "int64", "uint32"]),            # lapjv j
    "c": (lambda: ((np.arange(25) * 7) % 11 + 1) / 4.0, _FLTS),                                 # lapjv costs
    "h": (lambda: np.array([[0, 0], [0, 6], [6, 6], [6, 0]]), ["float64", "int32", "int64", "float32", "float64"]),
    "i": (lambda: np.array([[9, 9], [9, 14], [14, 14], [14, 9]]), ["float64", "int32", "int64", "float32", "float64"]),
    "j": (lambda: np.array([[3, 1], [2, 5], [7, 4], [5, 8]]), ["float64", "int32", "int64", "float32", "float64"]),
    "z": (lambda: np.array([[0, 0], [1, 1], [2, 0], [2, 2], [3, 1], [3, 3]]), ["intc", "int32", "int64"]),
    "d": (lambda: np.array([1, 2, 8, 3]), ["int64", "int32", "int64"]),                         # line end points
    "e": (lambda: np.array([1, 7, 2, 3]), ["int64", "int32", "int64"]),
    "g": (lambda: np.array([9, 2, 1, 3]), ["int64", "int32", "int64"]),
    "y": (lambda: np.array([4, 7, 9, 8]), ["int64", "int32", "int64"]),
    "n": (lambda: np.array([0, 1, 2]), ["int64", "int32", "int64"]),                            # kalman old indices
    "l": (lambda: np.array([2, 0, 1]), ["int64", "int32", "int64"]),                            # ... all retained, permuted
    "C": (lambda: np.array([1, -1, 0]), ["int64", "int32", "int64"]),                           # ... one dropped, one new
    "Z": (lambda: np.array([-1, -1, -1]), ["int64", "int32", "int64"]),                         # ... all new
    "m": (lambda: np.array([[1.0, 2.0], [5.0, 4.5], [8.0, 1.5]]), _FLTS),                       # kalman coordinates
    "Q": (lambda: np.tile(np.eye(2) * 0.5, (3, 1, 1)), ["float64"]),
    "R": (lambda: np.tile(np.eye(2) * 0.25, (3, 1, 1)), ["float64"]),
    "P": (lambda: np.array([[1, 0, 0], [1, 0, 5], [1, 5, 5], [1, 5, 0], [2, 6, 6], [2, 6, 9], [2, 9, 9],
                            [3, 10, 10], [3, 10, 12], [3, 12, 11]]),
          ["int32", "int64", "int32"]),                                                        # convex hull points
    "N": (lambda: np.array([4, 3, 3]), ["int32", "int64", "int32"]),                            # ... and counts
    "V": (lambda: (np.mgrid[0:5, 0:5][0] - 2) / 4.0, _FLTS),                                    # zernike x
    "X": (lambda: (np.mgrid[0:5, 0:5][1] - 2) / 4.0, _FLTS),                                    # zernike y
    "K": (lambda: np.abs(np.mgrid[0:5, 0:5][0] - 2) + np.abs(np.mgrid[0:5, 0:5][1] - 2) < 4, ["bool"]),
    "A": (lambda: np.array([4.0, 4.5, 3.5]), _FLTS),                                            # radii
    "D": (lambda: np.sort(((np.arange(40) * 37) % 101) / 101.0), _FLTS),                        # sorted 1-D data
    "W": (lambda: ((np.arange(25).reshape(5, 5) * 3) % 7 + 1.0), _FLTS),                        # edge weights
    "J": (lambda: np.array([[1, 1, 1], [1, 2, 1], [2, 1, 1], [2, 2, 1], [5, 5, 2], [5, 6, 2], [6, 5, 2], [7, 7, 3]]),
          ["int32", "int64", "int32"]),                                                        # i, j, label rows
    "v": (lambda: np.array([1, 1, 2, 2, 5, 5, 6, 7]), ["int32", "int64", "int32"]),             # ijv: i
    "u": (lambda: np.array([1, 2, 1, 2, 5, 6, 5, 7]), ["int32", "int64", "int32"]),             # ijv: j
    "w": (lambda: np.array([1, 1, 1, 1, 2, 2, 2, 3]), ["int32", "int64", "int32"]),             # ijv: labels
    "U": (lambda: np.array([.5, .25, 1., .75, .5, .5, .25, 1.]), _FLTS),                        # ijv: weights
}
for _r, (_g, _d) in SMALL.items():
    ROLE_DTYPES[_r] = _d

ROLES = "IBMLpqr" + "".join(sorted(SMALL))
REPEAT_ROLES = "1234"

# arguments that are OBJECTS holding arrays: built once per history (by the library's own constructors, the same
# way in the history process and in every fresh-interpreter reference), shared by the calls of the history,
# snapshotted deeply (every ndarray reachable through attributes / lists / tuples / dicts) before and compared
# after every call
OBJECT_ROLES = "EFOY"      # KalmanState of the static / velocity / reverse-velocity model with 3 features; Haralick


def _build_object(role, case, si):
    import centrosome.filter as F
    if role in "EFO":
        model = {"E": F.static_kalman_model, "F": F.velocity_kalman_model, "O": F.reverse_velocity_kalman_model}[role]()
        pts = np.array([[1.0, 2.0], [5.0, 4.5], [8.0, 1.5]]) + si
        q = np.tile(np.eye(model.state_len) * 0.5, (3, 1, 1))
        r = np.tile(np.eye(model.obs_len) * 0.25, (3, 1, 1))
        st = F.kalman_filter(model, -np.ones(3, int), pts, q, r)
        return F.kalman_filter(st, np.arange(3), pts + 0.75, q, r)
    import centrosome.haralick as Hk
    shape = case["shapes"][si]
    img = _content("I", shape, np.random.RandomState(case["seed"] % 1000 + si), "smooth")
    lab = _content("L", shape, np.random.RandomState(case["seed"] % 1000 + 7 + si))
    return Hk.Haralick(img, lab, 1, 0)


# value classes of intensity images: they steer the internal branches of the functions (clamping of pixels
# below max/256, degenerate constant images, NaN handling ...)
VALUE_CLASSES = ["smooth", "quantised", "zerobg", "constant", "nan", "tinyrange"]


def _content(role, shape, rng, vclass=None):
    H, W = shape
    if role in SMALL:
        a = SMALL[role][0]()
        if role in REPEAT_ROLES and vclass == "dedup":        # control experiment of the F36 attribution
            _, first = np.unique(a, return_index=True)
            a = a[np.sort(first)]
        return a
    if role in "pqr":
        return np.round(rng.rand(2) * 20 + {"p": 0, "q": 3, "r": 7}[role], 0)
    if role == "I":
        import scipy.ndimage as nd
        a = nd.gaussian_filter(rng.rand(H, W), 1.0)
        a = (a - a.min()) / max(a.max() - a.min(), 1e-9)
        q = rng.rand() < 0.5
        if vclass is None:
            vclass = "quantised" if q else "smooth"
        if vclass == "quantised":     # few levels: ties for the tie-breaking generators
            return np.round(a * 8) / 8
        if vclass == "zerobg":        # exact-zero background, values far below max/256, bright blobs
            b = np.where(a > 0.55, a, 0.0)
            b[(a > 0.4) & (a <= 0.55)] = 1e-4
            b[H // 2, W // 2] = 1.0
            return b
        if vclass == "constant":
            return np.full((H, W), 0.25)
        if vclass == "nan":
            b = a.copy()
            b[0, 0] = np.nan
            b[H // 2, W // 3] = np.nan
            return b
        if vclass == "tinyrange":     # dynamic range below 256
            return 0.5 + a / 512.0
        return a
    if role == "B":
        a = rng.rand(H, W) < 0.55
        a[H // 3:H // 3 + 4, 1:W - 1] = True
        return a
    if role == "M":
        a = rng.rand(H, W) < 0.85
        a[1:H - 1, 1:W - 1] |= rng.rand(H - 2, W - 2) < 0.5
        return a
    lab = np.zeros((H, W), int)
    lab[1:H // 2, 1:W // 2] = 1
    lab[2:4, 2:4] = 0                              # a hole
    lab[H // 2 + 1:H - 1, 2:W - 3] = 2
    lab[1:H // 2 - 1, W // 2 + 1:W - 1] = 3
    lab[rng.rand(H, W) < 0.05] = 0
    return lab


def _cast(role, a, dt):
    if role == "I":
        if dt in ("uint8", "int32", "int64"):
            return np.round(np.nan_to_num(a) * 200).astype(dt)
        return a.astype(dt)
    return a.astype(dt)


def _slice_view(a):
    """a as a non-contiguous view cut out of a larger array filled with other values"""
    if a.ndim > 2:
        big = np.zeros(tuple(2 * s + 1 for s in a.shape), a.dtype)
        big[...] = 7
        sl = tuple(slice(1, 1 + 2 * s, 2) for s in a.shape)
        big[sl] = a
        return big[sl], big
    if a.ndim == 1:
        big = np.zeros(a.shape[0] * 2 + 3, a.dtype)
        big[...] = 7
        big[1:1 + 2 * a.shape[0]:2] = a
        return big[1:1 + 2 * a.shape[0]:2], big
    big = np.zeros((a.shape[0] * 2 + 1, a.shape[1] * 2 + 3), a.dtype)
    big[...] = 1 if a.dtype == bool else 7
    big[1::2, 2:2 + 2 * a.shape[1]:2] = a
    return big[1::2, 2:2 + 2 * a.shape[1]:2], big


def _layout(a, lay):
    if lay == "C":
        return np.ascontiguousarray(a), None
    if lay == "rowview":          # C-contiguous view: a block of rows of a larger array the caller owns
        big = np.zeros((a.shape[0] + 4,) + a.shape[1:], a.dtype)
        big[...] = 1 if a.dtype == bool else 3
        big[2:2 + a.shape[0]] = a
        return big[2:2 + a.shape[0]], big
    if lay == "F":
        return np.asfortranarray(a), None
    if lay == "view":
        return _slice_view(a)
    b = np.ascontiguousarray(a).copy()
    b.setflags(write=False)
    return b, None


def _norm(case):
    """older corpus / replay files do not name the roles added later: base dtype, C layout"""
    for si in range(len(case["shapes"])):
        for role in ROLES:
            key = "%s%d" % (role, si)
            case["dt"].setdefault(key, {"I": "float64", "B": "bool", "M": "bool", "L": "int32"}.get(role)
                                  or ROLE_DTYPES[role][0])
            case["lay"].setdefault(key, "C")
    case.setdefault("vc", {})
    return case


def build_pool(case, writable=False, only_keys=None):
    """the shared input arrays of a history: {key: array}, plus the big arrays views are cut from"""
    pool, bases = {}, {}
    for si, shape in enumerate(case["shapes"]):
        for role in ROLES:
            key = "%s%d" % (role, si)
            if only_keys is not None and key not in only_keys:
                continue
            rng = np.random.RandomState((case["seed"] * 128 + si * 64 + ROLES.index(role)) & 0x7FFFFFFF)
            a = _cast(role, _content(role, shape, rng, case.get("vc", {}).get(key)), case["dt"][key])
            lay = case["lay"][key]
            if writable and lay == "ro":
                lay = "C"
            pool[key], bases[key] = _layout(a, lay)
        for role in OBJECT_ROLES:
            key = "%s%d" % (role, si)
            if only_keys is not None and key not in only_keys:
                continue
            if only_keys is None and "used" in case and key not in case["used"]:
                continue                                  # objects are built only for the histories that use them
            pool[key], bases[key] = _build_object(role, case, si), None
    return pool, bases


def _meta(a):
    return [list(a.shape), list(a.strides), a.dtype.str, bool(a.flags.writeable), bool(a.flags.c_contiguous),
            bool(a.flags.f_contiguous), bool(a.flags.owndata)]


def _deep(v, path, out, seen, depth=0):
    """every ndarray (bytes + shape/strides/dtype/flags) and scalar reachable from an object"""
    if isinstance(v, np.ndarray):
        out[path] = (v.tobytes() if v.dtype != object else digest(v), _meta(v))
    elif isinstance(v, (bool, int, float, complex, str, bytes, type(None), np.generic)):
        out[path] = repr(v)
    elif depth > 6 or id(v) in seen:
        return
    elif isinstance(v, (list, tuple)):
        seen.add(id(v))
        out[path + "#len"] = len(v)
        for i, x in enumerate(v):
            _deep(x, "%s[%d]" % (path, i), out, seen, depth + 1)
    elif isinstance(v, dict):
        seen.add(id(v))
        out[path + "#len"] = len(v)
        for k in sorted(v, key=repr):
            _deep(v[k], "%s[%r]" % (path, k), out, seen, depth + 1)
    elif hasattr(v, "__dict__"):
        seen.add(id(v))
        for k, x in sorted(vars(v).items()):
            if not callable(x):
                _deep(x, "%s.%s" % (path, k), out, seen, depth + 1)
    else:
        out[path] = repr(v)[:80]


def _snap(pool, bases):
    s = {}
    for k, a in pool.items():
        if not isinstance(a, np.ndarray):
            d = {}
            _deep(a, k, d, set())
            s[k] = d
            continue
        s[k] = (a.tobytes(), _meta(a), id(a.base) if a.base is not None else None,
                bases[k].tobytes() if bases[k] is not None else None)
    return s


def _input_diff(pool, bases, snap):
    out = []
    for k, a in pool.items():
        if not isinstance(a, np.ndarray):
            d1 = {}
            _deep(a, k, d1, set())
            d0 = snap[k]
            # an attribute that APPEARS (a value the object caches lazily, e.g. KalmanState.obs_vec) leaves every
            # array the caller handed in untouched: not a modification; results are still compared with the
            # fresh interpreter.  Existing arrays / values that change or vanish are.
            ch = sorted(p for p in set(d0) | set(d1) if d0.get(p) != d1.get(p) and p in d0)
            if ch:
                what = []
                for p in ch[:5]:
                    x, y = d0.get(p), d1.get(p)
                    if isinstance(x, tuple) and isinstance(y, tuple):
                        what.append("%s %s" % (p, "contents changed" if x[1] == y[1] else
                                               "shape/strides/dtype/flags %s -> %s" % (x[1][:3], y[1][:3])))
                    else:
                        what.append("%s %s" % (p, "appeared" if x is None else "vanished" if y is None else "changed"))
                out.append("%s (%s object): %s" % (k, type(a).__name__, "; ".join(what)))
            continue
        b0, m0, base0, big0 = snap[k]
        m1 = _meta(a)
        if m1 != m0:
            out.append("%s: shape/strides/dtype/flags changed %s -> %s" % (k, m0, m1))
            continue
        b1 = a.tobytes()
        if b1 != b0:
            x = np.frombuffer(b0, a.dtype).reshape(a.shape)
            nd = int(np.sum(~((x == a) | ((x != x) & (a != a))))) if a.dtype.kind != "V" else -1
            out.append("%s: %d element(s) of the %s %s input changed" % (k, nd, a.dtype, case_layout.get(k, "?")))
        elif (id(a.base) if a.base is not None else None) != base0:
            out.append("%s: base object changed" % k)
        elif bases[k] is not None and bases[k].tobytes() != big0:
            out.append("%s: the array the view is cut from changed outside the view" % k)
    return out


case_layout = {}


# =========================================================================== digests

def _dig(h, v, depth=0):
    if isinstance(v, np.ndarray):
        h.update(b"A" + v.dtype.str.encode() + str(v.shape).encode())
        if v.dtype == object:
            for x in v.ravel().tolist():
                _dig(h, x)
        else:
            h.update(np.ascontiguousarray(v).tobytes())
    elif isinstance(v, (list, tuple)):
        h.update(b"T" if isinstance(v, tuple) else b"L")
        h.update(str(len(v)).encode())
        for x in v:
            _dig(h, x)
    elif isinstance(v, dict):
        h.update(b"D")
        for k in sorted(v, key=repr):
            _dig(h, k); _dig(h, v[k])
    elif isinstance(v, (np.generic,)):
        h.update(b"G" + v.dtype.str.encode() + v.tobytes())
    elif isinstance(v, float):
        h.update(b"F" + np.float64(v).tobytes())
    elif isinstance(v, (bool, int, str, bytes, type(None), complex)):
        h.update(b"S" + type(v).__name__.encode() + repr(v).encode())
    elif hasattr(v, "tocoo") and hasattr(v, "shape"):          # scipy sparse
        c = v.tocoo()
        h.update(b"P" + str(c.shape).encode())
        o = np.lexsort((c.col, c.row))
        _dig(h, c.row[o]); _dig(h, c.col[o]); _dig(h, c.data[o])
    elif isinstance(v, (set, frozenset)):
        h.update(b"E")
        for x in sorted(v, key=repr):
            _dig(h, x)
    elif hasattr(v, "__dict__") and depth < 6:
        h.update(b"O" + type(v).__name__.encode())
        _dig(h, {k: x for k, x in vars(v).items() if not callable(x)}, depth + 1)
    else:
        h.update(b"R" + repr(v).encode())


def digest(v):
    h = hashlib.sha1()
    _dig(h, v)
    return h.hexdigest()


def _brief(v):
    if isinstance(v, np.ndarray):
        return "ndarray%s %s sum=%r" % (v.shape, v.dtype, (float(np.nansum(v.astype(float))) if v.dtype != object and v.size else 0))
    if isinstance(v, (list, tuple)):
        return "[" + ", ".join(_brief(x) for x in list(v)[:4]) + "]"
    return repr(v)[:60]


# =========================================================================== module state

def _module_state():
    """digest of every module-level datum and of every function's default values in the eleven
    modules (the world of the state machine), and of the global generator"""
    import importlib
    import types
    st = {}
    for m in MODS:
        mod = importlib.import_module("centrosome." + m)
        for name, v in vars(mod).items():
            if name.startswith("__") and name.endswith("__"):
                continue
            if isinstance(v, types.ModuleType):
                continue
            if isinstance(v, (types.FunctionType, types.BuiltinFunctionType)):
                if getattr(v, "__module__", None) == mod.__name__ and isinstance(v, types.FunctionType):
                    if v.__defaults__ or v.__kwdefaults__:
                        st["%s.%s#defaults" % (m, name)] = digest([v.__defaults__, v.__kwdefaults__])
                    extra = {k: x for k, x in vars(v).items()}
                    if extra:
                        st["%s.%s#attrs" % (m, name)] = digest(extra)
                continue
            if isinstance(v, type):
                if getattr(v, "__module__", None) == mod.__name__:
                    st["%s.%s#class" % (m, name)] = digest({k: x for k, x in vars(v).items()
                                                            if not callable(x) and not k.startswith("__")})
                continue
            if callable(v) and not isinstance(v, np.ndarray):
                continue
            if not isinstance(v, (np.ndarray, np.generic, int, float, bool, str, bytes, list, tuple, dict, set,
                                  frozenset, type(None))):
                continue                        # logger and the like: not data of the state machine
            st["%s.%s" % (m, name)] = "None" if v is None else digest(v)
    return st


def _rng_digest():
    s = np.random.get_state()
    return digest([s[0], s[1], s[2], s[3], s[4]])


# =========================================================================== running calls

def _ser(v, depth=0):
    """result -> JSON-able tree with exact array contents (for the cross-layout comparison)"""
    if isinstance(v, np.ndarray):
        if v.dtype == object:
            return ["L", [_ser(x, depth + 1) for x in v.ravel().tolist()]]
        return ["A", v.dtype.str, list(v.shape), np.ascontiguousarray(v).tobytes().hex()]
    if isinstance(v, np.generic):
        return ["A", v.dtype.str, [], v.tobytes().hex()]
    if isinstance(v, (list, tuple)):
        return ["L", [_ser(x, depth + 1) for x in v]]
    if isinstance(v, dict):
        return ["L", [["L", [_ser(k, depth + 1), _ser(v[k], depth + 1)]] for k in sorted(v, key=repr)]]
    if isinstance(v, bool) or v is None or isinstance(v, (int, str)):
        return ["S", repr(v)]
    if isinstance(v, float):
        return ["A", "<f8", [], np.float64(v).tobytes().hex()]
    if isinstance(v, complex):
        return ["A", "<c16", [], np.complex128(v).tobytes().hex()]
    if hasattr(v, "tocoo") and hasattr(v, "shape"):
        return _ser(np.asarray(v.todense()), depth + 1)
    if hasattr(v, "__dict__") and depth < 4:
        return _ser({k: x for k, x in vars(v).items() if not callable(x)}, depth + 1)
    return ["S", repr(v)]


def _ser_cmp(a, b, path="result"):
    """None when equal bit for bit; ('rounding', where) when only floating-point values differ within 1e-6
    relative to the largest magnitude; ('different', where) otherwise"""
    if a[0] != b[0]:
        return ("different", "%s: kind %s vs %s" % (path, a[0], b[0]))
    if a[0] == "S":
        return None if a[1] == b[1] else ("different", "%s: %s vs %s" % (path, a[1][:40], b[1][:40]))
    if a[0] == "L":
        if len(a[1]) != len(b[1]):
            return ("different", "%s: length %d vs %d" % (path, len(a[1]), len(b[1])))
        worst = None
        for i, (x, y) in enumerate(zip(a[1], b[1])):
            r = _ser_cmp(x, y, "%s[%d]" % (path, i))
            if r and r[0] == "different":
                return r
            worst = worst or r
        return worst
    if a[1] != b[1] or a[2] != b[2]:
        return ("different", "%s: dtype/shape %s%s vs %s%s" % (path, a[1], a[2], b[1], b[2]))
    if a[3] == b[3]:
        return None
    x = np.frombuffer(bytes.fromhex(a[3]), np.dtype(a[1])).reshape(a[2])
    y = np.frombuffer(bytes.fromhex(b[3]), np.dtype(b[1])).reshape(b[2])
    if x.dtype.kind not in "fc":
        return ("different", "%s: %d of %d %s element(s) differ" % (path, int(np.sum(x != y)), x.size, x.dtype))
    if not np.array_equal(np.isnan(x), np.isnan(y)) or not np.array_equal(np.isinf(x), np.isinf(y)):
        return ("different", "%s: NaN/inf pattern differs" % path)
    fin = np.isfinite(x) & np.isfinite(y)
    if np.any(np.isinf(x) & (x != y)):
        return ("different", "%s: infinities of opposite sign" % path)
    scale = max(float(np.max(np.abs(x[fin]))) if np.any(fin) else 0.0, 1e-300)
    err = float(np.max(np.abs(x[fin] - y[fin]))) if np.any(fin) else 0.0
    if err <= 1e-6 * scale:
        return ("rounding", "%s: max deviation %.3g of scale %.3g" % (path, err, scale))
    return ("different", "%s: float values differ by %.3g (scale %.3g)" % (path, err, scale))


def _exec_call(cat, call, pool, ser=False):
    key, si = call
    ent = cat[key]
    args = [pool["%s%d" % (r, si)] for r in ent[2]]
    try:
        r = ent[3](*args)
        rec = {"res": digest(r), "brief": _brief(r)[:160]}
        if ser:
            rec["ser"] = _ser(r)
        return rec
    except BaseException as e:                      # noqa: an exception is an observable outcome
        if isinstance(e, (KeyboardInterrupt, SystemExit)):
            raise
        return {"exc": type(e).__name__, "msg": str(e)[:160]}


def _run_history(case, only=None, scramble=None, writable=False, light=False, canon=False, ser=False):
    """run the calls of the case (or only call number `only`) in this process; per call: result digest,
    input differences, module-state changes, generator state"""
    cat = {c[0]: c for c in catalog()}
    _norm(case)
    if scramble is not None:
        np.random.seed(scramble & 0x7FFFFFFF)
        np.random.rand(scramble % 17)
    only_keys = None
    if only is not None:
        key, si = case["calls"][only]
        only_keys = {"%s%d" % (r, si) for r in cat[key][2]}
    if canon:                                   # same values and dtypes, every array C-contiguous and writable
        case = dict(case)
        case["lay"] = {k: "C" for k in case["lay"]}
    pool, bases = build_pool(case, writable=writable, only_keys=only_keys)
    case_layout.clear()
    case_layout.update(case["lay"])
    snap = _snap(pool, bases)
    out = []
    calls = list(enumerate(case["calls"]))
    if only is not None:
        calls = [calls[only]]
    ms0 = None if light else _module_state()
    for k, call in calls:
        r0 = _rng_digest()
        rec = _exec_call(cat, call, pool, ser=ser)
        rec["mut"] = _input_diff(pool, bases, snap)
        if not light:
            ms1 = _module_state()
            rec["gchg"] = sorted(n for n in set(ms0) | set(ms1) if ms0.get(n) != ms1.get(n))
            rec["filled"] = sorted(n for n, v in ms1.items() if "#" not in n and v != "None" and ms_lazy(n))
            ms0 = ms1
        r1 = _rng_digest()
        rec["rng_changed"] = r1 != r0
        rec["rng"] = r1
        if rec["mut"]:
            # restore nothing: the damage stays visible to later calls, as it would for a caller;
            # but re-snapshot so that each call is charged only for its own writes
            snap = _snap(pool, bases)
        out.append(rec)
    return out


_LAZY = None


def ms_lazy(name):
    return _LAZY is None or name in _LAZY


def _fork(fn, timeout=60):
    """run fn() in a forked child; returns its JSON-able result or {'crash': ...}"""
    r, w = os.pipe()
    pid = os.fork()
    if pid == 0:
        code = 0
        try:
            os.close(r)
            try:                                    # never keep the worker's stderr pipe open in a child
                dn = os.open(os.devnull, os.O_WRONLY)
                os.dup2(dn, 2)
                os.dup2(dn, 1)
            except OSError:
                pass
            signal.alarm(0)
            signal.signal(signal.SIGALRM, signal.SIG_DFL)
            try:                                    # a runaway call must not exhaust the machine's memory
                import resource
                resource.setrlimit(resource.RLIMIT_AS, (6 << 30, 6 << 30))
            except Exception:
                pass
            try:
                res = fn()
            except BaseException as e:              # noqa
                res = {"child_exc": type(e).__name__, "msg": str(e)[:300]}
            data = json.dumps(res).encode()
            with os.fdopen(w, "wb") as f:
                f.write(data)
        except BaseException:                       # noqa
            code = 3
        finally:
            os._exit(code)
    os.close(w)
    return pid, r, time.time() + timeout


def _collect(pid, r, deadline):
    chunks = []
    timed_out = False
    while True:
        left = deadline - time.time()
        if left <= 0:
            timed_out = True
            break
        rd, _, _ = select.select([r], [], [], min(left, 1.0))
        if rd:
            b = os.read(r, 1 << 16)
            if not b:
                break
            chunks.append(b)
    os.close(r)
    if timed_out:
        try:
            os.kill(pid, signal.SIGKILL)
        except OSError:
            pass
    _, status = os.waitpid(pid, 0)
    if timed_out:
        return {"crash": "timeout"}
    if os.WIFSIGNALED(status):
        return {"crash": "signal %d" % os.WTERMSIG(status)}
    try:
        return json.loads(b"".join(chunks).decode())
    except Exception:
        return {"crash": "exit %d, unreadable result" % (os.WEXITSTATUS(status) if os.WIFEXITED(status) else -1)}


def _parallel(jobs, width=4, timeout=60):
    """jobs: list of thunks -> list of results, at most `width` children at a time"""
    res = [None] * len(jobs)
    running = []
    nxt = 0
    while nxt < len(jobs) or running:
        while nxt < len(jobs) and len(running) < width:
            running.append((nxt,) + _fork(jobs[nxt], timeout))
            nxt += 1
        k, pid, r, dl = running.pop(0)
        res[k] = _collect(pid, r, dl)
    return res


def _ensure_imported():
    import importlib
    import warnings
    warnings.filterwarnings("ignore")
    for m in MODS:
        importlib.import_module("centrosome." + m)
    # third-party warm-up only (no call into the package under test): scipy.stats builds its
    # distribution machinery on first use, ~1 s per pristine fork otherwise
    import scipy.stats
    scipy.stats.norm(0.0, 1.0).pdf(np.zeros(3))


def impl(case):
    global _LAZY
    _ensure_imported()
    _norm(case)
    _LAZY = set(case.get("lazy", [])) or None
    n = len(case["calls"])
    cat = {c[0]: c for c in catalog()}
    # calls whose inputs are not all C-contiguous get a third run, alone in a pristine fork, on C-contiguous
    # twins of the same values: the result must not depend on the memory layout either
    twin = []
    for k, (key, si) in enumerate(case["calls"]):
        used = ["%s%d" % (r, si) for r in cat[key][2]]
        if any(case["lay"].get(u) in ("F", "view") for u in used):
            twin.append(k)
    jobs = [lambda: _run_history(case)]
    for k in range(n):
        jobs.append(lambda k=k: _run_history(case, only=k, scramble=case["scramble"] + 7919 * (k + 1), light=True,
                                             ser=k in twin)[0])
    for k in twin:
        jobs.append(lambda k=k: _run_history(case, only=k, scramble=case["scramble"] + 104729 * (k + 1), light=True,
                                             canon=True, ser=True)[0])
    # histories that contain a call with the F36 predicate (known out-of-bounds read, heap dependent: garbage
    # hull vertices can send the callers into very long loops) get a short time limit and no second chance:
    # the failure goes to the attribution (call site + predicate + control experiment)
    has_f36 = any(_f36_call(case, c, cat[c[0]][2], cat[c[0]][1]) for c in case["calls"] if c[0] in cat)
    res = _parallel(jobs, width=int(os.environ.get("C20_WIDTH", "4")), timeout=8 if has_f36 else FORK_TIMEOUT)
    # a crashed child is run once more: only a crash that repeats is charged to the library
    out_flaky = 0
    for i, r in enumerate(res):
        if isinstance(r, dict) and "crash" in r and not has_f36:
            r2 = _parallel([jobs[i]], width=1, timeout=FORK_TIMEOUT)[0]
            if not (isinstance(r2, dict) and "crash" in r2):
                res[i] = r2
                out_flaky += 1
    hist, refs, canon = res[0], res[1:n + 1], res[n + 1:]
    out = {"hist": hist, "refs": refs, "probes": {}, "layout": {}, "flaky_crashes": out_flaky}
    for k, c in zip(twin, canon):
        r = refs[k]
        if not (isinstance(r, dict) and isinstance(c, dict)):
            continue
        if "ser" in r and "ser" in c:
            d = _ser_cmp(r["ser"], c["ser"])
            out["layout"][str(k)] = list(d) if d else ["same", ""]
        elif "exc" in r and "ser" in c:
            out["layout"][str(k)] = ["rejected", "%s: %s" % (r["exc"], r.get("msg", "")[:80])]
        elif "ser" in r and "exc" in c:
            out["layout"][str(k)] = ["different", "raises %s on C-contiguous input only" % c["exc"]]
        elif "exc" in r and "exc" in c:
            out["layout"][str(k)] = ["same", "both raise"] if r["exc"] == c["exc"] else \
                ["rejected", "%s vs %s" % (r["exc"], c["exc"])]
    for r in refs:
        if isinstance(r, dict):
            r.pop("ser", None)
    # a read-only input that made the call raise: repeat the call alone with writable twins and look
    # for the write the flag turned into an exception
    if isinstance(hist, list):
        ro_keys = {k for k, l in case["lay"].items() if l == "ro"}
        todo = []
        for k, rec in enumerate(hist):
            if "exc" in rec:
                key, si = case["calls"][k]
                used = {"%s%d" % (r, si) for r in cat[key][2]}
                if used & ro_keys:
                    todo.append(k)
        pr = _parallel([lambda k=k: _run_history(case, only=k, scramble=1, writable=True, light=True)[0] for k in todo],
                       width=4, timeout=FORK_TIMEOUT)
        for k, p in zip(todo, pr):
            out["probes"][str(k)] = p
    return out


def single_main():
    """entry for a TRUE fresh interpreter: argv = case json, call number; prints the record"""
    case = json.loads(sys.argv[1])
    k = int(sys.argv[2])
    _ensure_imported()
    global _LAZY
    _LAZY = set(case.get("lazy", [])) or None
    print("C20REC " + json.dumps(_run_history(case, only=k, scramble=int(sys.argv[3]), light=True)[0]))


# =========================================================================== generation

def _mk_case(ctx, rng, cat, calls=None, length=None, shapes=None):
    # three input sets of DIFFERENT sizes (large, medium, tiny) so that a history runs the same function on
    # inputs of different sizes in both orders
    shapes = shapes or [[int(rng.randint(11, 18)), int(rng.randint(11, 18))],
                        [int(rng.randint(6, 11))] * 2,           # square (angular_distribution accepts nothing else)
                        [int(rng.randint(3, 6)), int(rng.randint(3, 6))]]
    dt, lay, vc = {}, {}, {}
    for si in range(len(shapes)):
        for role in ROLES:
            key = "%s%d" % (role, si)
            dt[key] = str(rng.choice(ROLE_DTYPES[role]))
            lay[key] = str(rng.choice(LAYOUTS))
            if role == "I":
                u = rng.rand()
                if u < 0.45:
                    vc[key] = str(rng.choice(["zerobg", "zerobg", "zerobg", "constant", "nan", "tinyrange", "tinyrange"]))
    if calls is None:
        n = length or int(rng.randint(2, 13))
        calls = []
        while len(calls) < n:
            u = rng.rand()
            if calls and u < 0.22:
                # repetition of an earlier call, on the same or on the other input set
                key, si = calls[int(rng.randint(len(calls)))]
                calls.append([key, si if rng.rand() < 0.3 else _other_set(rng, si, len(shapes))])
            elif u < 0.45:
                key = str(rng.choice(_STATEFUL_KEYS(cat)))
                calls.append([key, _pick_set(rng, len(shapes))])
            else:
                key = cat[int(rng.randint(len(cat)))][0]
                calls.append([key, _pick_set(rng, len(shapes))])
    side = _side_or_none(ctx) if ctx is not None else None
    roles = {c[0]: c[2] for c in cat}
    used = sorted({"%s%d" % (r, si) for key, si in calls for r in roles.get(key, "")})
    return {"used": used, "seed": int(rng.randint(1 << 30)), "scramble": int(rng.randint(1 << 30)), "shapes": shapes,
            "dt": dt, "lay": lay, "vc": vc, "calls": calls,
            "lazy": side["lazy"] if side else []}


def _pick_set(rng, n):
    return int(rng.choice(n, p=[0.45, 0.35, 0.2][:n])) if n == 3 else int(rng.randint(n))


def _other_set(rng, si, n):
    return int(rng.choice([s for s in range(n) if s != si]))


_SF = {}


def _STATEFUL_KEYS(cat):
    """catalog keys of functions that fill lazily built tables or use the global generator (by name;
    the generated table decides what the model says about them)"""
    k = id(cat)
    if k not in _SF:
        names = ("thin", "binary_shrink", "binary_shrink_old", "skeleton_length", "skeletonize", "skeletonize_labels",
                 "regional_maximum", "get_mog_threshold", "smooth_with_noise", "label_skeleton", "distance2_to_line")
        _SF[k] = [c[0] for c in cat if c[0].split("+")[0].split("-it")[0] in names or c[0] in names
                  or c[0].startswith(("skeleton_length", "get_mog_threshold", "regional_maximum", "binary_shrink"))]
    return _SF[k]


def _coverage_counts(ctx):
    try:
        drives = _drives(ctx)["drives"]
    except Exception as e:
        ctx.note("drive table unavailable: %s" % str(e)[:200])
        return
    driven = {(f, p) for v in drives.values() for f, p, r in v}
    ctx.count("catalog.calls", len(drives))
    ctx.count("catalog.function_parameter_pairs_fed_caller_arrays", len(driven))
    side = _side_or_none(ctx)
    if side:
        und = [e["name"] + ":" + p for e in side["functions"] if e["public"] and not e["exempt"]
               for p in e.get("array_params", []) if (e["name"], p) not in driven]
        ctx.count("catalog.array_like_parameters_not_fed", len(und))
        ctx.note("array-like parameters of public functions never fed a caller-owned array: " + ", ".join(und))


def generate(ctx):
    cat = _catalog_index(ctx)
    _coverage_counts(ctx)
    rng = ctx.rng
    cases = []
    corpus = os.path.join(_VERIF, "corpus", "C20")
    if os.path.isdir(corpus):
        for f in sorted(os.listdir(corpus)):
            if f.endswith(".json"):
                with open(os.path.join(corpus, f)) as fh:
                    c = json.load(fh)
                c["lazy"] = (_side_or_none(ctx) or {"lazy": []})["lazy"]
                _norm(c)
                cases.append(c)
                ctx.count("corpus")
    # every catalog entry at least once per run: short histories (entry on set 0, entry on set 1)
    keys = [c[0] for c in cat]
    order = list(rng.permutation(len(keys)))
    per = 4
    for s in range(0, len(order), per):
        calls = []
        for i in order[s:s + per]:
            calls.append([keys[i], 0])
        for i in order[s:s + per][:2]:
            calls.append([keys[i], 1])
        for i in order[s:s + per][2:3]:
            calls.append([keys[i], 2])
        cases.append(_mk_case(ctx, rng, cat, calls=calls))
        ctx.count("sweep")
    # ordered pairs of the calls that fill lazily built tables or draw random numbers, each on both
    # input sets (thorough: all pairs; quick: a random tenth)
    sk = _STATEFUL_KEYS(cat)
    for a in sk:
        for b in sk:
            if rng.rand() > ctx.n(0.05, 0.4):
                continue
            cases.append(_mk_case(ctx, rng, cat, calls=[[a, 0], [b, 1], [a, 1], [b, 0], [a, 2], [b, 2], [a, 0]]))
            ctx.count("stateful_pairs")
    # histories that re-use ONE object argument (KalmanState, Haralick) across their calls: the same call
    # twice, one state fed to different successor calls, model constructors in between
    ctors = [c[0] for c in cat if c[1] in ("filter.static_kalman_model", "filter.velocity_kalman_model",
                                             "filter.reverse_velocity_kalman_model")]
    for orole in OBJECT_ROLES:
        okeys = [c[0] for c in cat if orole in c[2]]
        if not okeys:
            continue
        for rep_ in range(ctx.n(5, 60)):
            si = _pick_set(rng, 3)
            n = int(rng.randint(3, 8))
            calls = []
            while len(calls) < n:
                u = rng.rand()
                if calls and u < 0.35:
                    calls.append(list(calls[int(rng.randint(len(calls)))]))      # the identical call again
                elif u < 0.5 and ctors and orole != "Y":
                    calls.append([str(rng.choice(ctors)), si])
                else:
                    calls.append([str(rng.choice(okeys)), si])
            cases.append(_mk_case(ctx, rng, cat, calls=calls))
            ctx.count("object_histories")
    # index lists with repeated entries, after calls on tiny arrays of their own (heap history)
    tiny = [c[0] for c in cat if c[0].startswith("tiny:")]
    repk = [c[0] for c in cat if "~idx" in c[0]]
    fam = [c[0] for c in cat if "~idx" in c[0] and c[1] in F36_FAMILY]
    for rep_ in range(ctx.n(16, 300)):
        si = _pick_set(rng, 3)
        calls = []
        for _ in range(int(rng.randint(2, 5))):
            for _ in range(int(rng.randint(0, 4))):
                calls.append([str(rng.choice(tiny)), 0])
            calls.append([str(rng.choice(fam if rng.rand() < 0.5 else repk)), si if rng.rand() < 0.7 else _pick_set(rng, 3)])
        cases.append(_mk_case(ctx, rng, cat, calls=calls[:12]))
        ctx.count("index_repeat_histories")
    for _ in range(ctx.n(120, 2000)):
        cases.append(_mk_case(ctx, rng, cat))
        ctx.count("random")
    for c in cases:
        ctx.count("len.%02d" % len(c["calls"]))
        for k, l in c["lay"].items():
            ctx.count("layout." + l)
        for k, d in c["dt"].items():
            ctx.count("dtype." + d)
    return cases


def _model_witnesses(ctx):
    """ask the state machine (extracted from the CURRENT generated table) which one-call histories
    change the result of which call: pairs (f_before, f) with result_after [f_before] f <> result_after [] f,
    and calls whose result depends on the incoming generator state alone"""
    from harness import core
    cat = _catalog_index(ctx)
    fm = _fid_map(ctx)
    with core.CoqLock():
        core.coq_make([EXTRACT[0][:-2] + ".vo"], timeout=900, jobs=4)
    fns = sorted({c[1] for c in cat if c[1] in fm})
    ids = [fm[f]["id"] for f in fns]
    n = len(ids)
    args = [[0, 1, [[a, 3]], [b, 5]] for a in ids for b in ids] + [[0, 1, [], [b, 5]] for b in ids]
    res = ctx.run_model("entry_hi", args)
    pairs = [(fns[i // n], fns[i % n]) for i in range(n * n) if res[i] == 0]
    alone = [fns[i] for i in range(n) if res[n * n + i] == 0]
    return pairs, alone


def _flagged(side):
    """functions whose regenerated effect entry violates an obligation, the ones with a direct (own-body)
    finding first: [(entry, [candidate parameter names])]"""
    direct, indirect = [], []
    for e in side["functions"]:
        bad_inplace = e["inplace"] and not e["exempt"]
        bad_other = any(k not in (0, 3) for _, k in e["fills"]) or e["unguarded_reads"] or e["entropy"] \
            or (e["draws_global"] and not e["seed_dominated"])
        if not (bad_inplace or bad_other):
            continue
        pn = sorted({n for _, _, f, n in e["inplace"]}) if bad_inplace else []
        own = (bad_inplace and any(not f.startswith("passes it to") for _, _, f, _ in e["inplace"])) or \
            (bad_other and any(s[0].split(".")[0] == e["name"].split(".")[0] and s[3] >= e["line"]
                               for s in e["fill_sites"]))
        (direct if own else indirect).append((e, pn))
    return direct + indirect


def _candidate_cases(ctx, rng, cat, side):
    """the targeted search after a broken effect-table obligation.  For every function whose regenerated
    effect entry breaks an obligation, every catalog call of that function - the hand-written ones and the
    ones synthesised from its signature, i.e. every optional-argument pattern (all omitted / each supplied /
    all supplied) - is run on every layout {C, Fortran, strided view, contiguous row view of a larger parent,
    read-only} x every value class of the intensity image {smooth, quantised, exact-zero background with
    values below max/256, constant, NaN, tiny dynamic range}, cycling through the dtypes of the candidate
    parameter's role (first the dtype the library converts to), followed by calls that share the array and
    the call again.  The call list is derived from the regenerated table, not from a fixed list."""
    try:
        drives = _drives(ctx)["drives"]
    except Exception as e:
        ctx.note("drive table unavailable: %s" % str(e)[:200])
        drives = {}
    roles_of = {c[0]: c[2] for c in cat}
    by_fn = {}
    for c in cat:
        by_fn.setdefault(c[1], []).append(c[0])
    cases = []
    budget_total = 900
    flagged = _flagged(side)
    ctx.count("search.flagged_functions", len(flagged))
    for e, pnames in flagged:
        keys = list(by_fn.get(e["name"], []))
        for k, v in drives.items():
            if k not in keys and any(f == e["name"] and (not pnames or p in pnames) for f, p, r in v):
                keys.append(k)
        if not keys:
            if e["public"]:
                ctx.note("catalog gap: no call of %s" % e["name"])
            ctx.count("search.flagged_without_catalog_call")
            continue
        ctx.count("search.flagged_instantiated")
        # roles of the candidate parameters (when the drive table knows them)
        cand_roles = {r for k in keys for f, p, r in drives.get(k, []) if f == e["name"] and p in pnames}
        per_fn = 0
        combos = [(lay, vcl) for lay in LAYOUTS for vcl in VALUE_CLASSES]
        rng.shuffle(combos)
        n_round = 0
        while per_fn < 260 and len(cases) < budget_total and n_round < 3:
            n_round += 1
            for key in keys:
                rl = roles_of.get(key, "")
                sharing = [k for k, v in drives.items() if k != key and any(r in rl for _, _, r in v)] or \
                          [k for k in roles_of if k != key and set(roles_of[k]) & set(rl)]
                for lay, vcl in combos:
                    if per_fn >= 260 or len(cases) >= budget_total:
                        break
                    others = [str(rng.choice(sharing)) for _ in range(2)] if sharing else []
                    c = _mk_case(ctx, rng, cat, calls=[[key, 0]] + [[o, 0] for o in others] + [[key, 0]])
                    for r in rl:
                        k0 = "%s0" % r
                        if lay != "ro" or r in cand_roles or not cand_roles:
                            c["lay"][k0] = lay
                        if r == "I":
                            if vcl in ("smooth", "quantised"):
                                c["vc"][k0] = vcl
                            else:
                                c["vc"][k0] = vcl
                        if (r in cand_roles or (not cand_roles and r in "IBL")) and n_round == 1 and r in ROLE_DTYPES:
                            c["dt"][k0] = ROLE_DTYPES[r][0] if r not in "IBL" else \
                                {"I": "float64", "B": "bool", "L": "int32"}[r]
                    cases.append(c)
                    per_fn += 1
    return cases


def search_cases(ctx, rnd):
    """after a broken obligation: (round 0) the histories on which the state machine built from the
    regenerated table itself predicts a history-dependent result, instantiated with every catalog call
    of the two functions; then histories aimed at the functions the translator flagged, plus a larger
    random batch"""
    cat = _catalog_index(ctx)
    rng = ctx.rng
    side = _side_or_none(ctx)
    if side is None:
        return [_mk_case(ctx, rng, cat) for _ in range(200)]
    if rnd == 0:
        cand = _candidate_cases(ctx, rng, cat, side)
        if cand:
            return cand
    if rnd <= 1:
        try:
            pairs, alone = _model_witnesses(ctx)
        except Exception as e:                      # the model may not build when the table is malformed
            ctx.note("model-guided search unavailable: %s" % str(e)[:200])
            pairs, alone = [], []
        ctx.count("search.model_witness_pairs", len(pairs))
        ctx.count("search.model_witness_single", len(alone))
        bykey = {}
        for c in cat:
            bykey.setdefault(c[1], []).append(c[0])
        cases = []
        alone_set = set(alone)
        # a function that depends on the incoming state alone is a witness after anything: keep the pairs
        # whose second member is not already a single-call witness small
        for f in alone:
            for kb in bykey[f][:4]:
                cases.append(_mk_case(ctx, rng, cat, calls=[[kb, 0], [kb, 1], [kb, 0]]))
        order = list(rng.permutation(len(pairs)))
        for i in order:
            fa, fb = pairs[i]
            if fb in alone_set:
                continue
            ka = bykey[fa][int(rng.randint(len(bykey[fa])))]
            kb = bykey[fb][int(rng.randint(len(bykey[fb])))]
            cases.append(_mk_case(ctx, rng, cat, calls=[[ka, 0], [kb, 1], [kb, 0], [ka, 1], [kb, 1]]))
            if len(cases) >= 400:
                break
        if cases:
            return cases
    flagged = set()
    for e in side["functions"]:
        if any(k not in (0, 3) for _, k in e["fills"]) or e["unguarded_reads"] or (e["draws_global"] and not e["seed_dominated"]) \
                or e["entropy"] or (e["inplace"] and not e["exempt"]):
            flagged.add(e["name"])
    keys = [c[0] for c in cat if c[1] in flagged]
    cases = []
    allk = [c[0] for c in cat]
    for key in keys:
        for rep in range(6):
            other = [str(rng.choice(allk)) for _ in range(3)]
            calls = [[key, 0], [key, 1], [other[0], 0], [key, 0], [other[1], 1], [key, 1], [other[2], 0], [key, 0]]
            cases.append(_mk_case(ctx, rng, cat, calls=calls))
    for _ in range(150):
        cases.append(_mk_case(ctx, rng, cat))
    return cases


# =========================================================================== the property

# calls left out of the layout-independence clause (none so far); each exclusion is counted in the evidence
LAYOUT_EXCLUDED = {}


# ---- known finding F36 (C20, also C19): _convex_hull.pyx reads one row past its sorted (i, j, label) buffer
# (`labels_ijv[pixidx, 2]` with pixidx == shape[0], boundscheck off) when the index list requests the largest label
# again after the request that consumed the last row; what it finds there is whatever earlier calls left on the
# heap.  Compiled code: cannot be repaired here.  Attribution is by call site AND argument predicate AND a control
# experiment, never a blanket mute.
F36_FAMILY = {"cpmorphology.convex_hull", "cpmorphology.convex_hull_ijv", "cpmorphology.minimum_enclosing_circle",
              "cpmorphology.calculate_convex_hull_areas", "cpmorphology.calculate_solidity", "zernike.zernike"}


def _f36_call(case, call, roles, fn):
    """is this call in the convex-hull family with an index list that repeats the largest requested label that
    is present in its label input?"""
    if fn not in F36_FAMILY:
        return False
    rr = [r for r in roles if r in REPEAT_ROLES]
    if not rr or case.get("vc", {}).get("%s%d" % (rr[0], call[1])) == "dedup":
        return False
    idx = [int(v) for v in SMALL[rr[0]][0]()]
    lab_role = "L" if "L" in roles else ("J" if "J" in roles else None)
    if lab_role is None:
        return False
    key = "%s%d" % (lab_role, call[1])
    pool, _ = build_pool(_norm(dict(case, used=[key])), only_keys={key})
    lab = pool[key]
    present = set(np.unique(lab[:, 2] if lab_role == "J" else lab).tolist()) - {0}
    req = [v for v in idx if v in present]
    return bool(req) and idx.count(max(req)) >= 2


def attribute(ctx, case, out, clause):
    """F36 iff (a) the clause is a result difference (vs history / fresh interpreter / C-contiguous twin) or a
    crash, (b) the differing call - or, when the history process died, some call of the history - is a
    convex-hull-family call whose index list repeats the largest requested label present, and (c) the same
    history with the repeats removed from the index lists passes.  Everything else stays a violation."""
    import re
    if not clause or "modified its input" in clause or "writes into the writable twin" in clause:
        return None
    cat = {c[0]: c for c in _catalog_index(ctx)}
    m = re.match(r"call (\d+) \(", clause)
    if m:
        ks = [int(m.group(1))]
    elif "died" in clause or "could not be run" in clause:
        ks = list(range(len(case["calls"])))
    else:
        return None
    hit = [k for k in ks if k < len(case["calls"]) and case["calls"][k][0] in cat
           and _f36_call(case, case["calls"][k], cat[case["calls"][k][0]][2], cat[case["calls"][k][0]][1])]
    if not hit:
        return None
    ctl = json.loads(json.dumps(case))
    ctl.setdefault("vc", {})
    for si in range(len(ctl["shapes"])):
        for r in REPEAT_ROLES:
            ctl["vc"]["%s%d" % (r, si)] = "dedup"
    o2 = ctx.run_impl([ctl])[0]
    if _check_one(ctl, o2) is not None:
        return None
    ctx.count("F36.attributed")
    return "F36"


_F36_CODE = r"""
import sys, json, warnings
warnings.simplefilter("ignore")
import numpy as np
import centrosome.cpmorphology as M
import centrosome.outline as OL
w = json.loads(sys.argv[1]); hist, rep = int(sys.argv[2]), int(sys.argv[3])
bad, n = [], 0
for V in list(range(1, w["max_label"])) + w["extra_labels"]:
    for blk in w["blocks"]:
        if hist:        # two public calls on tiny arrays of their own before every convex_hull call
            a = OL.outline(np.full((1, blk[1]), V, np.int32)); b = M.relabel(np.full((blk[0], 3), V, np.int32)); del a, b
        labels = np.zeros(tuple(w["labels_shape"]), np.int32)
        labels[1:1 + blk[0], 1:1 + blk[1]] = V
        indexes = np.array([V] * rep, np.int32)
        before = (labels.tobytes(), indexes.tobytes())
        pts, counts = M.convex_hull(labels, indexes)
        assert before == (labels.tobytes(), indexes.tobytes())
        n += 1
        if (rep > 1 and counts[1] != 0) or len(pts) != counts.sum():
            bad.append([V, list(blk), pts.tolist()[-2:], counts.tolist()])
print("F36OUT", json.dumps({"n": n, "nbad": len(bad), "bad": bad[:4]}))
"""


def reproduce_finding(ctx, finding):
    """does the recorded witness still show?  The witness is a sequence of convex_hull(labels, [V, V]) calls (one
    rectangular object of label V, the largest label requested twice) over many V and object sizes, run in true
    fresh interpreters once on its own and once with two public calls on tiny arrays (outline, relabel) before
    every call, plus the same two runs with the repeat removed as control.  It reproduces when a run with the
    repeat crashes (heap corruption / SIGSEGV), returns a vertex for the repeated request, or the two runs differ,
    while both control runs are clean."""
    if finding.get("id") != "F36":
        return False
    w = finding["witness"]["sweep"]

    def run(hist, rep):
        try:
            o = ctx.run_staged_python(_F36_CODE, timeout=300, args=[json.dumps(w), str(hist), str(rep)])
            line = [l for l in o.splitlines() if l.startswith("F36OUT ")]
            return json.loads(line[-1][7:]) if line else "no output"
        except Exception as e:
            return "crashed: " + (str(e)[-120:] or "no message")
    from concurrent.futures import ThreadPoolExecutor
    with ThreadPoolExecutor(max_workers=4) as ex:
        r = list(ex.map(lambda a: run(*a), [(0, 2), (1, 2), (0, 1), (1, 1)]))
    alone, after, c0, c1 = r
    ctl_clean = all(isinstance(c, dict) and c["nbad"] == 0 for c in (c0, c1))
    shows = any(isinstance(x, str) or x["nbad"] != 0 for x in (alone, after)) or alone != after
    ctx.note("F36 witness: alone -> %s; after tiny-array calls -> %s; without the repeat -> %s / %s" % (
        str(alone)[:100], str(after)[:100], str(c0)[:60], str(c1)[:60]))
    return bool(shows and ctl_clean)


def _bad(o):
    return (not isinstance(o, dict)) or "exc" in o or "crash" in o or "hist" not in o


def _outcome(rec):
    if not isinstance(rec, dict):
        return "missing"
    if "crash" in rec or "child_exc" in rec:
        return "crash:%s" % (rec.get("crash") or rec.get("child_exc"))
    if "exc" in rec:
        return "exc:" + rec["exc"]
    return "res:" + rec["res"]


def _check_one(case, out):
    if _bad(out):
        return "history could not be run: %s" % (str(out)[:300],)
    hist, refs = out["hist"], out["refs"]
    if not isinstance(hist, list):
        return "the process running the history died (%s)" % (str(hist)[:200],)
    for k, (call, rec) in enumerate(zip(case["calls"], hist)):
        name = "%s on input set %d" % (call[0], call[1])
        if rec.get("mut"):
            return "call %d (%s) modified its input: %s" % (k, name, "; ".join(rec["mut"])[:400])
        ref = refs[k] if k < len(refs) else None
        if isinstance(ref, dict) and ref.get("mut"):
            return "call %d (%s), alone in a fresh interpreter, modified its input: %s" % (
                k, name, "; ".join(ref["mut"])[:400])
        p = out.get("probes", {}).get(str(k))
        if isinstance(p, dict) and p.get("mut"):
            return ("call %d (%s) raised %s on a read-only input and writes into the writable twin of it: %s" % (
                k, name, rec.get("exc"), "; ".join(p["mut"])[:300]))
        a, b = _outcome(rec), _outcome(ref)
        if a.startswith("crash") or b.startswith("crash") or b == "missing":
            return "call %d (%s) crashed the interpreter: in history %s, fresh %s" % (k, name, a, b)
        lay = out.get("layout", {}).get(str(k))
        if a == b and lay and lay[0] == "different" and call[0] not in LAYOUT_EXCLUDED:
            used = {u: case["lay"][u] for u in case["lay"] if u[-1] == str(call[1]) and case["lay"][u] in ("F", "view")}
            return ("call %d (%s) depends on the memory layout of its inputs: on %s it gives %s, on C-contiguous arrays "
                    "of the same values and dtypes something else (%s)" % (k, name, used, rec.get("brief", "")[:80], lay[1][:160]))
        if a != b:
            prev = [c[0] for c in case["calls"][:k]]
            how = ("depends on the call history: after %s" % prev) if prev else \
                "depends on the state the process is in (global random generator / entropy): in this process"
            return ("call %d (%s) %s it gives %s (%s), in a fresh interpreter %s (%s)"
                    % (k, name, how, a[:16], rec.get("brief", rec.get("msg", ""))[:80],
                       b[:16], (ref or {}).get("brief", (ref or {}).get("msg", ""))[:80]))
    return None


def check(ctx, cases, outs):
    res = [_check_one(c, o) for c, o in zip(cases, outs)]
    # sub-sample in TRUE fresh interpreters (only on the main batch, not while shrinking)
    if len(cases) >= 20:
        picks = []
        rng = np.random.RandomState(len(cases))
        for ci in rng.permutation(len(cases)):
            o = outs[ci]
            if _bad(o) or not isinstance(o["hist"], list) or res[ci]:
                continue
            k = int(rng.randint(len(cases[ci]["calls"])))
            if k > 0:
                picks.append((int(ci), k))
            if len(picks) >= ctx.n(12, 120):
                break
        from concurrent.futures import ThreadPoolExecutor

        def one(p):
            ci, k = p
            try:
                outp = ctx.run_staged_python(
                    "import harness.props.c20 as P; P.single_main()", timeout=300,
                    args=[json.dumps(cases[ci]), str(k), str(12345 + k)])
                line = [l for l in outp.splitlines() if l.startswith("C20REC ")][-1]
                return json.loads(line[7:])
            except Exception as e:
                return {"harness_error": str(e)[:300]}
        t = time.time()
        with ThreadPoolExecutor(max_workers=4) as ex:
            recs = list(ex.map(one, picks))
        ctx.timings["true_fresh_interpreters"] = round(time.time() - t, 1)
        for (ci, k), rec in zip(picks, recs):
            if "harness_error" in rec:
                ctx.note("true fresh interpreter failed: " + rec["harness_error"])
                ctx.count("fresh_subprocess.error")
                continue
            ctx.count("fresh_subprocess.compared")
            a, b = _outcome(outs[ci]["hist"][k]), _outcome(rec)
            if a != b and not res[ci]:
                res[ci] = ("call %d (%s) depends on the call history: in the history %s, in a true fresh interpreter %s"
                           % (k, cases[ci]["calls"][k][0], a[:20], b[:20]))
            if rec.get("mut") and not res[ci]:
                res[ci] = "call %d (%s) modified its input in a true fresh interpreter: %s" % (
                    k, cases[ci]["calls"][k][0], rec["mut"])
    for c, o in zip(cases, outs):
        if _bad(o) or not isinstance(o["hist"], list):
            continue
        for call, rec in zip(c["calls"], o["hist"]):
            ctx.count("calls")
            if "exc" in rec:
                ctx.count("calls.rejected_consistently")
        if o.get("flaky_crashes"):
            ctx.count("child_crash_not_repeated", o["flaky_crashes"])
        for k, lay in o.get("layout", {}).items():
            ctx.count("layout_twin." + lay[0])
            if lay[0] == "rounding":
                ctx.count("layout_twin.rounding." + c["calls"][int(k)][0])
            if lay[0] == "different" and c["calls"][int(k)][0] in LAYOUT_EXCLUDED:
                ctx.count("layout_twin.excluded." + c["calls"][int(k)][0])
    return res


def nontrivial(case, out):
    if _bad(out) or not isinstance(out["hist"], list):
        return False
    ok = [k for k, r in enumerate(out["hist"]) if "res" in r]
    if len(ok) < 2:
        return False
    stateful = any(out["hist"][k].get("gchg") or out["hist"][k].get("rng_changed") for k in ok)
    keys = [case["calls"][k][0] for k in ok]
    repeated = len(set(keys)) < len(keys)
    return bool(stateful or repeated)


# =========================================================================== model, correspondence

def _fid_map(ctx):
    side = _side(ctx)[0]
    return {e["name"]: e for e in side["functions"]}


def model(ctx, cases, outs):
    from harness import core
    if _side_or_none(ctx) is None:
        _SIDE_LAST.clear()
        return [{"model_error": "the translator refused the source"}] * len(cases)
    _prime(ctx)
    with core.CoqLock():
        core.coq_make([EXTRACT[0][:-2] + ".vo"], timeout=900, jobs=4)
    cat = {c[0]: c for c in _catalog_index(ctx)}
    fm = _fid_map(ctx)
    args = []
    for c in cases:
        h = [[fm[cat[key][1]]["id"], si] for key, si in c["calls"]]
        args.append([c["seed"] % 1000, h])
    return ctx.run_model("entry_run", args)


def compare(case, out, m):
    if _bad(out) or not isinstance(out["hist"], list):
        return None                       # reported by check
    if isinstance(m, dict):
        return "model error: %s" % m
    side = _SIDE_LAST.get("side")
    if side is None:
        return "no generated table"
    gl = side["globals"]
    if len(m) != len(out["hist"]):
        return "model trace has %d steps, history %d" % (len(m), len(out["hist"]))
    cat = _SIDE_LAST["cat"]
    fm = _SIDE_LAST["fm"]
    for k, (rec, step) in enumerate(zip(out["hist"], m)):
        seen, filled, rng_changed, _ = step
        key = case["calls"][k][0]
        ent = fm[cat[key][1]]
        allowed = {gl[g] for g, _ in ent["fills"]}
        allowed |= {n.split("#default:")[0] + "#defaults" for n in allowed if "#default:" in n}
        obs = set(rec.get("gchg", []))
        if not obs <= allowed:
            return "call %d (%s) changed module state its signature does not list: %s (signature: %s)" % (
                k, key, sorted(obs - allowed), sorted(allowed))
        mf = {gl[g] for g in filled}
        of = set(rec.get("filled", []))
        if not of <= mf:
            return "after call %d (%s) tables %s are filled, the model has %s" % (k, key, sorted(of - mf), sorted(mf))
        if rec.get("rng_changed") and not rng_changed:
            return "call %d (%s) changed the global generator state; its signature says it does not draw" % (k, key)
        ref = out["refs"][k] if k < len(out["refs"]) else None
        if seen[1][0] == 1 and rec.get("rng_changed") and isinstance(ref, dict) and ref.get("rng_changed") \
                and "res" in rec and "res" in ref and rec["rng"] != ref["rng"]:
            return ("call %d (%s) is seed-dominated in the model but leaves the generator in a state that depends on "
                    "the incoming state" % (k, key))
    return None


_SIDE_LAST = {}


def _prime(ctx):
    _SIDE_LAST["side"] = _side(ctx)[0]
    _SIDE_LAST["cat"] = {c[0]: c for c in _catalog_index(ctx)}
    _SIDE_LAST["fm"] = _fid_map(ctx)


def kernel_crosscheck(ctx, cases, outs):
    """(a) the rows of the table the proofs are about, read back through the extracted program, equal
    the translator's JSON; (b) the extracted checker accepts the table; (c) vm_compute evaluation
    of entry_run equals the extracted program on a sub-sample of the histories"""
    side = _side_or_none(ctx)
    if side is None:
        return "the translator refused the source: no generated table to cross-check", 0
    fns = side["functions"]
    rows = ctx.run_model("entry_sig", [e["id"] for e in fns])
    for e, r in zip(fns, rows):
        exp = [e["id"], int(e["public"]), [[g, k] for g, k in e["fills"]], e["reads"],
               [side["globals"].index(g) for g, _ in e["unguarded_reads"]], int(e["draws_global"]),
               int(e["seed_dominated"]), ([e["seed_lit"]] if e["seed_lit"] is not None else []),
               int(bool(e["entropy"])), [[p, l] for p, l, _, _ in e["inplace"]], int(e["exempt"])]
        if r != exp:
            return "row %s of the compiled table differs from the translator's: %s vs %s" % (e["name"], r, exp), 0
    chk = ctx.run_model("entry_check", [[]])[0]
    if chk[:3] != [1, 1, 1] or chk[3] != len(fns):
        bad = [fns[i]["name"] for i, b in enumerate(chk[4]) if not b] + \
              [fns[i]["name"] + " (in-place)" for i, b in enumerate(chk[5]) if not b]
        return "the extracted checker rejects the generated table: %s" % bad[:6], 0
    cat = {c[0]: c for c in _catalog_index(ctx)}
    fm = _fid_map(ctx)
    idx = [k for k, c in enumerate(cases) if len(c["calls"]) <= 8][:40]
    args = [[cases[k]["seed"] % 1000, [[fm[cat[key][1]]["id"], si] for key, si in cases[k]["calls"]]] for k in idx]
    exp = ctx.run_model("entry_run", args)
    r = ctx.coq_eval_eq("Model.HistoryRunC20", "entry_run", args, exp, tag="run")
    bad = [k for k, b in zip(idx, r) if b is not True]
    if bad:
        return "vm_compute evaluation of entry_run differs from the extracted program on case %d" % bad[0], len(idx)
    return None, len(idx) + len(fns)


def shrink_candidates(case):
    calls = case["calls"]
    n = len(calls)
    if n > 1:
        for k in range(n):
            c = dict(case); c["calls"] = calls[:k] + calls[k + 1:]
            yield c
        if n > 3:
            c = dict(case); c["calls"] = calls[n // 2:]
            yield c
            c = dict(case); c["calls"] = calls[:n // 2]
            yield c
    used = set(case.get("used") or case["lay"])
    for key in case["lay"]:
        if key in used and case["lay"][key] != "C":
            c = dict(case); c["lay"] = dict(case["lay"]); c["lay"][key] = "C"
            yield c
    for key in case["dt"]:
        if key not in used:
            continue
        base = {"I": "float64", "B": "bool", "M": "bool", "L": "int32"}.get(key[0]) or ROLE_DTYPES[key[0]][0]
        if case["dt"][key] != base:
            c = dict(case); c["dt"] = dict(case["dt"]); c["dt"][key] = base
            yield c


MANIFEST = {
    "level_text": (
        "Machine-checked proof (Coq 8.16) about an executable state machine of the library's process state - lazily "
        "filled module-level tables, the global np.random generator, entropy - in which every function of the eleven "
        "modules is a step assembled from its effect signature. The signatures are regenerated from the current "
        "sources by a fail-closed Python-ast translator on every run. Proved for ALL call histories (any length, order, "
        "repetition, interleaving), argument values and function bodies: every filled table holds its constant value "
        "(cache_inv), the result of a call after any history equals its result in a fresh interpreter "
        "(history_independent), and no result depends on the incoming generator state (rng_leak_free); the premises "
        "(only constant tables cached, fills dominate reads, literal seed dominates every global draw, no entropy) are "
        "discharged by kernel computation on the generated table, and each is shown necessary by a refuting witness. "
        "The no-mutation clause has no theorem: it is decided by byte-for-byte (plus shape/strides/dtype/flags) "
        "comparison of every shared input (arrays and array-holding objects, deep) after every call of random call "
        "histories over the public functions of the eleven modules (calls synthesised from every signature plus a "
        "hand-written catalog, every optional-argument pattern) in six dtypes and five memory layouts, with each result compared exactly against the same call in a fresh "
        "interpreter; statically, the translator's list of candidate in-place writes to parameters must be empty "
        "outside the documented in-place helpers."),
    "level_note": (
        "Trusted: Coq kernel + vm_compute; the translator (taint/alias analysis with summaries, NumPy view/copy name "
        "tables, hand-written write sets of the compiled kernels) - its claim that a body sees only what the signature "
        "lists is modelled, not verified, and is what the history replay tests; extraction (ExtrOcamlBasic only) and "
        "the driver; the Python harness; fork-after-import as fresh interpreter (cross-checked against subprocesses). "
        "Mutation of caller arrays is outside the theorems (DESIGN.md section 8). Known finding F36 (also C19): the "
        "compiled convex-hull kernel reads one row past its buffer when the index list requests the largest label "
        "twice, so convex_hull / convex_hull_ijv / minimum_enclosing_circle / calculate_convex_hull_areas / "
        "calculate_solidity / zernike results then depend on the call history (garbage vertex, hang, heap corruption); "
        "not repairable here (no Cython); reported as KNOWN-FINDING, attributed by call site + repeated-largest-label "
        "predicate + a control run without the repeat, everything else stays a violation."),
    "technique": "Coq proof over generated effect signatures (translator) + exact history replay against fresh interpreters",
    "design_ref": "DESIGN.md section 7, C20; section 3.2 (gen_effects); section 8",
}
