"""C03 - label propagation is exact geodesic nearest-seed labelling.

The PrimFloat model (coq/theories/Model/Propagate.v, PropHeap.v) and the verified checker
(Spec/PropSpec.v, PropCheck.v) are evaluated ONLY inside Coq (vm_compute on generated Cases
files, sharded and run in parallel here); floats travel as IEEE-754 bit patterns.  The exact
integer stream (integer images, weight 0) additionally goes through the extracted checker
entry_check_z, whose soundness theorem has no float hypothesis at all."""
import hashlib
import json
import math
import os
import re
import struct
import subprocess
from concurrent.futures import ThreadPoolExecutor

import numpy as np

ID = "C03"
PROPS_FILE = "theories/Props/C03.v"
EXTRACT = ("theories/Extract/XC03.v", "c03", ["entry_check_z"])
PYX = {"_propagate.pyx": "*", "heap.pxd": "*"}
CASE_TIMEOUT = 60
JOBS = int(os.environ.get("VERIF_C03_JOBS", str(max(4, min(14, (os.cpu_count() or 8) - 2)))))

RULE = ("corpus first: F7 witness, hand-written edge cases, 11 targeted key-sensitive scenes (1-ulp ties found with "
        "the reference model under keys >>1 / >>2 / full), 3 malformed calls (mask None, shape mismatches: must raise); "
        "then random scenes: shapes 1x1..7x7 (80 %), ..12x12 (thorough: ..40x40), skewed to 1xN/Nx1/2x2/3x3, x images "
        "{constant, 4-level quantised, dyadic, random (half float32-representable), blocky tenths (inexact sums, the F7 "
        "class), integer (exact stream)} x seeds {none, one, adjacent different, sparse, dense, sparse numbering, "
        "boolean, values at the label dtype's maximum capped at 2^31-1, seeds outside the mask} x masks {full, random, "
        "wall, bounding box short of the top / bottom / left / right edge with a seed on that edge} x weights {0, 2^-10, "
        "1, 1000, random, negative}; every scene dressed with an image dtype (float64/32, int64/32/8, uint16/8, bool), a "
        "label dtype (int8..int64, uint8..uint32, bool), a mask dtype (bool, uint8 0/1, uint8 0/255), a layout (C, "
        "Fortran, strided view) and a weight form (float, int, np.float32, np.float64); every case is called twice in "
        "the same process with another call in between; 16 F7-class scenes; the constructed realloc case (>1000 initial "
        "rows); thin images 220x3 and 3x220 (thorough 600x3, 3x600, 60x60 queue>1000); non-trivial = at least one "
        "non-seed pixel is reached and (two different seed labels are present or >= 5 pixels are reached); distinct by "
        "hash of the case")
TRUSTED = [
    "Coq kernel primitive floats (PrimFloat add/sub/mul/sqrt/ltb/eqb, of_uint63, ldshiftexp, frshiftexp, "
    "normfr_mantissa) taken as IEEE-754 binary64 round-to-nearest-even; validated on every run against NumPy on "
    "random bit patterns (entry_fops) but not proved",
    "modelled, not verified: gcc -O2 on x86-64 emits IEEE-exact, uncontracted double arithmetic (no FMA at the "
    "baseline ISA); little-endian layout of doubles; realloc succeeds and preserves contents; the pointer array "
    "of heap.pxd is represented by the sequence of rows it points to",
    "C03_b64_add_monotone, C03_prop_check_b64_sound_closed (float addition of non-negative doubles is monotone, "
    "now proved), C03_steps_ok_finite, C03_ltb_is_bit_order, C03_dijkstra_optimal_full64 and "
    "C03_dijkstra_optimal_dropped_when_key_reflects rest on Coq's FloatAxioms add_spec, sub_spec, mul_spec, sqrt_spec, "
    "abs_spec, ltb_spec, eqb_spec, Prim2SF_valid, SF2Prim_Prim2SF, Prim2SF_SF2Prim (the kernel's "
    "primitive floats implement the IEEE-754 specification SpecFloat) and on the axioms of Coq's classical reals used "
    "by Flocq: Classical_Prop.classic, ClassicalDedekindReals.sig_forall_dec / sig_not_dec, "
    "FunctionalExtensionality.functional_extensionality_dep; Flocq 4 (round_le, Bplus_correct, Bcompare_correct) is "
    "checked by Coq, not trusted",
    "the tight-chain hint given to the checker is computed by untrusted Python; it is verified by the checker",
]
ASSUMPTIONS = [
    "labels are non-negative integers < 2^31 (larger uint32/int64 values wrap in the int32 output: candidate finding "
    "C03-L1, excluded from the generator), image values are finite, mask is boolean or uint8 with values 0/1 or 0/255 (integer masks whose non-zero values are multiples of 256, or "
    "fractional float masks, are truthy for the seed stage but wrap/truncate to 0 as int8 in the kernel: observation in "
    "reports/C03.md), weight is finite",
    "image has at least one row and one column",
]
EXHAUSTIVE = {"quick": False, "thorough": False}
# axioms behind C03_b64_add_monotone / C03_prop_check_b64_sound_closed only (every other theorem is closed
# or lists kernel primitives): Coq's specification of primitive floats and the classical real numbers that
# Flocq's rounding theory is built on
_AX = ["add_spec", "Prim2SF_valid", "SF2Prim_Prim2SF", "Prim2SF_SF2Prim", "ltb_spec", "eqb_spec",
       "sub_spec", "mul_spec", "sqrt_spec", "abs_spec",
       "sig_not_dec", "sig_forall_dec", "functional_extensionality_dep", "classic"]
ALLOWED_AXIOMS = set(_AX) | {"FloatAxioms." + a for a in _AX[:10]} | {"Coq.Floats.FloatAxioms." + a for a in _AX[:10]} | {
    "ClassicalDedekindReals.sig_not_dec", "ClassicalDedekindReals.sig_forall_dec",
    "FunctionalExtensionality.functional_extensionality_dep", "Classical_Prop.classic",
    "Coq.Reals.ClassicalDedekindReals.sig_not_dec", "Coq.Reals.ClassicalDedekindReals.sig_forall_dec",
    "Coq.Logic.FunctionalExtensionality.functional_extensionality_dep", "Coq.Logic.Classical_Prop.classic"}

NEG1 = 0xBFF0000000000000
DI = (-1, -1, -1, 0, 0, 1, 1, 1)
DJ = (-1, 0, 1, -1, 1, -1, 0, 1)


# ------------------------------------------------------------------------------- bit patterns

def f2b(x):
    return struct.unpack("<Q", struct.pack("<d", float(x)))[0]


def b2f(b):
    return struct.unpack("<d", struct.pack("<Q", int(b)))[0]


def arr_bits(a):
    return np.ascontiguousarray(a, np.float64).view(np.uint64).tolist()


def bits_arr(b):
    return np.array(b, dtype=np.uint64).view(np.float64)


def mk_case(image, labels, mask, weight, cls):
    image = np.asarray(image, np.float64)
    return {"m": int(image.shape[0]), "n": int(image.shape[1]), "image": arr_bits(image),
            "labels": np.asarray(labels).astype(int).tolist(),
            "mask": np.asarray(mask).astype(int).tolist(), "weight": f2b(weight), "cls": cls}


# ------------------------------------------------------------------------------- implementation

IMG_DTYPES = ["float64", "float32", "int64", "int32", "uint16", "uint8", "int8", "bool"]
LAB_DTYPES = ["int64", "int32", "int16", "int8", "uint32", "uint16", "uint8", "bool"]


def lab_max(dt):
    """largest label value the check uses with labels of dtype dt (the output is int32: values >= 2^31
    wrap - candidate finding C03-L1 - and are excluded)"""
    return 1 if dt == "bool" else int(min(np.iinfo(np.dtype(dt)).max, 2 ** 31 - 1))


def _build(case):
    m, n = case["m"], case["n"]
    image = bits_arr(case["image"]).reshape(m, n)
    idt = case.get("idt", "float64")
    if idt != "float64":
        conv = image.astype(idt)
        assert np.array_equal(conv.astype(np.float64), image), "generator bug: image not representable in " + idt
        image = conv
    labels = np.array(case["labels"], dtype=np.int64).reshape(m, n)
    ldt = case.get("ldt", "int64")
    if ldt != "int64":
        conv = labels.astype(ldt)
        assert np.array_equal(conv.astype(np.int64), labels), "generator bug: labels not representable in " + ldt
        labels = conv
    mask = np.array(case["mask"], dtype=bool).reshape(m, n)
    mdt = case.get("mdt", "bool")
    if mdt == "uint8":
        mask = mask.astype(np.uint8)
    elif mdt == "u255":
        mask = mask.astype(np.uint8) * 255
    lay = case.get("layout", "C")
    if lay == "F":                       # Fortran-ordered inputs
        image, labels, mask = np.asfortranarray(image), np.asfortranarray(labels), np.asfortranarray(mask)
    elif lay == "strided":               # non-contiguous views into larger arrays
        def view(a):
            big = np.zeros((a.shape[0] * 2 + 1, a.shape[1] * 3 + 2), a.dtype)
            big[1::2, 2::3][:a.shape[0], :a.shape[1]] = a
            return big[1::2, 2::3][:a.shape[0], :a.shape[1]]
        image, labels, mask = view(image), view(labels), view(mask)
    elif lay == "dtypes":                # (round 1 class) int32 labels, uint8 0/1 mask
        labels, mask = labels.astype(np.int32), mask.astype(np.uint8)
    w = b2f(case["weight"])
    wp = case.get("wpass", "float")
    if wp == "int":
        assert w == int(w); w = int(w)
    elif wp == "np32":
        assert float(np.float32(w)) == w; w = np.float32(w)
    elif wp == "np64":
        w = np.float64(w)
    return image, labels, mask, w


def impl(case):
    from centrosome.propagate import propagate
    image, labels, mask, w = _build(case)
    mal = case.get("malformed")
    if mal:                              # malformed stream: the call must be rejected by an exception
        if mal == "mask_none":
            mask = None
        elif mal == "labels_shape":
            labels = labels[:, :-1] if labels.shape[1] > 1 else np.zeros((labels.shape[0], 2), labels.dtype)
        elif mal == "mask_shape":
            mask = mask[:-1, :] if mask.shape[0] > 1 else np.zeros((2, mask.shape[1]), mask.dtype)
        try:
            propagate(image, labels, mask, w)
        except Exception as e:           # noqa
            return {"rejected": type(e).__name__}
        return {"rejected": None}
    image0, labels0, mask0 = image.copy(), labels.copy(), mask.copy()
    lo, d = propagate(image, labels, mask, w)
    ok_in = bool(np.array_equal(image0, image) and np.array_equal(labels0, labels) and np.array_equal(mask0, mask))
    # several calls in one process: another scene in between, then the same call again
    other = np.arange(6.0).reshape(2, 3)
    propagate(other, np.array([[0, 2, 0], [0, 0, 1]]), np.ones((2, 3), bool), 0.25)
    lo2, d2 = propagate(image, labels, mask, w)
    same = bool(np.array_equal(lo, lo2) and np.array_equal(np.asarray(d).view(np.uint64), np.asarray(d2).view(np.uint64)))
    return {"lo": np.asarray(lo).astype(int).tolist(), "d": arr_bits(d), "shape": list(np.asarray(lo).shape),
            "inputs_untouched": ok_in, "repeat_same": same,
            "out_dtypes": [str(np.asarray(lo).dtype), str(np.asarray(d).dtype)]}


def _bad(o):
    return (not isinstance(o, dict)) or "exc" in o or "crash" in o or "lo" not in o


def _malformed_verdict(case, o):
    """malformed stream: shape mismatches must raise ValueError, mask=None any exception"""
    if not isinstance(o, dict) or "rejected" not in o:
        return "malformed call (%s): unexpected outcome %s" % (case["malformed"], str(o)[:200])
    if o["rejected"] is None:
        return "malformed call (%s) was accepted" % case["malformed"]
    if case["malformed"] != "mask_none" and o["rejected"] != "ValueError":
        return "malformed call (%s) raised %s, not ValueError" % (case["malformed"], o["rejected"])
    return None


# ------------------------------------------------------------------------------- hint (untrusted)

def _cost(img, i1, j1, i2, j2, m, n, w):
    pd = 0.0
    for di in (-1, 0, 1):
        for dj in (-1, 0, 1):
            a = img[min(max(i1 + di, 0), m - 1)][min(max(j1 + dj, 0), n - 1)]
            b = img[min(max(i2 + di, 0), m - 1)][min(max(j2 + dj, 0), n - 1)]
            pd += (a - b) if a > b else (b - a)
    md = float(abs(i1 - i2)) + float(abs(j1 - j2))
    return math.sqrt(pd * pd + md * w * w)


def make_hint(case, out):
    """((pixel, predecessor), label) triples [vi, vj, ui, uj, label] in breadth-first order along tight
    edges (d v == d u + w(u,v)): "a path from a seed labelled `label` reaches v at cost d v".  A non-seed
    pixel is entered only with its own output label; a masked seed may be crossed by a foreign label at
    cost 0.  Only a hint: the Coq checker verifies every triple."""
    m, n = case["m"], case["n"]
    try:
        img = bits_arr(case["image"]).reshape(m, n).tolist()
        d = bits_arr(out["d"]).reshape(m, n).tolist()
        lo = out["lo"]
        lab, mask, w = case["labels"], case["mask"], b2f(case["weight"])
        R = [(i, j, lab[i][j]) for i in range(m) for j in range(n) if lab[i][j] > 0 and mask[i][j]]
        seen = set(R)
        hint = []
        k = 0
        while k < len(R):
            i1, j1, l = R[k]; k += 1
            for t in range(8):
                i2, j2 = i1 + DI[t], j1 + DJ[t]
                if i2 < 0 or i2 >= m or j2 < 0 or j2 >= n or (i2, j2, l) in seen:
                    continue
                if not mask[i2][j2] or lab[i2][j2] < 0 or d[i2][j2] == -1.0:
                    continue
                if lab[i2][j2] == 0 and lo[i2][j2] != l:
                    continue
                if d[i2][j2] == d[i1][j1] + _cost(img, i1, j1, i2, j2, m, n, w):
                    seen.add((i2, j2, l)); R.append((i2, j2, l)); hint.append([i2, j2, i1, j1, l])
        return hint
    except Exception:
        return []


# ------------------------------------------------------------------------------- Coq evaluation

def _sx(v):
    if isinstance(v, (list, tuple)):
        return "L [" + "; ".join(_sx(x) for x in v) + "]"
    v = int(v)
    return "I %d" % v if v >= 0 else "I (%d)" % v


def coq_eval(ctx, module, entry, args, tag, weights=None, timeout=1500, min_w=60.0):
    """Evaluate [as_Zs (entry arg)] by vm_compute for every arg; shards of bounded size run in
    parallel.  Returns a list of int lists (None where the Coq run failed)."""
    from harness import core
    n = len(args)
    res = [None] * n
    if n == 0:
        return res
    weights = weights or [1] * n
    order = sorted(range(n), key=lambda k: -weights[k])
    total = float(sum(weights)) or 1.0
    nshards = max(1, min(n, JOBS * 2, int(total / min_w) + 1))
    nshards = max(nshards, (n + 199) // 200)
    budget = total / nshards
    shards, cur, acc = [], [], 0.0
    for k in order:
        cur.append(k); acc += weights[k]
        if acc >= budget or len(cur) >= 200:
            shards.append(cur); cur, acc = [], 0.0
    if cur:
        shards.append(cur)
    theories = os.path.join(core.COQ, "theories")

    def run(si):
        idx = shards[si]
        name = "Cases_%s_%s_%d_%d" % (ID, tag, os.getpid(), si)
        path = os.path.join(ctx.scratch, name + ".v")
        with open(path, "w") as f:
            f.write("From Coq Require Import ZArith List Bool.\nFrom Centro Require Import Base.Sx %s.\n"
                    "Import ListNotations.\nOpen Scope Z_scope.\nDefinition cases : list sx := [\n" % module)
            f.write(";\n".join(_sx(args[k]) for k in idx))
            f.write("].\nDefinition res := map (fun c => as_Zs (%s c)) cases.\nEval vm_compute in res.\n" % entry)
        r = subprocess.run(["bash", "-c", "ulimit -s unlimited 2>/dev/null; exec timeout %d coqc -R %s Centro -o %s %s" % (
            timeout, theories, path[:-2] + ".vo", path)], capture_output=True, text=True)
        if r.returncode != 0:
            return si, None, (r.stderr or r.stdout)[-600:]
        body = r.stdout.split("=", 1)[1] if "=" in r.stdout else ""
        body = body.rsplit(":", 1)[0]
        try:
            val = json.loads(re.sub(r"\s+", " ", body).replace(";", ",").replace("(", "").replace(")", ""))
        except Exception as e:
            return si, None, "unparsable coq output: %s %s" % (e, body[:200])
        if len(val) != len(idx):
            return si, None, "%d results for %d cases" % (len(val), len(idx))
        return si, val, None

    with ThreadPoolExecutor(max_workers=JOBS) as ex:
        for si, val, err in ex.map(run, range(len(shards))):
            if err:
                ctx.note("coq_eval(%s) shard failed: %s" % (entry, err))
                continue
            for k, v in zip(shards[si], val):
                res[k] = v
    ctx.coq_evals += n
    return res


def _arg(case, key=0):
    return [case["m"], case["n"], case["image"], case["labels"], case["mask"], case["weight"], key]


def _key(case, out):
    return hashlib.sha1(json.dumps([case, out], sort_keys=True).encode()).hexdigest()


def _cache(ctx):
    if not hasattr(ctx, "_c03"):
        ctx._c03 = {}
    return ctx._c03


def _is_exact(case):
    """integer image, weight 0: every float operation of the code is exact, cost = D"""
    if case["weight"] not in (0, 0x8000000000000000):
        return False
    a = bits_arr(case["image"])
    return bool(np.all(np.isfinite(a)) and np.all(a == np.floor(a)) and np.all(np.abs(a) < 2 ** 20))


def _key_reflects(case):
    """weight 0 and image values multiples of 2^-10 below 2^20: every path cost of at most m*n steps is a multiple of
    2^-10 below 2^52*2^-10, its dropped mantissa bit is 0 (hypothesis of C03_dijkstra_optimal_dropped_when_key_reflects)"""
    if case["weight"] not in (0, 0x8000000000000000):
        return False
    a = bits_arr(case["image"]) * 1024.0
    return bool(np.all(np.isfinite(a)) and np.all(a == np.floor(a)) and np.all(np.abs(a) < 2 ** 30))


def _well_formed(case, out):
    m, n = case["m"], case["n"]
    return (not _bad(out) and out.get("shape") == [m, n] and len(out["lo"]) == m and len(out["d"]) == m
            and all(len(r) == n for r in out["lo"]) and all(len(r) == n for r in out["d"]))


def evaluate_cases(ctx, cases, outs):
    """[same_as_Dropped_model, prop_check_b64, prop_check_Z or None] per case (cached)."""
    cache = _cache(ctx)
    todo = []
    for k, (c, o) in enumerate(zip(cases, outs)):
        if _well_formed(c, o) and _key(c, o) not in cache:
            todo.append(k)
    if todo:
        args = [_arg(cases[k]) + [outs[k]["lo"], outs[k]["d"], make_hint(cases[k], outs[k])] for k in todo]
        wts = [(cases[k]["m"] * cases[k]["n"]) ** 1.5 + 5 for k in todo]
        r = coq_eval(ctx, "Spec.PropCheck", "entry_eval", args, "ev", wts, min_w=4000.0)
        zi = [k for k in todo if _is_exact(cases[k])]
        zres = {}
        if zi:
            zargs = []
            for k in zi:
                c, o = cases[k], outs[k]
                img = bits_arr(c["image"]).reshape(c["m"], c["n"])
                d = bits_arr(o["d"]).reshape(c["m"], c["n"])
                if not (np.all(np.isfinite(d)) and np.all(d == np.floor(d))):
                    zres[k] = 0      # an exact input must give integral distances
                    zargs.append(None)
                    continue
                zargs.append([c["m"], c["n"], img.astype(np.int64).tolist(), c["labels"], c["mask"], o["lo"],
                              d.astype(np.int64).tolist(), make_hint(c, o)])
            live = [(k, a) for k, a in zip(zi, zargs) if a is not None]
            if live:
                for (k, _), v in zip(live, ctx.run_model("entry_check_z", [a for _, a in live])):
                    zres[k] = v if isinstance(v, int) else 0
        for k, v in zip(todo, r):
            cache[_key(cases[k], outs[k])] = None if v is None else [v[0], v[1], zres.get(k)]
        # attribution data for the failures of this batch, in one parallel run: does the Full64-key
        # model pass prop_check on the inputs where the implementation equals the Dropped-key model?
        fi = [k for k, v in zip(todo, r) if v is not None and v[0] == 1 and v[1] != 1
              and "full64:" + _key(cases[k], None) not in cache]
        if fi:
            fr = coq_eval(ctx, "Spec.PropCheck", "entry_model_passes", [_arg(cases[k], 1) for k in fi], "attr",
                          [(cases[k]["m"] * cases[k]["n"]) ** 2 for k in fi], min_w=2000.0)
            for k, v in zip(fi, fr):
                cache["full64:" + _key(cases[k], None)] = v
    return [cache.get(_key(c, o)) if _well_formed(c, o) else None for c, o in zip(cases, outs)]


def model(ctx, cases, outs):
    return evaluate_cases(ctx, cases, outs)


def compare(case, out, mout):
    if case.get("malformed"):
        return _malformed_verdict(case, out)
    if _bad(out):
        return "implementation raised/crashed: %s" % (str(out)[:300],)
    if not _well_formed(case, out):
        return "output arrays have the wrong shape: %s" % (out.get("shape"),)
    if mout is None:
        return "the Coq evaluation of the model failed on this case"
    if mout[0] != 1:
        return "labels/distances differ bit-wise from Model.Propagate (key=Dropped)"
    return None


def check(ctx, cases, outs):
    ev = evaluate_cases(ctx, cases, outs)
    res = []
    for c, o, e in zip(cases, outs, ev):
        if c.get("malformed"):
            res.append(_malformed_verdict(c, o))
        elif _bad(o):
            res.append("implementation raised/crashed on a valid input: %s" % (str(o)[:300],))
        elif not _well_formed(c, o):
            res.append("output arrays have the wrong shape")
        elif not o.get("inputs_untouched", True):
            res.append("propagate modified one of its input arrays")
        elif not o.get("repeat_same", True):
            res.append("the same call repeated in the same process (another call in between) gave a different result")
        elif o.get("out_dtypes", ["int32", "float64"]) != ["int32", "float64"]:
            res.append("output dtypes are %s, not int32/float64" % (o.get("out_dtypes"),))
        elif e is None:
            res.append(None)     # Coq run failed: reported through compare() as a broken correspondence
        elif e[1] != 1:
            res.append("Spec.PropCheck.prop_check_b64 false: a seed lost its label/distance 0, or a reported distance "
                       "is not the minimal path cost with a matching label, or a pixel outside the mask/unreachable "
                       "is not (0, -1)")
        elif e[2] is not None and e[2] != 1:
            res.append("extracted Spec.PropCheck.prop_check_Z false on an exact (integer image, weight 0) input")
        else:
            res.append(None)
    return res


def nontrivial(case, out):
    if _bad(out):
        return False
    lab = np.array(case["labels"]); lo = np.array(out["lo"])
    reached = int(np.sum((lab == 0) & (lo > 0)))
    return reached >= 1 and (len(set(lab[lab > 0].tolist())) >= 2 or reached >= 5)


# ------------------------------------------------------------------------------- findings

def attribute(ctx, case, out, clause):
    """F7 iff the implementation equals the Dropped model bit for bit and the Full64 model passes
    prop_check on this input (hint computed inside Coq)."""
    if not _well_formed(case, out) or "prop_check" not in (clause or ""):
        return None
    if _key_reflects(case):
        # C03_dijkstra_optimal_dropped_when_key_reflects: weight 0, image in multiples of 2^-10, path sums far below 2^42 -
        # every occurring distance has dropped bit 0, the loop as written is optimal: F7 cannot be the cause
        return None
    e = evaluate_cases(ctx, [case], [out])[0]
    if e is None or e[0] != 1 or e[1] == 1:
        return None
    cache = _cache(ctx)
    k = "full64:" + _key(case, None)
    if k not in cache:
        r = coq_eval(ctx, "Spec.PropCheck", "entry_model_passes", [_arg(case, 1)], "attr")[0]
        cache[k] = r
    r = cache[k]
    return "F7" if (r is not None and r == [1]) else None


def reproduce_finding(ctx, finding):
    case = finding.get("witness")
    if not case:
        return False
    out = ctx.run_impl([case])[0]
    v = check(ctx, [case], [out])[0]
    return bool(v) and attribute(ctx, case, out, v) == finding["id"]


# ------------------------------------------------------------------------------- generators

def _shape(rng, mx):
    u = rng.rand()
    if u < 0.06:
        return 1, 1
    if u < 0.14:
        return (1, int(rng.randint(2, mx + 1))) if rng.rand() < 0.5 else (int(rng.randint(2, mx + 1)), 1)
    if u < 0.22:
        return (2, 2) if rng.rand() < 0.5 else (3, 3)
    return int(rng.randint(2, mx + 1)), int(rng.randint(2, mx + 1))


def _image(rng, m, n, kind):
    if kind == "const":
        return np.ones((m, n)) * float(rng.choice([0.0, 0.5, 3.0]))
    if kind == "quant":
        return rng.randint(0, 4, (m, n)) / 4.0
    if kind == "dyadic":
        return rng.randint(0, 1024, (m, n)) / 1024.0
    if kind == "rand":
        return rng.rand(m, n) if rng.rand() < 0.5 else rng.rand(m, n).astype(np.float32).astype(np.float64)
    if kind == "int":
        return rng.randint(0, int(rng.choice([2, 4, 50])), (m, n)).astype(float)
    if kind == "slope":
        # iso-lines along one diagonal: steps along it cost (almost) nothing in D, orthogonal steps do
        ii, jj = np.meshgrid(np.arange(m), np.arange(n), indexing="ij")
        c = float(rng.choice([0.125, 0.25, 1.0, 3.0]))
        img = c * ((ii + jj) if rng.rand() < 0.5 else np.abs(ii - jj)).astype(float)
        if rng.rand() < 0.5:
            img = img + rng.randint(0, 3, (m, n)) / 8.0
        return img
    if kind == "tenths":
        return rng.randint(0, 60, (m, n)) / 10.0
    # blocky tenths: many equal, inexactly summed costs (the F7 class)
    b = rng.randint(0, 3, ((m + 2) // 3, (n + 2) // 3)) * float(rng.choice([0.1, 0.3, 1 / 3.0, 0.7]))
    img = np.repeat(np.repeat(b, 3, 0), 3, 1)[:m, :n].copy()
    if rng.rand() < 0.5:
        k = rng.rand(m, n) < 0.15
        img[k] = img[k] / 2
    return img


def _labels(rng, m, n, kind):
    lab = np.zeros((m, n), int)
    if kind == "none":
        return lab
    if kind == "one":
        lab[rng.randint(m), rng.randint(n)] = int(rng.randint(1, 5))
    elif kind == "adjacent":
        i, j = rng.randint(m), rng.randint(n)
        lab[i, j] = 2
        lab[min(i + 1, m - 1), min(j + int(rng.randint(0, 2)), n - 1)] = 1 if rng.rand() < 0.8 else 2
        if rng.rand() < 0.5:
            lab[rng.randint(m), rng.randint(n)] = 3
    elif kind == "sparse":
        lab = (rng.rand(m, n) < 0.08) * rng.randint(1, 4, (m, n))
        if not lab.any():
            lab[rng.randint(m), rng.randint(n)] = 1
    elif kind == "dense":
        lab = (rng.rand(m, n) < 0.45) * rng.randint(1, 6, (m, n))
    elif kind == "objects":
        lab = _objects(rng, m, n)
    elif kind == "numbering":           # sparse numbering: few objects, label numbers far apart
        lab = (rng.rand(m, n) < 0.12) * rng.choice([3, 17, 100, 101, 1000], size=(m, n))
        if not lab.any():
            lab[rng.randint(m), rng.randint(n)] = 17
    return lab


SHAPES = {
    "plus": [(0, 0), (-1, 0), (1, 0), (0, -1), (0, 1)],
    "bigplus": [(0, 0), (-1, 0), (1, 0), (0, -1), (0, 1), (-2, 0), (2, 0), (0, -2), (0, 2)],
    "L": [(0, 0), (1, 0), (2, 0), (2, 1)],
    "T": [(0, 0), (0, 1), (0, 2), (1, 1), (2, 1)],
    "diag": [(0, 0), (1, 1), (2, 2)],
    "antidiag": [(0, 2), (1, 1), (2, 0)],
    "ring": [(0, 0), (0, 1), (0, 2), (1, 0), (1, 2), (2, 0), (2, 1), (2, 2)],
    "block": [(0, 0), (0, 1), (1, 0), (1, 1)],
    "block3": [(i, j) for i in range(3) for j in range(3)],
    "hole4": [(i, j) for i in range(4) for j in range(4) if (i, j) not in ((1, 1), (2, 2))],
    "zig": [(0, 0), (0, 1), (1, 1), (1, 2), (2, 2)],
}


def _objects(rng, m, n):
    """multi-pixel seed OBJECTS of varied shapes (plus, L, T, diagonal chains, rings, seeds with holes, noise blobs,
    two different seeds with interlocking shapes): pixels enclosed by their own object but with a non-seed
    diagonal neighbour, concave corners, etc."""
    lab = np.zeros((m, n), int)

    def put(cells, oi, oj, l):
        for di, dj in cells:
            i, j = oi + di, oj + dj
            if 0 <= i < m and 0 <= j < n:
                lab[i, j] = l
    k = int(rng.choice([1, 1, 2, 3]))
    names = sorted(SHAPES)
    for o in range(k):
        u = rng.rand()
        oi, oj = int(rng.randint(0, max(1, m - 2))), int(rng.randint(0, max(1, n - 2)))
        l = int(rng.randint(1, 4))
        if u < 0.62:
            cells = SHAPES[names[rng.randint(len(names))]]
            if rng.rand() < 0.3:
                cells = [(b, a) for a, b in cells]
            put(cells, oi + (2 if min(a for a, _ in cells) < 0 else 0), oj + (2 if min(b for _, b in cells) < 0 else 0), l)
        elif u < 0.82:                      # blob: thresholded smoothed noise
            z = rng.rand(m + 2, n + 2)
            z = (z[:-2, :-2] + z[1:-1, 1:-1] + z[2:, 2:] + z[1:-1, :-2] + z[:-2, 1:-1]) / 5.0
            lab[(z > np.percentile(z, 78)) & (lab == 0)] = l
        else:                               # two different seeds with interlocking L shapes
            put(SHAPES["L"], oi, oj, l)
            put([(0, 1), (1, 1), (0, 2)], oi, oj, l % 3 + 1)
    if not lab.any():
        put(SHAPES["plus"], m // 2, n // 2, 1)
    return lab


def _mask(rng, m, n, kind):
    if kind == "full":
        return np.ones((m, n), bool)
    if kind == "random":
        return rng.rand(m, n) < float(rng.choice([0.5, 0.75, 0.9]))
    if kind.startswith("bbox:"):        # bounding box of the mask stops short of ONE image edge
        mk = np.ones((m, n), bool)
        side = kind[5:]
        k = 1 if rng.rand() < 0.7 else 2
        if side == "top":
            mk[:min(k, m - 1), :] = False
        elif side == "bottom":
            mk[max(m - k, 1):, :] = False
        elif side == "left":
            mk[:, :min(k, n - 1)] = False
        else:
            mk[:, max(n - k, 1):] = False
        if rng.rand() < 0.25:
            mk &= rng.rand(m, n) < 0.92
        return mk
    mk = np.ones((m, n), bool)      # wall: disconnected mask
    if rng.rand() < 0.5:
        mk[rng.randint(m), :] = False
    else:
        mk[:, rng.randint(n)] = False
    if rng.rand() < 0.3:
        mk &= rng.rand(m, n) < 0.9
    return mk


def _dress(rng, c, img_kind):
    """dtype / layout / argument-form variants of one scene (the scene itself, i.e. the float64 values,
    label numbers and mask truth values seen by the kernel, is unchanged)"""
    img = bits_arr(c["image"])
    cand = ["float64"]
    if np.array_equal(img.astype(np.float32).astype(np.float64), img):
        cand.append("float32")
    if np.all(img == np.floor(img)):
        for dt in ("int64", "int32", "uint16", "uint8", "int8"):
            ii = np.iinfo(dt)
            if img.min() >= ii.min and img.max() <= ii.max:
                cand.append(dt)
        if img.min() >= 0 and img.max() <= 1:
            cand.append("bool")
    c["idt"] = str(rng.choice(cand)) if rng.rand() < 0.6 else "float64"
    lab = np.array(c["labels"])
    if rng.rand() < 0.08 and lab.max() > 0:      # boolean label image: one object class
        lab = (lab > 0).astype(int)
        c["labels"] = lab.tolist()
    ldts = [dt for dt in LAB_DTYPES if lab.max() <= lab_max(dt)]
    if lab.max() == 1 and rng.rand() < 0.6:
        ldts = ["bool"]
    c["ldt"] = str(rng.choice(ldts)) if rng.rand() < 0.7 else "int64"
    if rng.rand() < 0.35 and lab.max() > 0 and c["ldt"] != "bool":
        # label values near the dtype maximum (capped at 2^31-1): renumber the largest label
        top = lab_max(c["ldt"]) - int(rng.randint(0, 2))
        if top > lab.max():
            lab = np.where(lab == lab.max(), top, lab)
            c["labels"] = lab.astype(int).tolist()
    c["mdt"] = str(rng.choice(["bool", "bool", "uint8", "u255"]))
    c["layout"] = str(rng.choice(["C", "C", "C", "F", "strided"]))
    w = b2f(c["weight"])
    forms = ["float", "np64"]
    if w == int(w):
        forms.append("int")
    if float(np.float32(w)) == w:
        forms.append("np32")
    c["wpass"] = str(rng.choice(forms))
    return c


def _random_case(rng, mx, force=None):
    m, n = _shape(rng, mx)
    ik = str(rng.choice(["const", "quant", "dyadic", "rand", "int", "blocky", "blocky", "slope", "tenths"]))
    lk = str(rng.choice(["none", "one", "adjacent", "sparse", "dense", "numbering", "objects"], p=[.04, .15, .15, .2, .1, .08, .28]))
    if force and "labels" in force:
        lk = force["labels"]
    if lk == "objects":
        m, n = max(m, int(rng.randint(5, 9))), max(n, int(rng.randint(5, 9)))
        ik = str(rng.choice(["slope", "slope", "tenths", "rand", "quant", "int", "dyadic"]))
    mk = str(rng.choice(["full", "random", "wall", "bbox:top", "bbox:bottom", "bbox:left", "bbox:right"],
                        p=[.3, .26, .16, .07, .07, .07, .07]))
    w = [0.0, 2.0 ** -10, 1.0, 1000.0, float(rng.rand() * 3), -1.0, -0.375, 0.05][rng.choice(8, p=[.2, .13, .2, .1, .19, .05, .05, .08])]
    if ik == "int" or (ik == "blocky" and rng.rand() < 0.7):
        w = 0.0
    if force:
        ik = force.get("image", ik); w = force.get("weight", w); lk = force.get("labels", lk); mk = force.get("mask", mk)
    lab = _labels(rng, m, n, lk)
    msk = _mask(rng, m, n, mk)
    if mk.startswith("bbox:") and not msk.any():
        mk = "full"; msk = np.ones((m, n), bool)
    if mk.startswith("bbox:"):
        # a seeded component that touches the edge of the bounding box, image not constant there
        ii, jj = np.nonzero(msk)
        side = mk[5:]
        pick = {"top": ii == ii.min(), "bottom": ii == ii.max(), "left": jj == jj.min(), "right": jj == jj.max()}[side]
        k = int(rng.choice(np.nonzero(pick)[0]))
        lab[ii[k], jj[k]] = int(rng.randint(1, 4))
        if ik == "const":
            ik = "rand"
    if lk != "none" and rng.rand() < 0.15:
        # seeds outside the mask: unmask some seed pixels (they keep label and distance 0, do not spread)
        si, sj = np.nonzero(lab)
        for k in range(len(si)):
            if rng.rand() < 0.5:
                msk[si[k], sj[k]] = False
    c = mk_case(_image(rng, m, n, ik), lab, msk, w, "%s/%s/%s/w%s" % (ik, lk, mk.replace(":", "-"), "0" if w == 0 else "-" if w < 0 else "+"))
    return _dress(rng, c, ik)


def _thin_case(rng, m, n):
    lab = np.zeros((m, n), int)
    lab[0, 0] = 1; lab[m - 1, n - 1] = 2; lab[m // 2, n // 2] = 3
    c = mk_case(rng.randint(0, 8, (m, n)) / 8.0, lab, rng.rand(m, n) < 0.95, 0.5, "thin")
    return c


def _malformed_cases():
    base = mk_case(np.arange(6.0).reshape(2, 3), [[1, 0, 0], [0, 0, 2]], np.ones((2, 3)), 1.0, "malformed")
    res = []
    for kind in ("mask_none", "labels_shape", "mask_shape"):
        c = json.loads(json.dumps(base)); c["malformed"] = kind
        res.append(c)
    return res


def _grow_case(rng=None):
    """More than 1000 initial queue rows (heap.space = items), so the queue reallocates at the second
    push after the first pop, while it holds rows with different keys in permuted slots.  Pixel (0,0)
    is pushed first from seed (0,1) (expensive step across the column gradient) and later reached
    cheaply from seed (1,0): a reallocation that loses the pointer permutation pops it too early.
    Deterministic (fixed generator): it is a constructed corpus case."""
    r = np.random.RandomState(20260301)
    m = n = 38
    lab = r.randint(1, 9, (m, n))
    lab[r.rand(m, n) < 0.22] = 0
    lab[0, 0], lab[0, 1], lab[1, 0], lab[1, 1] = 0, 1, 2, 3
    img = np.tile(np.arange(n, dtype=float), (m, 1))
    img[4:, :] += r.randint(0, 8, (m - 4, n)) / 8.0
    return mk_case(img, lab, np.ones((m, n), bool), 0.5, "grow")


def _corpus():
    cases = []
    here = os.path.dirname(os.path.dirname(os.path.dirname(os.path.abspath(__file__))))
    p = os.path.join(here, "corpus", "finding_witnesses.json")
    if os.path.exists(p):
        with open(p) as f:
            w = json.load(f).get("F7")
        if w:
            a = w["args"]
            img = [[float.fromhex(x) for x in r] for r in a["image"]]
            cases.append(mk_case(img, a["labels"], a["mask"], a["weight"], "corpus:F7"))
    d = os.path.join(here, "corpus", "C03")
    if os.path.isdir(d):
        for name in sorted(os.listdir(d)):
            if name.endswith(".json"):
                with open(os.path.join(d, name)) as f:
                    c = json.load(f)
                cases.extend(c if isinstance(c, list) else [c.get("case", c)])
    one = np.ones((1, 1))
    cases.append(mk_case(one, [[0]], [[1]], 1.0, "edge:1x1-noseed"))
    cases.append(mk_case(one, [[3]], [[1]], 1.0, "edge:1x1-seed"))
    cases.append(mk_case(one, [[3]], [[0]], 1.0, "edge:1x1-seed-unmasked"))
    cases.append(mk_case(np.zeros((3, 3)), [[1, 0, 0], [0, 0, 0], [0, 0, 2]], np.ones((3, 3)), 0.0, "edge:all-ties"))
    cases.append(mk_case(np.zeros((3, 3)), [[2, 0, 0], [0, 0, 0], [0, 0, 1]], np.ones((3, 3)), 1.0, "edge:tie-labels"))
    cases.append(mk_case(np.arange(12.0).reshape(3, 4), [[0, 0, 0, 5], [0, 0, 0, 0], [4, 0, 0, 0]],
                         [[1, 1, 0, 1], [1, 1, 0, 1], [1, 1, 0, 1]], 2.0, "edge:wall"))
    cases.append(mk_case(np.arange(12.0).reshape(3, 4), [[0, 0, 0, 5], [0, 0, 0, 0], [4, 0, 0, 0]],
                         [[1, 1, 1, 0], [1, 1, 1, 1], [0, 1, 1, 1]], 0.0, "edge:seeds-outside-mask"))
    cases.append(mk_case(np.ones((2, 5)) * 0.1, [[1, 0, 0, 0, 0], [0, 0, 0, 0, 2]], np.ones((2, 5)), 0.1, "edge:inexact"))
    ii, jj = np.meshgrid(np.arange(5), np.arange(5), indexing="ij")
    plus = np.zeros((5, 5), int)
    for di, dj in SHAPES["plus"]:
        plus[2 + di, 2 + dj] = 1
    for w in (0.0, 0.05, 1.0):          # seed object = plus; diagonal steps from its centre are the cheapest
        cases.append(mk_case(np.abs(ii - jj) * 1.0, plus, np.ones((5, 5)), w, "edge:plus-seed-diagonal"))
        cases.append(mk_case((ii + jj) * 0.5, plus, np.ones((5, 5)), w, "edge:plus-seed-antidiagonal"))
    return cases


def generate(ctx):
    rng = ctx.rng
    cases = _corpus() + _malformed_cases()
    for _ in range(ctx.n(300, 1500)):
        u = rng.rand()
        mx = 7 if u < 0.8 else 12 if (ctx.quick() or u < 0.93) else 40
        cases.append(_random_case(rng, mx))
    for _ in range(ctx.n(16, 700)):     # the F7 class: weight 0, inexact equal sums, two seeds
        m, n = int(rng.randint(4, 9)), int(rng.randint(4, 9))
        cases.append(mk_case(_image(rng, m, n, "blocky"), _labels(rng, m, n, "adjacent"), np.ones((m, n), bool), 0.0, "f7class"))
    cases.append(_grow_case(rng))
    tl = ctx.n(220, 600)                # thin long images (one coordinate far larger than the other)
    cases.append(_thin_case(rng, tl, 3))
    cases.append(_thin_case(rng, 3, tl))
    if not ctx.quick():
        m = n = 60
        lab = np.zeros((m, n), int); lab[30, 30] = 1; lab[5, 50] = 2
        cases.append(mk_case(rng.rand(m, n), lab, np.ones((m, n), bool), 0.01, "queue>1000"))
    for c in cases:
        ctx.count("layout:" + c.get("layout", "C"))
        ctx.count("image-dtype:" + c.get("idt", "float64"))
        ctx.count("labels-dtype:" + c.get("ldt", "int64"))
        ctx.count("mask-dtype:" + c.get("mdt", "bool"))
        ctx.count("weight-as:" + c.get("wpass", "float"))
        if any("bbox-" + s in c["cls"] for s in ("top", "bottom", "left", "right")):
            ctx.count("mask-bbox-short-of:" + c["cls"].split("bbox-")[1].split("/")[0])
        if np.any((np.array(c["labels"]) > 0) & (np.array(c["mask"]) == 0)):
            ctx.count("has-seed-outside-mask")
        ctx.count(c["cls"].split("/")[0] if not c["cls"].startswith(("edge", "corpus")) else "corpus")
        ctx.count("shape:%s" % ("1x1" if c["m"] * c["n"] == 1 else "line" if min(c["m"], c["n"]) == 1 else
                                "<=5" if max(c["m"], c["n"]) <= 5 else "<=10" if max(c["m"], c["n"]) <= 10 else ">10"))
    return cases


def search_cases(ctx, rnd):
    rng = ctx.rng
    cases = [_random_case(rng, 8) for _ in range(120)]
    for _ in range(120):                # seed objects with decisive diagonals at several weights
        cases.append(_random_case(rng, 8, force={"labels": "objects", "image": str(rng.choice(["slope", "tenths", "rand"])),
                                                 "weight": float(rng.choice([0.0, 0.05, 1.0])), "mask": "full"}))
    for _ in range(100):
        m, n = int(rng.randint(3, 8)), int(rng.randint(3, 8))
        cases.append(mk_case(_image(rng, m, n, "int"), _labels(rng, m, n, "adjacent"), _mask(rng, m, n, "full"), 0.0, "search:int"))
    return cases


def shrink_candidates(case):
    m, n = case["m"], case["n"]

    def sub(rows, cols):
        return {"m": len(rows), "n": len(cols), "weight": case["weight"], "cls": case["cls"],
                "layout": case.get("layout", "C"), "idt": case.get("idt", "float64"), "ldt": case.get("ldt", "int64"),
                "mdt": case.get("mdt", "bool"), "wpass": case.get("wpass", "float"),
                "image": [[case["image"][i][j] for j in cols] for i in rows],
                "labels": [[case["labels"][i][j] for j in cols] for i in rows],
                "mask": [[case["mask"][i][j] for j in cols] for i in rows]}
    big = m * n > 150       # every candidate costs a Coq evaluation: only halve large cases
    if m > 1:
        yield sub(list(range(m // 2)), list(range(n)))
        yield sub(list(range(m // 2, m)), list(range(n)))
        if not big:
            for i in (0, m - 1):
                yield sub([r for r in range(m) if r != i], list(range(n)))
    if n > 1:
        yield sub(list(range(m)), list(range(n // 2)))
        yield sub(list(range(m)), list(range(n // 2, n)))
        if not big:
            for j in (0, n - 1):
                yield sub(list(range(m)), [c for c in range(n) if c != j])
    if big:
        return
    seeds = [(i, j) for i in range(m) for j in range(n) if case["labels"][i][j] != 0]
    if len(seeds) > 1:
        for i, j in seeds[:12]:
            c = json.loads(json.dumps(case)); c["labels"][i][j] = 0
            yield c
    if any(0 in r for r in case["mask"]):
        c = json.loads(json.dumps(case)); c["mask"] = [[1] * n for _ in range(m)]
        yield c
    vals = sorted({v for r in case["image"] for v in r})
    if len(vals) > 1:
        for v in vals[:6]:
            c = json.loads(json.dumps(case)); c["image"] = [[vals[0] if x == v else x for x in r] for r in case["image"]]
            if c["image"] != case["image"]:
                yield c


# ------------------------------------------------------------------------------- kernel cross-check

def kernel_crosscheck(ctx, cases, outs):
    """(1) the bits<->PrimFloat conversion and the primitive operations against NumPy/struct on
    random and special bit patterns; (2) the extracted integer checker against vm_compute."""
    rng = np.random.RandomState(ctx.seed + 77)
    special = [0, 1, 2, 0x000FFFFFFFFFFFFF, 0x0010000000000000, 0x3FF0000000000000, 0x3FF0000000000001,
               0x3FEFFFFFFFFFFFFF, 0x7FEFFFFFFFFFFFFF, 0x7FF0000000000000, 0x8000000000000000, NEG1,
               0x3FB999999999999A, 0x3FF8000000000001, 0x4340000000000000, 0x433FFFFFFFFFFFFF]
    pats = [(a, b) for a in special for b in special[:8]]
    for _ in range(120):
        a = int(rng.randint(0, 2 ** 62)) * 4 + int(rng.randint(0, 4))
        b = int(rng.randint(0, 2 ** 62)) * 4 + int(rng.randint(0, 4))
        if rng.rand() < 0.5:                       # same binade: cancellation, ties
            b = (a & ~0xFFFFF) | int(rng.randint(0, 2 ** 20))
        pats.append((a & 0xFFFFFFFFFFFFFFFF, b & 0xFFFFFFFFFFFFFFFF))
    pats = [(a, b) for a, b in pats if not (math.isnan(b2f(a)) or math.isnan(b2f(b)))]
    exp = []
    with np.errstate(all="ignore"):
        for a, b in pats:
            x, y = np.float64(b2f(a)), np.float64(b2f(b))
            vals = [x, x + y, x - y, x * y, np.sqrt(x)]
            e = [0x7FF8000000000000 if np.isnan(v) else f2b(v) for v in vals] + [1 if x < y else 0]
            exp.append(e)
    tri = []
    for _ in range(150):
        a = int(rng.randint(0, 2 ** 62)) % 0x7FF0000000000000
        b = a + int(rng.choice([0, 1, 2, 3, int(rng.randint(0, 2 ** 40))]))
        c = int(rng.randint(0, 2 ** 62)) % 0x7FF0000000000000
        if rng.rand() < 0.6:          # comparable magnitudes, so that the addition rounds
            c = (a & ~((1 << 54) - 1)) | int(rng.randint(0, 2 ** 54))
        tri.append([a, min(b, 0x7FF0000000000000), min(c, 0x7FF0000000000000)])
    with ThreadPoolExecutor(max_workers=2) as ex:
        f1 = ex.submit(coq_eval, ctx, "Model.Propagate", "entry_fops", [[a, b] for a, b in pats], "fops")
        f2 = ex.submit(coq_eval, ctx, "Spec.PropCheck", "entry_mono", tri, "mono")
        got, mono = f1.result(), f2.result()
    n = len(pats)
    for (a, b), e, g in zip(pats, exp, got):
        if g != e:
            return "PrimFloat/bit-pattern validation differs from NumPy on (%#x, %#x): coq %s numpy %s" % (a, b, g, e), n
        # on non-negative doubles the integer order of the bit patterns is the float order (used by the
        # binary64 instance of the checker and by key_monotone)
        if a < 2 ** 63 and b < 2 ** 63 and g[5] != (1 if a < b else 0):
            return "bit-pattern order differs from PrimFloat.ltb on (%#x, %#x)" % (a, b), n
    # plus64 monotone (now a theorem, C03_b64_add_monotone) re-evaluated on random triples as a sanity check
    for t3, g in zip(tri, mono):
        if g != [1, 1]:
            return "premise b64_add_monotone falsified (or Coq run failed) on %s: %s" % ([hex(x) for x in t3], g), n
    n += len(tri)
    zi = [k for k, c in enumerate(cases) if _well_formed(c, outs[k]) and _is_exact(c) and c["m"] * c["n"] <= 36][:40]
    if zi:
        args, exps = [], []
        for k in zi:
            c, o = cases[k], outs[k]
            d = bits_arr(o["d"]).reshape(c["m"], c["n"])
            if not np.all(d == np.floor(d)):
                continue
            a = [c["m"], c["n"], bits_arr(c["image"]).reshape(c["m"], c["n"]).astype(np.int64).tolist(), c["labels"],
                 c["mask"], o["lo"], d.astype(np.int64).tolist(), make_hint(c, o)]
            args.append(a)
        ex = ctx.run_model("entry_check_z", args)
        r = ctx.coq_eval_eq("Spec.PropCheck", "entry_check_z", args, ex, tag="z")
        if any(b is not True for b in r):
            return "vm_compute evaluation of entry_check_z differs from the extracted program", n + len(args)
        n += len(args)
    return None, n


MANIFEST = {
    "level_text": (
        "Machine-checked proofs (Coq 8.16) about (1) the checker that is run on the implementation's own output: for "
        "every monotone cost algebra, image, seed layout and mask, prop_check = true implies the full statement (seeds "
        "keep label and distance 0; every reachable pixel carries the minimum over all mask paths of the left-folded "
        "step-cost sum and the label of a seed attaining it; all other pixels are 0 / -1) - unconditional for the exact "
        "integer instance, under the single stated hypothesis 'binary64 addition of non-negatives is monotone' for the "
        "floating-point instance; (2) an executable PrimFloat model of propagate.py/_propagate.pyx/heap.pxd, operation "
        "for operation: heap push/pop keep the weak heap invariant on the distance key and the multiset of rows, pop "
        "returns a row of minimal key, the two-int32 key is monotone but not strictly (the cause of finding F7); the "
        "main loop never runs out of fuel, every distance it reports is the cost of a real mask path from a masked "
        "seed and every label is that of a masked seed connected through the mask (both key layouts). The "
        "model is tied to the code by bit-exact equality of labels and distances (IEEE bit patterns) evaluated inside "
        "Coq by vm_compute; no float is extracted."),
    "level_note": (
        "Trusted: Coq kernel, vm_compute and its primitive floats; gcc emitting IEEE-exact double arithmetic; the "
        "Python harness; for the exact stream additionally extraction (ExtrOcamlBasic only). Known finding F7 is "
        "attributed by the model (implementation = Dropped-key model and Full64-key model passes prop_check)."),
    "technique": "Coq proof over executable PrimFloat model + bit-exact differential correspondence inside Coq (vm_compute) + verified checker on the implementation's output",
    "design_ref": "DESIGN.md section 7, C03",
}
