"""C19 - compiled kernels never touch memory outside their buffers (PARTIAL by construction).

Three parts (DESIGN 7, C19):
 (A) Coq: index-safety theorems `kernel_pre_K args = true -> model_K args never errs` about
     bounds-checked models of the kernels (Props/C19.v; other properties' models re-used).
 (B) boundary monitoring: a Python-side spy replaces the kernel names in the importing modules'
     namespaces at run time, records the ACTUAL arguments of every kernel call made while the
     generators of C01-C08, C10, C15 run, and the extracted verified `kernel_pre_K` is evaluated
     on them.  A Python-side edit that shrinks a pad / scratch buffer fails kernel_pre_K on a
     concrete recorded call.
 (C) search / observation: the same inputs run against an address-sanitised build of all six
     extension modules (own staging call, so also in the quick tier); an ASan report or a crash is a
     concrete failing input.  ASan supports the search; it is never the proof."""
import importlib
import json
import os
import subprocess
import sys
import threading
import time

import numpy as np

ID = "C19"
PROPS_FILE = "theories/Props/C19.v"
EXTRACT = ("theories/Extract/XC19.v", "c19", ["entry_pre", "entry_run"])
ASAN = True            # thorough tier: core stages the address-sanitised build for the main pass
PYX = {"_cpmorphology2.pyx": ["skeletonize_loop", "table_lookup_index", "grey_reconstruction_loop",
                              "_all_connected_components", "index_lookup", "prepare_for_index_lookup",
                              "fill_labeled_holes_loop", "trace_outlines"],
       "_propagate.pyx": ["propagate"], "heap.pxd": "*",
       "_lapjv.pyx": ["reduction_transfer", "augmenting_row_reduction", "augment", "bsearch"],
       "_convex_hull.pyx": ["convex_hull_ijv"]}
CASE_TIMEOUT = 90
OWNERS = ["c01", "c02", "c03", "c04", "c05", "c06", "c07", "c08", "c10", "c15"]
RULE = ("cases = the generators of C01-C08, C10, C15 themselves (imported, not copied; each owner's quick or thorough "
        "generator, sub-sampled per owner with every corpus/edge case kept and a bias to the smallest and the largest "
        "inputs) plus a C19 class of extreme shapes (1x1, single row/column, objects touching all four borders, empty label "
        "sets, > 1000 initial queue rows / queue growth past 1000 rows for propagate, maximally sparse assignment problems, "
        "length-1 strided histograms, integer- and float-typed 0/1 footprints for grey_reconstruction, one leak-observation "
        "case); every case is run through the owner's impl with the kernel spy installed (recorded "
        "calls -> extracted kernel_pre_K) and - a sub-sample in the quick tier, all of them in the thorough tier - against "
        "the address-sanitised build; non-trivial = at least one compiled kernel was entered; distinct by hash of the case")
TRUSTED = [
    "C19 is partial by construction: index safety of the MODELLED kernels is proved; the behaviour of the compiled object "
    "is observed (ASan build, -O1 -fsanitize=address of the generated C/C++), not proved",
    "the spy (harness/props/c19.py:_install_spies) replaces names in the importing modules' namespaces and in the "
    "extension modules' own dictionaries; it reads shapes/strides/values of the arguments before forwarding them unchanged",
    "grey_reconstruction_loop: the padding geometry (image shape, padding) is read from the caller's frame locals",
    "the ASan objects are built with -DNDEBUG like the shipped ones (stage.ASAN_FLAGS extended at run time); an abort of the "
    "library's own assert() and a hang in a fork-isolated call are not memory errors (counted)",
    "AddressSanitizer (gcc libasan) with detect_leaks=0 (CPython itself 'leaks'); leaks are OBSERVED separately, not "
    "proved: every kernel class is called 2000 times (skeletonize 133) in one process against the plain build and the "
    "growth of glibc's mallinfo2 bytes-in-use must stay below 8 bytes per call (unchanged tree: 0-300 bytes in total); "
    "allocation pairing of heap.pxd is additionally a model fact (C19_heap_safe)",
    "convex_hull_ijv: kernel_pre_hull = the kernel's asserts + a repeat-free index list (C02's domain); the write bound "
    "then holds for all inputs (C19_convex_hull_write_bound, built on C02_hull_no_overflow)",
    "augmenting_row_reduction model: float comparisons are an oracle restricted to what finite costs can produce",
]
ASSUMPTIONS = [
    "KNOWN FINDINGS inside the quantifier, each attributed only by the owning property's rule (ids <Fxx>/C19): F22 convex_hull_ijv "
    "coordinates > 46340 (int32 turn test wraps, a label can overrun its rows); F23 median_filter with columns + 2*radius + 1 >= "
    "1573248 (32-bit scratch size wraps); F26 emd_hat_int32 on zero-length histograms with a flow type; F36 an index list "
    "that repeats its largest label handed to convex_hull_ijv (out-of-bounds READ one row past the sorted buffer; the result "
    "depends on the garbage read); F20 (next line). The "
    "index-safety theorems apply to the compiled code inside these input bounds only",
    "other narrow C types (int32 / uint32 flat indices, int strides, unsigned int heap capacity * width): they wrap only from 2^30 "
    "(grey_reconstruction: 2 planes, int32 links) / 2^31 pixels, rows or triples on, i.e. > 16 GB of input - treated as a resource "
    "bound outside the quantifier; uint16 histogram counts wrap VALUES (window > 65535 pixels), never indices (table in reports/C19.md)",
    "KNOWN FINDING F20 (inside the quantifier): memory safety of _lapjv.pyx augment fails on maximally sparse problems with "
    "forced expensive pairs; C01's generator class `forced-expensive` and corpus/C01/a_f20_sentinel.json are part of C19's "
    "streams (plain build, ASan build, boundary monitor), each such case fork-isolated; attribution by C01's two model variants",
    "quantifier = the input domains of C01-C08, C10, C15 (their generators); grey_reconstruction with an explicit "
    "non-central offset beyond the padding is outside it (C04 keeps such offsets within the padding)",
    "the in-bounds read of the uninitialised locals j1/j2 in augmenting_row_reduction for single-candidate rows is not a "
    "memory-safety violation of the stated property (named in reports/C19.md)",
    "images below 2^31 elements (int32 flat indices do not wrap); malloc/realloc succeed",
]
EXHAUSTIVE = {"quick": False, "thorough": False}

VERIF = os.path.dirname(os.path.dirname(os.path.dirname(os.path.abspath(__file__))))


def _asan_like_shipped():
    """harness/stage.py builds the plain objects with -DNDEBUG but the address-sanitised ones without it, so the C++
    library's own assert()s (min_cost_flow.hpp) abort in the ASan build on inputs where the shipped kernels run on.  C19 is
    about the shipped kernels: the ASan objects get the same -DNDEBUG (run-time change of the flag list of the staging
    module, not of its file; the build cache is keyed by the flags)."""
    from harness import stage as stg
    if "-DNDEBUG" not in stg.ASAN_FLAGS:
        stg.ASAN_FLAGS = list(stg.ASAN_FLAGS) + ["-DNDEBUG"]


_asan_like_shipped()
MAX_ELEMS = 40000          # arrays above this size are not serialised (counted)
MAX_CALLS = 8              # recorded calls per kernel per case (all are counted)

# kernel codes of Model/EntryC19.v
K_TLI, K_SKEL, K_IL, K_RECON, K_PROP, K_ARR, K_ACC, K_TRACE, K_FILL = 1, 2, 3, 4, 5, 6, 7, 8, 9
K_HULL, K_MED, K_RT, K_AUG, K_EMD = 10, 11, 12, 13, 14
MONITORED = {K_TLI: "table_lookup_index", K_SKEL: "skeletonize_loop", K_IL: "index_lookup",
             K_RECON: "grey_reconstruction_loop", K_PROP: "propagate", K_ARR: "augmenting_row_reduction", K_ACC: "_all_connected_components",
             K_TRACE: "trace_outlines", K_FILL: "fill_labeled_holes_loop", K_HULL: "convex_hull_ijv",
             K_MED: "median_filter", K_RT: "reduction_transfer", K_AUG: "augment", K_EMD: "emd_hat_int32"}


# per kernel: what is PROVED on a model (theorem names of Props/C19.v), what is MONITORED at the boundary (extracted
# kernel_pre_K on every recorded call), what is left to the address-sanitised build alone; written into the evidence
KERNEL_STATUS = {
    "table_lookup_index": ("Full: C19_table_lookup_index_safe (own bounds-checked model)", "kernel_pre_tli", ""),
    "skeletonize_loop": ("Full: C19_skeletonize_loop_safe", "kernel_pre_skel", ""),
    "index_lookup": ("Full: C19_index_lookup_safe, C19_index_lookup_never_negative", "kernel_pre_il",
                     "prepare_for_index_lookup / extract_from_image_lookup (NumPy-level code inside the .pyx)"),
    "grey_reconstruction_loop": ("Full: C19_recon_loop_safe (C04's model and loop theorem on the raw arguments)",
                                 "kernel_pre_recon (+ padding geometry read from the caller's frame)", "n-D (not 2-D) calls"),
    "propagate": ("Full for the priority queue: C19_heap_safe / _heappush_safe / _heappop_safe (pointer-level heap.pxd, "
                  "capacity doubling, malloc/free pairing)", "kernel_pre_propagate",
                  "the pixel loop itself (clamped_fetch, labels/distances/mask reads) is not modelled"),
    "augmenting_row_reduction": ("Full relative to the comparison oracle: C19_arr_full_safe", "kernel_pre_arr", ""),
    "reduction_transfer": ("Full: C19_reduction_transfer_safe", "kernel_pre_rt", ""),
    "augment": ("NOT SAFE AS WRITTEN (known finding F20, C19_augment_scan_nonempty_refuted): the premise ~Starved of "
                "C19_augment_row_safe_partial is false for some inputs inside the quantifier; proved: an empty rebuild of "
                "scan is the only way it leaves its arrays (C19_augment_none_is_empty_scan, Full), "
                "C19_augment_final_loop_safe_partial; C01's pred-chain / flip / fuel theorems re-exported",
                "kernel_pre_augment (true on the F20 witness: the defect is not a caller-side precondition)",
                "F20 class: run fork-isolated; crash / ASan report in augment on an input where C01's sentinel model "
                "starves is attributed to F20, anything else is a VIOLATION"),
    "_all_connected_components": ("Full: C19_all_connected_components_safe", "kernel_pre_acc", ""),
    "fill_labeled_holes_loop": ("Full: C19_fill_labeled_holes_loop_safe", "kernel_pre_fill", ""),
    "trace_outlines": ("Full: C19_trace_outlines_safe", "kernel_pre_trace", ""),
    "convex_hull_ijv": ("Full for the in-place WRITES in exact arithmetic: C19_convex_hull_write_bound (C02's model + "
                        "C02_hull_no_overflow); for the compiled int32 turn test: C19_convex_hull_label_write_bound_as_written, "
                        "INPUT BOUND coordinates <= 46340 (M*M < 2^31, C02_wrap_transfer). Beyond it: known finding F22 (a "
                        "repeated vertex overruns the label's rows; C19_reexp_C02_convex_wrap_refuted)",
                        "kernel_pre_hull (asserts + repeat-free index list; FALSE on every list with a repeated label: "
                        "C19_hull_pre_rejects_repeated_max - repeated lists are accepted by the API, so they are not counted as "
                        "a caller-side failure)",
                        "the reads of the buffer walk (C02's model uses total accessors): known finding F36 - an index list "
                        "that repeats its LARGEST label makes the kernel read labels_ijv[pixidx, 2] one row past the buffer "
                        "(own stream through six APIs, fork-isolated, attributed by that call-site rule); F22 class "
                        "fork-isolated, attributed by C02's as-written model"),
    "median_filter": ("Full, piecewise: C19_median_model_safe (C07's invariant carries every array size; column step), "
                      "C19_median_pre_indices, C19_median_hist_indices, C19_median_pixel_offset",
                      "kernel_pre_median; the theorems speak about the real scratch block for INPUT BOUND columns + 2*radius + 1 "
                      "< 1573248 (C19_reexp_C07_alloc_size_exact_below); from there on: known finding F23 (32-bit `unsigned int "
                      "memory_size` wraps, C19_reexp_C07_alloc_size_wrap_refuted)",
                      "no single end-to-end bounds-checked model; malloc failure path (memset before the NULL check); F23 "
                      "class fork-isolated, attributed by C07's alloc_wraps"),
    "emd_hat_int32": ("Full for the array copies: C19_emd_pre_copies_safe; heap / position table of min_cost_flow.hpp: "
                      "C10's line-level theorems re-exported (C19_reexp_C10_heap_*)", "kernel_pre_emd",
                      "the other C++ containers of FastEMD (std::vector / std::list indexing in emd_hat_impl.hpp, flow_utils.hpp); "
                      "INPUT BOUND non-empty histograms: zero-length p, q with a flow type = known finding F26 (vf[0] of an empty "
                      "vector), fork-isolated, attributed by len(p) == len(q) == 0; C10's int32-overflow classes (F21 / F25: hangs, "
                      "library assert aborts) are counted as 'no memory error'"),
}


# =========================================================================================== spy
class _Rec:
    calls = None          # list while recording
    counts = None
    installed = False


def _note(name):
    if _Rec.counts is not None:
        _Rec.counts[name] = _Rec.counts.get(name, 0) + 1
        return _Rec.counts[name] <= MAX_CALLS
    return False


def _ints(a):
    return [int(v) for v in np.asarray(a).ravel().tolist()]


def _small(*arrs):
    return sum(int(np.asarray(a).size) for a in arrs) <= MAX_ELEMS


def _rec(code, name, pre, run=None, **extra):
    d = {"k": code, "name": name, "pre": pre}
    if run is not None:
        d["run"] = run
    d.update(extra)
    _Rec.calls.append(d)


def _unmon(name, **info):
    _Rec.calls.append(dict({"k": 0, "name": name}, **info))


def _mk_spies(real):
    """real: {name: original function}.  Returns {name: spy}.  Every spy records, then forwards the
    caller's own objects unchanged."""
    spies = {}

    def table_lookup_index(image, *a, **kw):
        if _Rec.calls is not None and _note("table_lookup_index"):
            try:
                im = np.asarray(image)
                if im.ndim == 2:
                    H, W = int(im.shape[0]), int(im.shape[1])
                    s = int(im.strides[0] // max(1, im.itemsize))
                    run = [K_TLI, H, W, s, _ints(im != 0)] if im.size <= 600 else None
                    _rec(K_TLI, "table_lookup_index", [K_TLI, H, W, s, int(im.size)], run)
            except Exception as e:      # noqa
                _unmon("table_lookup_index", spy_error=repr(e))
        return real["table_lookup_index"](image, *a, **kw)
    spies["table_lookup_index"] = table_lookup_index

    def skeletonize_loop(result, i, j, order, table, *a, **kw):
        if _Rec.calls is not None and _note("skeletonize_loop"):
            try:
                r = np.asarray(result)
                if _small(r, i, order):
                    H, W = int(r.shape[0]), int(r.shape[1])
                    pre = [K_SKEL, H, W, int(r.size), _ints(i), _ints(j), _ints(order), int(np.asarray(table).size)]
                    run = None
                    if r.size <= 400:
                        run = [K_SKEL, H, W, _ints(r), _ints(i), _ints(j), _ints(order), _ints(table)]
                    _rec(K_SKEL, "skeletonize_loop", pre, run)
                else:
                    _unmon("skeletonize_loop", too_large=True)
            except Exception as e:      # noqa
                _unmon("skeletonize_loop", spy_error=repr(e))
        return real["skeletonize_loop"](result, i, j, order, table, *a, **kw)
    spies["skeletonize_loop"] = skeletonize_loop

    def index_lookup(index_i, index_j, image, table_in, iterations=None, *a, **kw):
        if _Rec.calls is not None and _note("index_lookup"):
            try:
                im = np.asarray(image)
                if _small(im, index_i) and im.ndim == 2:
                    H, W = int(im.shape[0]), int(im.shape[1])
                    tl = int(np.asarray(table_in).size)
                    pre = [K_IL, H, W, int(im.size), tl, _ints(index_i), _ints(index_j)]
                    run = None
                    if im.size <= 400:
                        it = len(index_i) if iterations is None else int(iterations)
                        run = [K_IL, min(it, 50), H, W, _ints(np.asarray(table_in).astype(np.uint8)), _ints(im),
                               _ints(index_i), _ints(index_j)]
                    _rec(K_IL, "index_lookup", pre, run)
                else:
                    _unmon("index_lookup", too_large=True)
            except Exception as e:      # noqa
                _unmon("index_lookup", spy_error=repr(e))
        return real["index_lookup"](index_i, index_j, image, table_in, iterations, *a, **kw)
    spies["index_lookup"] = index_lookup

    def grey_reconstruction_loop(values, prev, next, strides, current, image_stride, *a, **kw):
        if _Rec.calls is not None and _note("grey_reconstruction_loop"):
            try:
                loc = sys._getframe(1).f_locals          # the wrapper's locals: padding geometry
                img, pad = loc.get("image"), loc.get("padding")
                if img is None or pad is None:
                    _unmon("grey_reconstruction_loop", spy_error="caller frame has no image/padding")
                elif np.asarray(img).ndim != 2:
                    _unmon("grey_reconstruction_loop", not_2d=True)
                elif not _small(values, prev, next):
                    _unmon("grey_reconstruction_loop", too_large=True)
                else:
                    H, W = (int(v) for v in np.asarray(img).shape)
                    p0, p1 = (int(v) for v in np.asarray(pad).ravel())
                    _rec(K_RECON, "grey_reconstruction_loop",
                         [K_RECON, H, W, p0, p1, _ints(values), _ints(prev), _ints(next), _ints(strides),
                          int(current), int(image_stride)])
            except Exception as e:      # noqa
                _unmon("grey_reconstruction_loop", spy_error=repr(e))
        return real["grey_reconstruction_loop"](values, prev, next, strides, current, image_stride, *a, **kw)
    spies["grey_reconstruction_loop"] = grey_reconstruction_loop

    def propagate(image, pq, mask, labels, distances, weight, *a, **kw):
        if _Rec.calls is not None and _note("propagate"):
            try:
                q = np.asarray(pq)
                if q.ndim == 2 and q.size <= MAX_ELEMS:
                    m, n = (int(v) for v in np.asarray(image).shape)
                    w = int(q.shape[1])
                    ci = _ints(q[:, 3]) if w > 4 else []
                    cj = _ints(q[:, 4]) if w > 4 else []
                    shapes = [[int(v) for v in np.asarray(x).shape] for x in (image, mask, labels, distances)]
                    if all(len(sh) == 2 for sh in shapes):
                        _rec(K_PROP, "propagate", [K_PROP, int(q.shape[0]), w, int(q.size), m, n, ci, cj, shapes])
                    else:
                        _unmon("propagate", spy_error="non-2-D argument")
                else:
                    _unmon("propagate", too_large=True)
            except Exception as e:      # noqa
                _unmon("propagate", spy_error=repr(e))
        return real["propagate"](image, pq, mask, labels, distances, weight, *a, **kw)
    spies["propagate"] = propagate

    def augmenting_row_reduction(n, ii, jj, idx, count, x, y, u, v, c, *a, **kw):
        if _Rec.calls is not None and _note("augmenting_row_reduction"):
            try:
                if _small(ii, jj, idx, count, y):
                    _rec(K_ARR, "augmenting_row_reduction",
                         [K_ARR, int(n), _ints(ii), _ints(jj), _ints(idx), _ints(count), _ints(y),
                          int(np.asarray(x).size), int(np.asarray(u).size), int(np.asarray(v).size),
                          int(np.asarray(c).size)])
                else:
                    _unmon("augmenting_row_reduction", too_large=True)
            except Exception as e:      # noqa
                _unmon("augmenting_row_reduction", spy_error=repr(e))
        return real["augmenting_row_reduction"](n, ii, jj, idx, count, x, y, u, v, c, *a, **kw)
    spies["augmenting_row_reduction"] = augmenting_row_reduction

    def _all_connected_components(i_a, j_a, indexes_a, counts_a, label_a, *a, **kw):
        if _Rec.calls is not None and _note("_all_connected_components"):
            try:
                if _small(j_a, indexes_a, counts_a):
                    n = int(np.asarray(counts_a).shape[0])
                    pre = [K_ACC, n, _ints(j_a), _ints(indexes_a), _ints(counts_a), int(np.asarray(label_a).size)]
                    run = None
                    if np.asarray(j_a).size <= 200:
                        run = [K_ACC, n, _ints(j_a), _ints(indexes_a), _ints(counts_a), 3 * int(np.asarray(j_a).size) + 3 * n + 3]
                    _rec(K_ACC, "_all_connected_components", pre, run)
                else:
                    _unmon("_all_connected_components", too_large=True)
            except Exception as e:      # noqa
                _unmon("_all_connected_components", spy_error=repr(e))
        return real["_all_connected_components"](i_a, j_a, indexes_a, counts_a, label_a, *a, **kw)
    spies["_all_connected_components"] = _all_connected_components

    def trace_outlines(labels, firsts, stride_table, new_direction_table, output, output_count, *a, **kw):
        if _Rec.calls is not None and _note("trace_outlines"):
            try:
                if _small(labels, firsts):
                    pre = [K_TRACE, _ints(labels), _ints(firsts), _ints(stride_table), int(np.asarray(output_count).size),
                           int(np.asarray(new_direction_table).size)]
                    run = None
                    if np.asarray(labels).size <= 300:
                        run = [K_TRACE, _ints(labels), _ints(firsts), _ints(stride_table), _ints(new_direction_table),
                               int(np.asarray(output).size), int(np.asarray(output_count).size),
                               2 * int(np.asarray(labels).size) + 2]
                    _rec(K_TRACE, "trace_outlines", pre, run)
                else:
                    _unmon("trace_outlines", too_large=True)
            except Exception as e:      # noqa
                _unmon("trace_outlines", spy_error=repr(e))
        return real["trace_outlines"](labels, firsts, stride_table, new_direction_table, output, output_count, *a, **kw)
    spies["trace_outlines"] = trace_outlines

    def fill_labeled_holes_loop(i, j, idx, i_count, is_not_hole, adjacent_non_hole, to_do, lcount, to_do_count, *a, **kw):
        if _Rec.calls is not None and _note("fill_labeled_holes_loop"):
            try:
                if _small(j, idx, i_count, is_not_hole, to_do):
                    n = int(np.asarray(is_not_hole).size)
                    cap = int(np.asarray(to_do).size)
                    td = _ints(np.asarray(to_do)[: int(to_do_count)])
                    pre = [K_FILL, n, cap, _ints(j), _ints(idx), _ints(i_count), _ints(np.asarray(is_not_hole) != 0),
                           _ints(adjacent_non_hole), td]
                    run = None
                    if np.asarray(j).size <= 200 and n <= 60:
                        run = [K_FILL, 2 * int(np.asarray(j).size) + 2 * n + 4, cap, int(lcount), _ints(j), _ints(idx),
                               _ints(i_count), _ints(np.asarray(is_not_hole) != 0), _ints(adjacent_non_hole), td[::-1]]
                    _rec(K_FILL, "fill_labeled_holes_loop", pre, run)
                else:
                    _unmon("fill_labeled_holes_loop", too_large=True)
            except Exception as e:      # noqa
                _unmon("fill_labeled_holes_loop", spy_error=repr(e))
        return real["fill_labeled_holes_loop"](i, j, idx, i_count, is_not_hole, adjacent_non_hole, to_do, lcount,
                                               to_do_count, *a, **kw)
    spies["fill_labeled_holes_loop"] = fill_labeled_holes_loop

    def convex_hull_ijv(in_labels_ijv, indexes_in, *a, **kw):
        if _Rec.calls is not None and _note("convex_hull_ijv"):
            try:
                ijv = np.asarray(in_labels_ijv)
                idxs = np.asarray(indexes_in).ravel()
                if ijv.ndim != 2 or ijv.shape[1] != 3 or ijv.shape[0] == 0 or (ijv < 0).any() or (idxs < 0).any():
                    _unmon("convex_hull_ijv", rejected=True)     # the asserts / max() of an empty array raise first
                elif ijv.shape[0] > 10000:
                    _unmon("convex_hull_ijv", too_large=True)
                elif len(set(_ints(idxs))) != idxs.size:
                    # accepted by the API; kernel_pre_hull is FALSE on it (C19_hull_pre_rejects_repeated_label): known
                    # finding F36 when the largest label repeats - decided by the crash / ASan stream, not by (B)
                    _unmon("convex_hull_ijv", repeated_index_list=True)
                else:
                    _rec(K_HULL, "convex_hull_ijv", [K_HULL, [[int(v) for v in r] for r in ijv.tolist()], _ints(idxs)])
            except Exception as e:      # noqa
                _unmon("convex_hull_ijv", spy_error=repr(e))
        return real["convex_hull_ijv"](in_labels_ijv, indexes_in, *a, **kw)
    spies["convex_hull_ijv"] = convex_hull_ijv

    def median_filter(data, mask, output, radius, percent, *a, **kw):
        if _Rec.calls is not None and _note("median_filter"):
            try:
                arrs = [np.asarray(x) for x in (data, mask, output)]
                ok = all(x.ndim == 2 and x.dtype == np.uint8 and x.flags.c_contiguous for x in arrs)
                if (not ok or not (0 <= int(percent) <= 100) or arrs[0].shape != arrs[1].shape
                        or arrs[0].shape != arrs[2].shape):
                    _unmon("median_filter", rejected=True)       # Cython's buffer check / the ValueErrors come first
                else:
                    pre = [K_MED]
                    for x in arrs:
                        pre += [int(x.shape[0]), int(x.shape[1]), int(x.strides[0]), int(x.strides[1])]
                    pre += [int(radius), int(percent)]
                    _rec(K_MED, "median_filter", pre)
            except Exception as e:      # noqa
                _unmon("median_filter", spy_error=repr(e))
        return real["median_filter"](data, mask, output, radius, percent, *a, **kw)
    spies["median_filter"] = median_filter

    def reduction_transfer(ii, j, idx, count, x, u, v, c, *a, **kw):
        if _Rec.calls is not None and _note("reduction_transfer"):
            try:
                if _small(ii, j, idx, count, x):
                    pre = [K_RT, _ints(ii), _ints(j), _ints(idx), _ints(count), _ints(x), int(np.asarray(u).size),
                           int(np.asarray(v).size), int(np.asarray(c).size)]
                    _rec(K_RT, "reduction_transfer", pre, pre if np.asarray(j).size <= 300 else None)
                else:
                    _unmon("reduction_transfer", too_large=True)
            except Exception as e:      # noqa
                _unmon("reduction_transfer", spy_error=repr(e))
        return real["reduction_transfer"](ii, j, idx, count, x, u, v, c, *a, **kw)
    spies["reduction_transfer"] = reduction_transfer

    def augment(n, ii, jj, idx, count, x, y, u, v, c, *a, **kw):
        if _Rec.calls is not None and _note("augment"):
            try:
                if _small(ii, jj, idx, count, x, y) and np.asarray(jj).size <= 6000:
                    _rec(K_AUG, "augment", [K_AUG, int(n), _ints(ii), _ints(jj), _ints(idx), _ints(count), _ints(x),
                                            _ints(y), int(np.asarray(u).size), int(np.asarray(v).size),
                                            int(np.asarray(c).size)])
                else:
                    _unmon("augment", too_large=True)
            except Exception as e:      # noqa
                _unmon("augment", spy_error=repr(e))
        return real["augment"](n, ii, jj, idx, count, x, y, u, v, c, *a, **kw)
    spies["augment"] = augment

    def _ext(arr, addr):
        """int32 elements between addr and the end of the allocation that owns arr's memory"""
        base = arr
        while isinstance(getattr(base, "base", None), np.ndarray):
            base = base.base
        end = base.ctypes.data + base.nbytes
        return int((end - addr) // 4)

    def emd_hat_int32(p, q, c, *a, **kw):
        if _Rec.calls is not None and _note("emd_hat_int32"):
            try:
                cs = np.asarray(c)
                if cs.ndim != 2 or len(p) != cs.shape[0] or len(q) != cs.shape[1]:
                    _unmon("emd_hat_int32", rejected=True)       # the two asserts come first
                else:
                    pc, qc, cc = (np.ascontiguousarray(x, np.int32) for x in (p, q, c))   # what the kernel converts
                    crowext = min([_ext(cc, cc.ctypes.data + i * cc.strides[0]) for i in range(cc.shape[0])] or [0])
                    _rec(K_EMD, "emd_hat_int32",
                         [K_EMD, int(len(p)), int(len(q)), int(pc.shape[0]) if pc.ndim == 1 else -1, _ext(pc, pc.ctypes.data),
                          int(qc.shape[0]) if qc.ndim == 1 else -1, _ext(qc, qc.ctypes.data),
                          int(cc.shape[0]), int(cc.shape[1]), crowext])
            except Exception as e:      # noqa
                _unmon("emd_hat_int32", spy_error=repr(e))
        return real["emd_hat_int32"](p, q, c, *a, **kw)
    spies["emd_hat_int32"] = emd_hat_int32

    def passthrough(name):
        def spy(*a, **kw):
            if _Rec.calls is not None and _note(name):
                _unmon(name)
            return real[name](*a, **kw)
        spy.__name__ = name
        return spy
    for name in real:
        if name not in spies:
            spies[name] = passthrough(name)
    return spies


class _Proxy:
    """stands in for an extension module bound as an attribute of an importing module
    (cpmorphology._convex_hull, filter._filter, propagate._propagate)"""

    def __init__(self, mod, over):
        self.__dict__["_mod"] = mod
        self.__dict__["_over"] = over

    def __getattr__(self, k):
        o = self.__dict__["_over"]
        return o[k] if k in o else getattr(self.__dict__["_mod"], k)


CPM_KERNELS = ["skeletonize_loop", "table_lookup_index", "grey_reconstruction_loop", "_all_connected_components",
               "index_lookup", "fill_labeled_holes_loop", "trace_outlines"]
LAP_KERNELS = ["reduction_transfer", "augmenting_row_reduction", "augment"]


def _install_spies():
    if _Rec.installed:
        return
    import centrosome.cpmorphology as M
    import centrosome._cpmorphology2 as K
    import centrosome.lapjv as LM
    import centrosome._lapjv as LK
    import centrosome.filter as F
    import centrosome._filter as FK
    import centrosome.propagate as P
    import centrosome._propagate as PK
    import centrosome._convex_hull as HK
    import centrosome.fastemd as E
    import centrosome._fastemd as EK
    real = {n: getattr(K, n) for n in CPM_KERNELS}
    real.update({n: getattr(LK, n) for n in LAP_KERNELS})
    real["median_filter"] = FK.median_filter
    real["propagate"] = PK.propagate
    real["convex_hull_ijv"] = HK.convex_hull_ijv
    real["emd_hat_int32"] = EK.emd_hat_int32
    spies = _mk_spies(real)
    for n in CPM_KERNELS:                      # names imported into cpmorphology + direct users of K
        setattr(M, n, spies[n]); setattr(K, n, spies[n])
    for n in LAP_KERNELS:
        setattr(LM, n, spies[n]); setattr(LK, n, spies[n])
    M._convex_hull = _Proxy(HK, {"convex_hull_ijv": spies["convex_hull_ijv"]})
    F._filter = _Proxy(FK, {"median_filter": spies["median_filter"]})
    FK.median_filter = spies["median_filter"]
    P._propagate = _Proxy(PK, {"propagate": spies["propagate"]})
    E.emd_hat_int32 = spies["emd_hat_int32"]
    _Rec.installed = True


# =========================================================================================== generator
HULL_EXACT_BOUND = 46340       # C02_wrap_transfer: the int32 cross product is exact up to this coordinate


def _special_class(owner, c):
    """cases that are run fork-isolated: the input classes of the known memory-safety findings (syntactic class only;
    attribution applies the owning property's rule)"""
    if not isinstance(c, dict):
        return None
    if owner == "own" and c.get("fn") == "hull_repeat":
        idx = [int(v) for v in c.get("idx", [])]
        return "F36" if (idx and idx.count(max(idx)) > 1) else "hull-index-control"
    if owner == "c01" and c.get("fn") == "lap" and (c.get("f20") or c.get("pat") == "forced-expensive"):
        return "F20"
    if owner == "c01" and c.get("fn") == "flap":
        return "F35-class"        # C01's float-stall class: the call may never return (F35) - a hang is not a memory error
    if owner == "c07" and c.get("fn") == "wide":
        return "F23"
    if owner == "c10" and (c.get("fork") or c.get("intmax")):
        return "F26" if (len(c.get("p", [1])) == 0 and len(c.get("q", [1])) == 0) else "C10-overflow-class"
    if owner == "c02" and c.get("fn") == "ijv" and c.get("ijv"):
        try:
            if max(max(int(r[0]), int(r[1])) for r in c["ijv"]) > HULL_EXACT_BOUND:
                return "F22"
        except Exception:       # noqa
            return None
    return None


def _sub_ctx(ctx, owner, tier):
    """a real core.Ctx for the owner's generate() (some generators call ctx.run_model with the owner's
    extracted program), with its own random stream derived from this run's seed"""
    import zlib
    from harness import core
    sub = core.Ctx(owner, tier, ctx.seed)
    sub.rng = np.random.RandomState((ctx.seed ^ zlib.crc32(owner.ID.encode()) ^ 0xC19) & 0x7FFFFFFF)
    sub.scratch, sub.stage_info = ctx.scratch, ctx.stage_info
    sub.note = lambda s_: None
    return sub


def _jsize(c):
    try:
        return len(json.dumps(c, default=str))
    except Exception:       # noqa
        return 0


def _owner_cases(ctx, name, want, tier):
    mod = importlib.import_module("harness.props." + name)
    sub = _sub_ctx(ctx, mod, tier)
    cases = mod.generate(sub)
    n = len(cases)
    if n <= want:
        return cases
    sizes = np.array([_jsize(c) for c in cases])
    order = np.argsort(sizes, kind="stable")
    k = max(1, want // 5)
    pick = set(order[:k].tolist()) | set(order[-k:].tolist())          # extremes: smallest / largest inputs
    pick |= set(range(min(n, k)))                                      # the owner's corpus / edge cases come first
    spec = [i for i, c in enumerate(cases) if _special_class(name, c)]
    if name != "c01":       # classes of the known findings F22 / F23 / F26 (and C10's fork-isolated overflow classes)
        step = max(1, len(spec) // 45)
        pick |= set(spec[::step][:45])
        if name == "c10":       # the zero-length instance (F26) and a few of the overflow classes (they may hang: F21 / F25)
            pick -= set(spec)
            nh = 3 if tier == "quick" else 12          # these calls may hang (F21 / F25): each costs the fork time limit
            pick |= set(i for i in spec if cases[i].get("kind") == "empty") | set(spec[:: max(1, len(spec) // nh)][:nh])
    if name == "c01":       # finding F20: every case of the class (sentinel model starves), and a share of the generator
        f20 = [i for i, c in enumerate(cases) if isinstance(c, dict) and c.get("f20")]         # class that reaches it
        fx = [i for i, c in enumerate(cases) if isinstance(c, dict) and c.get("pat") == "forced-expensive"]
        pick |= set(f20[:40]) | set(fx[:: max(1, len(fx) // 40)][:40])
    rest = [i for i in range(n) if i not in pick]
    extra = ctx.rng.choice(len(rest), size=max(0, min(len(rest), want - len(pick))), replace=False)
    pick |= set(rest[int(i)] for i in extra)
    if name == "c01":       # C01's float-stall class (F35: the call never returns): a hang is no memory error, keep a few
        fl = sorted(i for i in pick if isinstance(cases[i], dict) and cases[i].get("fn") == "flap")
        pick -= set(fl[(2 if tier == "quick" else 10):])
    return [cases[i] for i in sorted(pick)]


def _own_cases(ctx):
    """C19's own extreme shapes, as calls of public API functions"""
    rng = ctx.rng
    out = []

    def lab(a, fn, **kw):
        a = np.asarray(a)
        out.append({"owner": "own", "case": dict({"fn": fn, "a": a.astype(int).tolist(), "shape": list(a.shape)}, **kw)})
    shapes = [(1, 1), (1, 2), (2, 1), (1, 7), (7, 1), (3, 3), (3, 50), (12, 12)] if ctx.quick() else \
        [(1, 1), (1, 2), (2, 1), (1, 7), (7, 1), (2, 2), (3, 3), (1, 40), (40, 1), (3, 50), (12, 12)]
    for fn in ("fill_labeled_holes", "skeletonize", "thin", "binary_shrink", "convex_hull", "get_outline_pts",
               "all_neighbors", "grey_reconstruction", "median_filter", "propagate", "table_lookup"):
        for (h, w) in shapes:
            lab(np.ones((h, w), int), fn, cls="full")                       # object touching all four borders
            lab(np.zeros((h, w), int), fn, cls="empty")                     # empty label set
            a = np.zeros((h, w), int)
            a[0, :] = 1; a[-1, :] = 2; a[:, 0] = 3; a[:, -1] = 4            # four objects, each along one border
            lab(a, fn, cls="borders")
            lab((rng.rand(h, w) < 0.5).astype(int) * rng.randint(1, 4, (h, w)), fn, cls="random")
    # propagate: > 1000 initial queue rows (heap.space == items: first push reallocates), and a queue that grows
    # past 1000 rows from a single seed
    for (h, w, kind) in ((34, 34, "allseeds"), (40, 30, "checker"), (64, 64, "oneseed")) if ctx.quick() else \
            ((34, 34, "allseeds"), (40, 30, "checker"), (64, 64, "oneseed"), (50, 50, "allseeds"), (120, 90, "oneseed"),
             (100, 100, "checker"), (1, 2500, "checker"), (2500, 1, "allseeds")):
        out.append({"owner": "own", "case": {"fn": "propagate_big", "h": h, "w": w, "kind": kind,
                                             "seed": int(rng.randint(1 << 30))}})
    # maximally sparse assignment problems: exactly one candidate per row (a permutation), n up to 60
    for n in (1, 2, 3, 7, 60) if ctx.quick() else (1, 2, 3, 7, 60, 300, 1500):
        out.append({"owner": "own", "case": {"fn": "lapjv_perm", "n": n, "seed": int(rng.randint(1 << 30))}})
        out.append({"owner": "own", "case": {"fn": "lapjv_perm2", "n": n, "seed": int(rng.randint(1 << 30))}})
    # length-1 / strided histograms for every stride
    out.append({"owner": "own", "case": {"fn": "leak_probe"}})
    # finding F36: index lists that REPEAT THE LARGEST label (convex_hull_ijv reads labels_ijv[pixidx, 2] one row past the
    # sorted buffer), with controls (a repeated non-maximal label, repeat-free lists), through every API that hands the
    # caller's index list to the kernel; each call fork-isolated
    imgs = {"witness": [[0] * 8] + [[0, 2] + [0] * 6] + [[0] * 8] * 6,
            "three": [[1, 1, 0, 0, 2, 2, 0, 0], [1, 1, 0, 0, 2, 2, 0, 0], [0, 0, 0, 0, 0, 0, 0, 0], [0, 3, 3, 3, 0, 0, 0, 0],
                      [0, 3, 3, 3, 0, 0, 0, 0], [0, 0, 3, 0, 0, 0, 0, 0]],
            "one": [[0, 0, 0, 0], [0, 5, 5, 0], [0, 5, 5, 0], [0, 0, 0, 0]]}
    lists = {"witness": [[2, 2], [2]], "one": [[5, 5], [5, 5, 5], [5]],
             "three": [[3, 3], [1, 3, 3], [3, 1, 3], [1, 2, 3, 3, 3], [1, 1, 3], [2, 2], [1, 2, 2, 3], [1, 2, 3], [3, 1], [2]]}
    for api in ("convex_hull", "convex_hull_ijv", "minimum_enclosing_circle", "calculate_convex_hull_areas",
                "calculate_solidity", "zernike"):
        for name, img in imgs.items():
            for idx in lists[name]:
                out.append({"owner": "own", "case": {"fn": "hull_repeat", "api": api, "a": img, "idx": idx}})
    for stride in (1, 2, 3, 8, 64, 4096):
        for n in (1, 2):
            out.append({"owner": "own", "case": {"fn": "emd_strided", "n": n, "stride": stride}})
    return out


def generate(ctx):
    tier = ctx.tier
    want = ctx.n(200, 1500)
    cases = []
    for name in OWNERS:
        t = time.time()
        cs = _owner_cases(ctx, name, want, tier)
        for c in cs:
            cases.append({"owner": name, "case": c})
        ctx.count("owner:" + name, len(cs))
        ctx.timings["gen_" + name] = round(time.time() - t, 1)
    own = _own_cases(ctx)
    ctx.count("owner:own", len(own))
    return own + cases


# =========================================================================================== implementation
def _own_impl(c):
    from centrosome import cpmorphology as M
    fn = c["fn"]
    if fn == "leak_probe":
        return "ok"             # the probe runs in check(), in its own process against the plain build
    if fn == "hull_repeat":
        lab = np.array(c["a"], np.int32)
        idx = np.array(c["idx"], np.int32)
        api = c["api"]
        if api == "convex_hull_ijv":
            ii, jj = np.nonzero(lab)
            M.convex_hull_ijv(np.column_stack((ii, jj, lab[ii, jj])), idx)
        elif api == "zernike":
            from centrosome import zernike as Z
            Z.zernike(Z.get_zernike_indexes(3), lab, idx)
        else:
            getattr(M, api)(lab, idx)
        return "ok"
    if fn == "propagate_big":
        from centrosome.propagate import propagate
        r = np.random.RandomState(c["seed"])
        h, w = c["h"], c["w"]
        img = r.rand(h, w)
        if c["kind"] == "allseeds":
            labels = r.randint(1, 50, (h, w)); labels[r.rand(h, w) < 0.15] = 0
        elif c["kind"] == "checker":
            labels = np.zeros((h, w), int); labels[::2, ::2] = r.randint(1, 9, labels[::2, ::2].shape)
            labels[1::2, 1::2] = r.randint(1, 9, labels[1::2, 1::2].shape)
        else:
            labels = np.zeros((h, w), int); labels[h // 2, w // 2] = 1
        propagate(img, labels, np.ones((h, w), bool), 0.01)
        return "ok"
    if fn in ("lapjv_perm", "lapjv_perm2"):
        from centrosome.lapjv import lapjv
        r = np.random.RandomState(c["seed"])
        n = c["n"]
        p = r.permutation(n)
        if fn == "lapjv_perm":
            i, j = np.arange(n), p
        else:       # two candidates for one row, the rest single
            i = np.concatenate([np.arange(n), [0]]); j = np.concatenate([p, [p[-1]]])
            if n == 1:
                i, j = np.arange(n), p
        lapjv(i.astype(int), j.astype(int), r.rand(len(i)))
        return "ok"
    if fn == "emd_strided":
        from centrosome import fastemd as E
        n, s = c["n"], c["stride"]
        big = np.zeros(n * s + 1, np.int32); big[::s] = 3
        v = big[::s][:n]
        cm = np.ones((n, n), np.int32)
        E.emd_hat_int32(v, v.copy(), cm)
        E.emd_hat_int32(v.copy(), v, cm, flow_type=E.EMD_WITHOUT_EXTRA_MASS_FLOW)
        return "ok"
    a = np.array(c["a"], int).reshape(c["shape"])
    if fn == "fill_labeled_holes":
        M.fill_labeled_holes(a)
    elif fn == "skeletonize":
        M.skeletonize(a > 0)
    elif fn == "thin":
        M.thin(a > 0)
    elif fn == "binary_shrink":
        M.binary_shrink(a > 0)
    elif fn == "convex_hull":
        M.convex_hull(a)
        M.convex_hull(a, np.arange(0, int(a.max()) + 3))
    elif fn == "get_outline_pts":
        idx = np.unique(a[a > 0])
        # contiguous objects only (the documented requirement of get_outline_pts)
        import scipy.ndimage as ndi
        l2, n2 = ndi.label(a > 0, np.ones((3, 3), bool))
        M.get_outline_pts(l2, np.arange(1, n2 + 1))
    elif fn == "all_neighbors":
        M.find_neighbors(a)
        M.color_labels(a)
    elif fn == "grey_reconstruction":
        M.grey_reconstruction(a.astype(float) * 0.5, a.astype(float))
        if min(a.shape) >= 1:
            M.grey_reconstruction(a * 0, a, np.ones((5, 3), bool))
            # integer- and float-typed 0/1 footprints (accepted since the fix 6f73ae9 "boolean copy")
            for dt in (np.uint8, np.int64, np.float64):
                M.grey_reconstruction(a * 0, a, np.array([[0, 1, 0], [1, 1, 1], [0, 1, 0]], dt))
                M.grey_reconstruction(a.astype(float) * 0.5, a.astype(float), np.ones((3, 3), dt))
    elif fn == "median_filter":
        from centrosome.filter import median_filter
        for radius in (1, 2, 5):
            median_filter(a.astype(float) / 4.0, a >= 0, radius)
            median_filter(a.astype(np.uint8), a > 0, radius)
    elif fn == "propagate":
        from centrosome.propagate import propagate
        propagate(np.zeros(a.shape), a, np.ones(a.shape, bool), 1.0)
    elif fn == "table_lookup":
        t = np.zeros(512, bool); t[::3] = True
        M.table_lookup(a > 0, t, False, 2)
        M.table_lookup(a > 0, t, True, 3)      # never iterations=None: an oscillating table does not terminate
    return "ok"


def _forked_rec(fn, arg, limit=25):
    """fn(arg) in a forked child WITH the kernel spy recording there: a crash (signal / ASan exit) or a hang of the
    implementation becomes an outcome of this case (finding F20: undefined behaviour after an empty rebuild of scan)"""
    import select
    import signal
    import tempfile
    rd, wr = os.pipe()
    errf = tempfile.NamedTemporaryFile(prefix="c19child.", suffix=".err", delete=False)
    errname = errf.name
    errf.close()
    pid = os.fork()
    if pid == 0:
        try:
            os.close(rd)
            try:
                fd = os.open(errname, os.O_WRONLY | os.O_TRUNC)
                os.dup2(fd, 2)
            except OSError:
                pass
            _Rec.calls, _Rec.counts = [], {}
            st = "ok"
            try:
                o = fn(arg)
                if isinstance(o, dict) and "exc" in o:
                    st = "exc:" + str(o["exc"])
            except BaseException as e:      # noqa
                st = "exc:" + type(e).__name__
            data = json.dumps({"status": st, "calls": _Rec.calls, "counts": _Rec.counts}).encode()
            while data:
                k = os.write(wr, data)
                data = data[k:]
        finally:
            os._exit(0)
    os.close(wr)
    buf = b""
    t_end = time.time() + limit
    hang = False
    while True:
        left = t_end - time.time()
        ready, _, _ = select.select([rd], [], [], max(0.0, left))
        if not ready:
            os.kill(pid, signal.SIGKILL)
            hang = True
            break
        chunk = os.read(rd, 1 << 16)
        if not chunk:
            break
        buf += chunk
    os.close(rd)
    _, status = os.waitpid(pid, 0)
    try:
        with open(errname, errors="replace") as f:
            errtxt = f.read()[-4000:]
        os.remove(errname)
    except OSError:
        errtxt = ""
    if buf and not hang:
        try:
            return json.loads(buf.decode())
        except ValueError:
            pass
    sig = status & 0x7f
    alines = [l for l in errtxt.splitlines() if "Assertion" in l and "failed" in l]
    if (not hang and alines and "AddressSanitizer" not in errtxt and "malloc" not in alines[-1]
            and any(t in alines[-1] for t in (".hpp", "centrosome", "_fastemd", "_filter", "_lapjv", "_convex_hull", "_propagate"))):
        # an assert() of the library itself fired (abort): a loud rejection, not a memory error (glibc's own heap
        # consistency assertions - malloc.c - are NOT rejections: they stay crashes)
        line = alines[-1].strip()[:300]
        return {"status": "reject:library assertion abort: " + line, "calls": [], "counts": {"fork-isolated": 1}}
    if hang:        # a call that does not return is not a memory-safety failure (C10's F21 / F25, UB after F20): counted
        return {"status": "hang:killed after %d s in a forked child" % limit, "calls": [], "counts": {"fork-isolated": 1}}
    what = ("signal %d" % sig) if sig else "exit %d without a result" % (status >> 8)
    detail = ""
    m = [x for x in os.environ.get("ASAN_OPTIONS", "").split(":") if x.startswith("log_path=")]
    if m:
        lp = m[0][len("log_path="):] + ".%d" % pid
        if os.path.exists(lp):
            with open(lp) as f:
                txt = f.read()
            os.remove(lp)
            head = [l.strip() for l in txt.splitlines() if "ERROR: AddressSanitizer" in l][:1]
            frames = [l.strip() for l in txt.splitlines() if l.strip().startswith("#")][:6]
            detail = " | ".join(head + frames)[:900]
    if not detail and errtxt.strip():
        detail = errtxt.strip().splitlines()[-1][:300]
    return {"status": "crash:forked child: %s %s" % (what, detail), "calls": [], "counts": {"fork-isolated": 1}}


def _owner_impl(name):
    mod = importlib.import_module("harness.props." + name)
    if name == "c04":
        return mod._impl          # the forked server of c04.impl would hide the calls from the spy
    return mod.impl


def impl(case):
    _install_spies()
    _Rec.calls, _Rec.counts = [], {}
    owner = case["owner"]
    status = "ok"
    try:
        if owner == "own" and case["case"].get("fn") == "hull_repeat":
            r = _forked_rec(_own_impl, case["case"], 25)        # finding F36 class and its controls: fork-isolated
            _Rec.calls, _Rec.counts = None, None
            return r
        elif owner == "own":
            _own_impl(case["case"])
        elif _special_class(owner, case["case"]):
            # classes of the known findings: fork-isolated (a crash is an outcome), the spy records inside the child
            mod = importlib.import_module("harness.props." + owner)
            if owner == "c01" and case["case"].get("fn") == "flap":
                fn, limit = mod._impl_flap, 3
            elif owner == "c01":
                fn, limit = mod._impl_lap, 25
            elif owner == "c07":
                fn, limit = mod._wide_child, 240            # 1.5 million columns: 4.3 GB of scratch, seconds (minutes under ASan)
            elif owner == "c10":
                os.environ["C10_NO_FORK"] = "1"             # c10.impl would start its own subprocess: run it in OUR child
                fn, limit = mod.impl, 3
            else:
                fn, limit = mod.impl, 25
            r = _forked_rec(fn, case["case"], limit)
            _Rec.calls, _Rec.counts = None, None
            return r
        else:
            o = _owner_impl(owner)(case["case"])
            if isinstance(o, dict) and "crash" in o:
                status = "crash:" + str(o.get("detail", o["crash"]))[:300]
            elif isinstance(o, dict) and "exc" in o:
                status = "exc:" + str(o["exc"])
    except Exception as e:       # noqa: an exception is not a memory error; recorded calls still count
        status = "exc:" + type(e).__name__
    calls, counts = _Rec.calls, _Rec.counts
    _Rec.calls, _Rec.counts = None, None
    return {"status": status, "calls": calls, "counts": counts}


# =========================================================================================== ASan runner
_ASAN = {"scratch": None, "info": None}


def _asan_stage(ctx):
    if ctx.stage_info.get("asan"):
        return ctx.scratch, ctx.stage_info
    if _ASAN["scratch"] is None:
        from harness import stage as stg
        t = time.time()
        _ASAN["scratch"], _ASAN["info"] = stg.stage(asan=True)
        ctx.timings["asan_stage"] = round(time.time() - t, 1)
    return _ASAN["scratch"], _ASAN["info"]


def _run_chunk(scratch, cases, idxs, outs, tag, stall):
    """like core.run_worker, against the given staged tree under ASan; outs[idx] filled in"""
    from harness import core
    wd = os.path.join(scratch, "c19w_%d_%s" % (os.getpid(), tag))
    os.makedirs(wd, exist_ok=True)
    env = dict(os.environ)
    asan = subprocess.check_output(["gcc", "-print-file-name=libasan.so"], text=True).strip()
    env.update({"PYTHONPATH": scratch + os.pathsep + VERIF, "PYTHONHASHSEED": "0", core.GUARD: "1",
                "VERIF_STAGE": scratch, "OMP_NUM_THREADS": "1", "OPENBLAS_NUM_THREADS": "1", "MPLBACKEND": "Agg",
                "LD_PRELOAD": asan,
                "ASAN_OPTIONS": "detect_leaks=0:abort_on_error=0:exitcode=99:allocator_may_return_null=1:log_path="
                                + os.path.join(wd, "asan")})
    start, n = 0, len(idxs)
    while start < n:
        inp = os.path.join(wd, "in_%d.json" % start)
        outp = os.path.join(wd, "out_%d.jsonl" % start)
        with open(inp, "w") as f:
            json.dump([cases[i] for i in idxs[start:]], f, default=core._js)
        open(outp, "w").close()
        p = subprocess.Popen([core.PY, "-m", "harness.worker", "harness.props.c19", "impl", inp, outp],
                             env=env, cwd=VERIF, stdout=subprocess.DEVNULL, stderr=subprocess.PIPE)
        last_size, last_t, killed = 0, time.time(), False
        while p.poll() is None:
            time.sleep(0.05)
            sz = os.path.getsize(outp)
            if sz != last_size:
                last_size, last_t = sz, time.time()
            elif time.time() - last_t > stall:
                p.kill(); killed = True
                break
        err = p.stderr.read().decode(errors="replace") if p.stderr else ""
        p.wait()
        done = 0
        with open(outp) as f:
            for line in f:
                if not line.endswith("\n"):
                    break
                outs[idxs[start + done]] = json.loads(line)
                done += 1
        start += done
        logs = sorted(x for x in os.listdir(wd) if x.startswith("asan"))
        if start < n and (p.returncode != 0 or killed):
            detail = err[-1500:]
            if logs:
                with open(os.path.join(wd, logs[0])) as f:
                    detail = f.read()[:3000]
            outs[idxs[start]] = {"crash": "hang" if killed else "signal/exit %s" % p.returncode, "detail": detail}
            start += 1
        elif start < n and done == 0:
            outs[idxs[start]] = {"crash": "worker made no progress", "detail": err[-1500:]}
            start += 1
        for x in logs:
            try:
                os.remove(os.path.join(wd, x))
            except OSError:
                pass


def run_asan(ctx, cases, jobs=8):
    scratch, info = _asan_stage(ctx)
    if not info["build_ok"]:
        raise RuntimeError("ASan build failed: %s" % json.dumps(info["build_errors"])[:600])
    outs = [None] * len(cases)
    jobs = max(1, min(jobs, len(cases)))
    chunks = [list(range(k, len(cases), jobs)) for k in range(jobs)]
    ths = [threading.Thread(target=_run_chunk, args=(scratch, cases, ch, outs, "%d_%d" % (int(time.time() * 1000) % 10 ** 6, k),
                                                      CASE_TIMEOUT + 15)) for k, ch in enumerate(chunks)]
    for t in ths:
        t.start()
    for t in ths:
        t.join()
    return outs


# =========================================================================================== leak observation
LEAK_N = 2000
LEAK_LIMIT = 16384          # bytes of malloc'ed memory still in use after LEAK_N further calls (unchanged tree: < 300)
_LEAK_CODE = r"""
import ctypes, gc, json, os, sys, warnings
warnings.filterwarnings("ignore")
import numpy as np
class MI(ctypes.Structure):
    _fields_ = [(n, ctypes.c_size_t) for n in ("arena", "ordblks", "smblks", "hblks", "hblkhd", "usmblks", "fsmblks",
                                               "uordblks", "fordblks", "keepcost")]
libc = ctypes.CDLL("libc.so.6")
have = hasattr(libc, "mallinfo2")
if have:
    libc.mallinfo2.restype = MI
def used():
    if have:
        m = libc.mallinfo2()
        return int(m.uordblks + m.hblkhd)
    return int(open("/proc/self/statm").read().split()[1]) * os.sysconf("SC_PAGE_SIZE")
import centrosome
assert os.path.realpath(centrosome.__file__).startswith(os.path.realpath(os.environ["VERIF_STAGE"]))
from centrosome.propagate import propagate
from centrosome.filter import median_filter
from centrosome.cpmorphology import (fill_labeled_holes, grey_reconstruction, convex_hull, skeletonize,
                                     all_connected_components, get_outline_pts, thin)
from centrosome.lapjv import lapjv
from centrosome import fastemd as E
r = np.random.RandomState(0)
img = r.rand(8, 8); lab = np.zeros((8, 8), int); lab[1, 1] = 1; lab[6, 6] = 2; msk = np.ones((8, 8), bool)
u8 = (img * 255).astype(np.uint8)
L = np.zeros((8, 8), int); L[1:7, 1:7] = 1; L[3:5, 3:5] = 0
ii = np.arange(5).repeat(5); jj = np.tile(np.arange(5), 5); cc = r.rand(25)
p = np.array([3, 1, 2], np.int32); q = np.array([1, 2, 3], np.int32)
C = np.abs(np.subtract.outer(np.arange(3), np.arange(3))).astype(np.int32)
probes = {
    "propagate": lambda: propagate(img, lab, msk, 1.0),
    "median_filter": lambda: median_filter(u8, msk, 2),
    "fill_labeled_holes": lambda: fill_labeled_holes(L),
    "grey_reconstruction": lambda: grey_reconstruction(img * 0.5, img),
    "convex_hull": lambda: convex_hull(L),
    "skeletonize": lambda: skeletonize(L > 0),
    "thin": lambda: thin(L > 0),
    "all_connected_components": lambda: all_connected_components(np.array([0, 1, 2]), np.array([1, 2, 0])),
    "get_outline_pts": lambda: get_outline_pts(L, [1]),
    "lapjv": lambda: lapjv(ii, jj, cc),
    "emd_hat_int32": lambda: E.emd_hat_int32(p, q, C, flow_type=E.EMD_WITHOUT_EXTRA_MASS_FLOW),
}
N = int(sys.argv[1])
out = {"metric": "mallinfo2" if have else "rss", "calls": {}}
for name, f in probes.items():
    n = max(100, N // 15) if name == "skeletonize" else N      # 30 ms per call in Python: fewer calls
    for _ in range(max(20, n // 7)):
        f()
    gc.collect(); u0 = used()
    for _ in range(n):
        f()
    gc.collect(); out[name] = used() - u0; out["calls"][name] = n
print(json.dumps(out))
"""


def run_leak_probe(ctx):
    """OBSERVATION, not proof: every kernel class LEAK_N times in one process against the PLAIN build;
    growth of the malloc'ed bytes in use (glibc mallinfo2; RSS when unavailable)"""
    from harness import core
    if ctx.stage_info.get("asan"):
        if _ASAN.get("plain") is None:
            from harness import stage as stg
            _ASAN["plain"] = stg.stage(asan=False)
        scratch = _ASAN["plain"][0]
    else:
        scratch = ctx.scratch
    env = dict(os.environ)
    env.update({"PYTHONPATH": scratch + os.pathsep + VERIF, "PYTHONHASHSEED": "0", core.GUARD: "1",
                "VERIF_STAGE": scratch, "OMP_NUM_THREADS": "1", "OPENBLAS_NUM_THREADS": "1", "MPLBACKEND": "Agg"})
    r = subprocess.run([core.PY, "-c", _LEAK_CODE, str(LEAK_N)], env=env, capture_output=True, text=True, timeout=600)
    if r.returncode != 0:
        return {"error": "leak probe exited with %s: %s" % (r.returncode, r.stderr[-600:])}
    return json.loads(r.stdout.strip().splitlines()[-1])


def _leak_verdict(res):
    if "error" in res:
        return res["error"]
    scale = 1 if res.get("metric") == "mallinfo2" else 64
    calls = res.get("calls", {})
    bad = {}
    for k, v in res.items():
        if isinstance(v, int):
            limit = scale * max(2048, LEAK_LIMIT * calls.get(k, LEAK_N) // LEAK_N)      # 8 bytes per call, at least 2 KB
            if v > limit:
                bad[k] = {"growth_bytes": v, "calls": calls.get(k, LEAK_N), "limit": limit}
    if bad:
        return ("leak observation (plain build, repeated calls in one process, metric %s): malloc'ed memory still in use "
                "grew: %s (unchanged tree: < 300 bytes)" % (res.get("metric"), json.dumps(bad)))
    return None


# =========================================================================================== checker
def _crash_text(o):
    d = str(o.get("detail", ""))
    head = ""
    for line in d.splitlines():
        if "ERROR: AddressSanitizer" in line or "SUMMARY" in line:
            head = line.strip()
            break
    return "%s %s" % (o["crash"], head or d.strip()[-300:])


KF_IDS = {"F20": "F20/C19", "F22": "F22/C19", "F23": "F23/C19", "F26": "F26/C19", "F36": "F36/C19"}
F20_ID = KF_IDS["F20"]  # known_findings.json lists these under the owning property ("also": C19); core filters by property
                        # and drops duplicate ids, so C19's fragment carries its own ids
KF_TEXT = {
    "F20": "F20-class input (C01's faithful sentinel model starves in augment, the true-infinity reference model returns a matching): ",
    "F23": "F23-class input (median_filter on a very wide image: the 32-bit scratch size of allocate_histograms may wrap): ",
    "F26": "F26-class input (emd_hat_int32 on zero-length histograms with a flow type): ",
    "F22": "F22-class input (convex_hull_ijv with coordinates above 46340: the int32 turn test wraps): ",
    "F36": "F36-class input (index list that repeats its largest label handed to convex_hull_ijv): ",
}


def _kf_class(case):
    if not (isinstance(case, dict) and isinstance(case.get("case"), dict)):
        return None
    k = _special_class(case.get("owner"), case["case"])
    if k == "F20" and not case["case"].get("f20"):
        return None
    return k if k in KF_TEXT else None


def _is_f20_case(case):
    return _kf_class(case) == "F20"


def _f20_prefix(case):
    k = _kf_class(case)
    return KF_TEXT[k] if k else ""


_OWNER_CTX = {}


def _owner_model(ctx, owner, entry, args):
    """run an extracted entry of the OWNING property's model (attribution is by the owner's rule)"""
    if owner not in _OWNER_CTX:
        _OWNER_CTX[owner] = _sub_ctx(ctx, importlib.import_module("harness.props." + owner), ctx.tier)
    return _OWNER_CTX[owner].run_model(entry, args)


def attribute(ctx, case, out, clause):
    """A failure is a KNOWN finding only by the owning property's rule, and only when it is a crash / ASan report of the
    fork-isolated call (never a false kernel_pre):
      F20 iff C01's generator flagged the input (sentinel model starves, true-infinity model returns) and the ASan stack,
          when there is one, lies in augment;
      F23 iff C07's extracted alloc_wraps holds for (columns, radius) of the call;
      F26 iff len(p) == len(q) == 0 (a flow type is among the variants the owner's impl calls);
      F22 iff C02's as-written (int32-wrapped) hull model overruns a label's rows on the input while the exact model does not.
    Everything else stays a VIOLATION."""
    import re
    k = _kf_class(case)
    if not (k and isinstance(clause, str) and clause.startswith(KF_TEXT[k])) or "kernel_pre_" in clause:
        return None
    if "crash" not in clause and "AddressSanitizer" not in clause:
        return None
    frames = re.findall(r"#\d+ [^|]*", clause)
    inner = case["case"]
    try:
        if k == "F20":
            if frames:
                pyx = [f for f in frames if "_lapjv" in f or "lapjv_" in f]
                if not pyx or not re.search(r"lapjv_\d+augment(?!ing)", pyx[0]):
                    return None
            return KF_IDS[k]
        if k == "F36":
            idx = [int(v) for v in inner["idx"]]
            if not (idx and idx.count(max(idx)) > 1):
                return None
            if frames:
                pyx = [f for f in frames if "__pyx" in f]
                if not pyx or "convex_hull_ijv" not in pyx[0]:
                    return None
            return KF_IDS[k]
        if k == "F23":
            a = _owner_model(ctx, "c07", "entry_alloc", [[inner["W"], inner["radius"]]])[0]
            return KF_IDS[k] if (isinstance(a, list) and len(a) == 3 and a[2] == 1) else None
        if k == "F26":
            return KF_IDS[k] if (len(inner["p"]) == 0 and len(inner["q"]) == 0) else None
        if k == "F22":
            w = _owner_model(ctx, "c02", "entry_hull_ijv_w", [[inner["ijv"], inner["idx"]]])[0]
            e = _owner_model(ctx, "c02", "entry_hull_ijv", [[inner["ijv"], inner["idx"]]])[0]
            over_w = isinstance(w, list) and len(w) >= 3 and w[2] == 1
            over_e = isinstance(e, list) and len(e) >= 3 and e[2] == 1
            return KF_IDS[k] if (over_w and not over_e) else None
    except Exception as ex:      # noqa: no attribution without the owner's model
        ctx.note("attribution of %s failed: %r" % (k, ex))
    return None


def reproduce_finding(ctx, finding):
    if finding.get("id") not in KF_IDS.values():
        return False
    owner = finding.get("owner") or {"F20/C19": "c01", "F22/C19": "c02", "F23/C19": "c07", "F26/C19": "c10", "F36/C19": "own"}[finding["id"]]
    case = {"owner": owner, "case": finding["witness"]}
    o = ctx.run_impl([case])[0]
    if isinstance(o, dict) and ("crash" in o or str(o.get("status", "")).startswith("crash:")):
        return True
    try:        # the plain build may return garbage instead of crashing: ask the address-sanitised build
        a = run_asan(ctx, [case], jobs=1)[0]
        return _asan_verdict(a) is not None
    except Exception:       # noqa
        return False


def _asan_verdict(o):
    if o is None:
        return "ASan run produced no result for this case"
    if "crash" in o:
        return "address-sanitised build: " + _crash_text(o)
    if str(o.get("status", "")).startswith("crash:"):
        return "address-sanitised build: child of the owner's impl crashed: " + o["status"][:300]
    return None


def _run_model_parallel(ctx, entry, args, jobs=8):
    """ctx.run_model in round-robin chunks on a thread pool (one extracted-program process per chunk)"""
    from concurrent.futures import ThreadPoolExecutor
    if len(args) < 200:
        return ctx.run_model(entry, args)
    chunks = [list(range(k, len(args), jobs)) for k in range(jobs)]
    res = [None] * len(args)
    with ThreadPoolExecutor(max_workers=jobs) as ex:
        for ch, out in zip(chunks, ex.map(lambda ch: ctx.run_model(entry, [args[i] for i in ch]), chunks)):
            for i, r in zip(ch, out):
                res[i] = r
    return res


def check(ctx, cases, outs):
    verdicts = [None] * len(cases)
    # (B) kernel_pre_K on every recorded call
    args, where = [], []
    for ci, o in enumerate(outs):
        v = None
        if not isinstance(o, dict) or "crash" in o:
            verdicts[ci] = "crash in the %s build: %s" % (
                "address-sanitised" if ctx.stage_info.get("asan") else "plain (-O2)",
                (_crash_text(o) if isinstance(o, dict) else "no output"))
            continue
        if "exc" in o:
            verdicts[ci] = "C19 harness error in impl: %s %s" % (o["exc"], o.get("msg", ""))
            continue
        if str(o.get("status", "")).startswith(("hang:", "reject:")):
            ctx.count("owner's known-finding class, no memory error (%s in the forked child): %s" % (
                "hang" if o["status"].startswith("hang:") else "library assertion abort",
                _special_class(cases[ci]["owner"], cases[ci]["case"])))
            continue
        if str(o.get("status", "")).startswith("crash:"):
            verdicts[ci] = _f20_prefix(cases[ci]) + "crash in a fork-isolated child (%s build): %s" % (
                "address-sanitised" if ctx.stage_info.get("asan") else "plain -O2", o["status"][6:900])
            continue
        for k, call in enumerate(o.get("calls", [])):
            if call.get("spy_error"):
                v = v or "spy could not read the arguments of %s: %s" % (call["name"], call["spy_error"])
            if call["k"] in MONITORED:
                args.append(call["pre"]); where.append((ci, k))
                ctx.count("pre:" + call["name"])
            else:
                ctx.count(("too-large:" if call.get("too_large") else "rejected-by-kernel:" if call.get("rejected")
                           else "not-2d:" if call.get("not_2d") else "repeated-index-list(kernel_pre false, F36 class):"
                           if call.get("repeated_index_list") else "unmonitored:") + call["name"])
        for name, cnt in (o.get("counts") or {}).items():
            ctx.count("calls:" + name, cnt)
        verdicts[ci] = v
    # (C) the address-sanitised build runs concurrently with the evaluation of the preconditions
    asan_box = {}
    asan_thread = None
    if not ctx.stage_info.get("asan"):
        if len(cases) <= 80:
            sel = list(range(len(cases)))
        else:
            def _slow_wide(c):      # c07 wide image below the wrap threshold: seconds in the plain build, minutes under ASan
                return (ctx.quick() and c["owner"] == "c07" and isinstance(c["case"], dict) and c["case"].get("fn") == "wide"
                        and max(c["case"]["H"], c["case"]["W"]) > 100000
                        and c["case"]["W"] + 2 * max(2, c["case"]["radius"]) + 1 < 1573248)
            own = [i for i, c in enumerate(cases) if (c["owner"] == "own" or _special_class(c["owner"], c["case"]))
                   and not _slow_wide(c)]
            rest = [i for i, c in enumerate(cases) if not (c["owner"] == "own" or _special_class(c["owner"], c["case"]))]
            ctx.count("quick tier: wide images below the wrap threshold not run under ASan", sum(1 for c in cases if _slow_wide(c)))
            k = ctx.n(700, 4000)
            pick = ctx.rng.choice(len(rest), size=min(len(rest), k), replace=False) if rest else []
            sel = own + sorted(rest[int(i)] for i in pick)

        def _asan_job():
            t = time.time()
            try:
                asan_box["outs"] = run_asan(ctx, [cases[i] for i in sel], jobs=6)
            except Exception as e:      # noqa
                asan_box["error"] = repr(e)
            asan_box["t"] = round(time.time() - t, 1)
        asan_thread = threading.Thread(target=_asan_job)
        asan_thread.start()
    leak_box, leak_thread = {}, None
    leak_idx = [i for i, c in enumerate(cases) if c["owner"] == "own" and c["case"].get("fn") == "leak_probe"]
    if leak_idx:
        def _leak_job():
            t = time.time()
            try:
                leak_box["res"] = run_leak_probe(ctx)
            except Exception as e:      # noqa
                leak_box["res"] = {"error": "leak probe failed: %r" % (e,)}
            leak_box["t"] = round(time.time() - t, 1)
        leak_thread = threading.Thread(target=_leak_job)
        leak_thread.start()
    if len(cases) > 80:            # the per-kernel status goes into the evidence (coverage.notes / distribution)
        for name, (proved, mon, asan_only) in KERNEL_STATUS.items():
            nmon = ctx.counters.get("pre:" + name, 0)
            ctx.counters["monitored_calls:" + name] = nmon
            ctx.notes.append("kernel %s | proved on model: %s | monitored at the boundary: %s on %d recorded calls | "
                             "ASan only: %s" % (name, proved, mon, nmon, asan_only or "nothing beyond the compiled object itself"))
    if args:
        t = time.time()
        res = _run_model_parallel(ctx, "entry_pre", args, jobs=8)
        ctx.timings["pre_eval"] = ctx.timings.get("pre_eval", 0) + round(time.time() - t, 1)
        for (ci, k), r in zip(where, res):
            if r != 1 and verdicts[ci] is None:
                call = outs[ci]["calls"][k]
                verdicts[ci] = "kernel_pre_%s is FALSE on recorded call #%d of this case: args=%s" % (
                    call["name"], k, json.dumps(call["pre"])[:600])
    if leak_thread is not None:
        leak_thread.join()
        ctx.timings["leak_probe"] = ctx.timings.get("leak_probe", 0) + leak_box.get("t", 0)
        res = leak_box["res"]
        for k, v in res.items():
            if isinstance(v, int):
                ctx.counters["leak_growth_bytes:" + k] = v
        v = _leak_verdict(res)
        if v:
            for i in leak_idx:
                verdicts[i] = verdicts[i] or v
    if asan_thread is not None:
        asan_thread.join()
        if "error" in asan_box:
            raise RuntimeError("ASan pass failed: " + asan_box["error"])
        ctx.timings["asan_run"] = ctx.timings.get("asan_run", 0) + asan_box.get("t", 0)
        ctx.count("asan_cases", len(sel))
        for i, o in zip(sel, asan_box["outs"]):
            if isinstance(o, dict) and str(o.get("status", "")).startswith(("hang:", "reject:")):
                ctx.count("ASan pass: owner's known-finding class, no memory error (%s): %s" % (
                    "hang" if o["status"].startswith("hang:") else "library assertion abort",
                    _special_class(cases[i]["owner"], cases[i]["case"])))
                continue
            v = _asan_verdict(o)
            if v and verdicts[i] is None:
                verdicts[i] = _f20_prefix(cases[i]) + v
    else:
        ctx.count("asan_cases", len(cases))
    return verdicts


def nontrivial(case, out):
    return isinstance(out, dict) and bool(out.get("counts"))


def kernel_crosscheck(ctx, cases, outs):
    """extracted entry_pre / entry_run against vm_compute on small recorded calls; and the instance of the
    safety theorems: kernel_pre true -> the bounds-checked model runs without an out-of-range access"""
    pre, run = [], []
    for o in outs:
        if isinstance(o, dict):
            for call in o.get("calls", []):
                if call.get("run") is not None and len(json.dumps(call["run"])) < 4000:
                    pre.append(call["pre"]); run.append(call["run"])
    if not pre:
        return "no recorded call small enough for the in-kernel cross-check", 0
    idx = list(range(len(pre)))
    ctx.rng.shuffle(idx)
    by_kernel = {}
    for i in idx:
        by_kernel.setdefault(pre[i][0], []).append(i)
    sel = []
    while len(sel) < 40 and any(by_kernel.values()):
        for k in sorted(by_kernel):
            if by_kernel[k]:
                sel.append(by_kernel[k].pop())
    pre, run = [pre[i] for i in sel], [run[i] for i in sel]
    rp = ctx.run_model("entry_pre", pre)
    rr = ctx.run_model("entry_run", run)
    for a, p, r in zip(pre, rp, rr):
        if p == 1 and r != 1:
            return "kernel_pre holds but the bounds-checked model reports an out-of-range access: %s" % json.dumps(a)[:300], len(sel)
    ok1 = ctx.coq_eval_eq("Model.EntryC19", "entry_pre", pre, rp, "pre")
    ok2 = ctx.coq_eval_eq("Model.EntryC19", "entry_run", run, rr, "run")
    if not all(ok1) or not all(ok2):
        return "extracted entry_pre/entry_run differ from vm_compute", len(sel)
    return None, len(sel)


def search_cases(ctx, rnd):
    if rnd > 1:
        return []
    cases = []
    for name in OWNERS:
        for c in _owner_cases(ctx, name, 120, "quick"):
            cases.append({"owner": name, "case": c})
    return cases


def shrink_candidates(case):
    if case["owner"] == "own":
        c = case["case"]
        if "a" in c:
            a = np.array(c["a"]).reshape(c["shape"])
            h, w = a.shape
            for b in (a[: h // 2], a[h // 2:], a[:, : w // 2], a[:, w // 2:], a[:-1], a[:, :-1]):
                if b.size and b.shape != a.shape:
                    yield {"owner": "own", "case": dict(c, a=b.tolist(), shape=list(b.shape))}
        return
    try:
        mod = importlib.import_module("harness.props." + case["owner"])
        for k, c in enumerate(mod.shrink_candidates(case["case"])):
            if k >= 40:
                break
            yield {"owner": case["owner"], "case": c}
    except Exception:       # noqa
        return


MANIFEST = {
    "level_text": ("proof (partial): index safety of the modelled kernels is proved for all inputs satisfying the "
                   "boolean kernel preconditions, and those preconditions are evaluated on the actual arguments of "
                   "every recorded kernel call; the behaviour of the compiled object is observed (address-sanitised "
                   "build over the generators of C01-C08, C10, C15), not proved"),
    "level_note": ("not expressible in the model: malloc/realloc failure, int32 wrap of flat indices beyond 2^31 "
                   "elements, the C++ containers of FastEMD outside the heap, Cython buffer unpacking. INPUT BOUNDS under which "
                   "the theorems speak about the compiled code: hull coordinates <= 46340 (beyond: F22), median columns + "
                   "2*radius + 1 < 1573248 (beyond: F23), non-empty EMD histograms (F26), index lists for convex_hull_ijv that do "
                   "not repeat their largest label (F36), lapjv inputs on which the sentinel "
                   "model does not starve (F20); flat sizes below 2^30 / 2^31 elements. Not proved: that "
                   "augment's search always returns - it is FALSE for the kernel as written: known finding F20 (sentinel "
                   "inf = sum(c)+1 too small, p_scan[low] read past up, segfault inside the quantifier; "
                   "C19_augment_scan_nonempty_refuted), propagate's pixel loop, the reads of "
                   "the hull buffer walk; per kernel proved / monitored / ASan-only: coverage.notes of the evidence; "
                   "leaks are observed by repeated calls (mallinfo2 growth), not proved"),
    "technique": "Coq index-safety theorems + run-time boundary monitoring with extracted checkers + ASan search",
    "design_ref": "DESIGN.md section 7, C19; section 8",
}
