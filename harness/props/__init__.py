# properties with a registered check, in the order they were built
CLAIMED = ["C02", "C16"]
