# properties with a registered check, in the order they were built
CLAIMED = ["C01", "C02", "C07", "C10", "C11", "C15", "C16", "C17", "C18"]
