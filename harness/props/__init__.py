# properties with a registered check, in the order they were built
CLAIMED = ["C01", "C02", "C03", "C04", "C05", "C06", "C07", "C08", "C09", "C10", "C11", "C12", "C13", "C14", "C15", "C16", "C17", "C18", "C19", "C20"]
