#!/bin/bash
# Build the whole framework from files on disk only (offline): extension cache, generated
# Coq files, the full Coq development (.vo, never -vos), the extracted OCaml models.
set -e
cd "$(dirname "$(readlink -f "$0")")"
export PYTHONHASHSEED=0 PYTHONPATH="$PWD"
/venv/bin/python tools/setup_gen.py
( cd coq && timeout 3400 make -f Makefile.coq -j16 )
/venv/bin/python tools/setup_gen.py --exes
echo "setup done"
