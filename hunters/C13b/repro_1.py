"""C13 / request list given as a tuple: ellipse_from_second_moments raises IndexError
(every other measurement of the property accepts the same tuple)."""
import sys, warnings
import os; sys.path.insert(0, os.getcwd())  # run from the root of a centrosome tree
warnings.filterwarnings("ignore")
import numpy as np
import centrosome.cpmorphology as M

labels = np.array([[1, 1, 0, 2],
                   [1, 0, 2, 2]])
ones = np.ones(labels.shape)
ref = M.ellipse_from_second_moments(ones, labels, [2, 1])          # list: works
bad = False
try:
    got = M.ellipse_from_second_moments(ones, labels, (2, 1))      # tuple, same request
    for a, b in zip(ref, got):
        if not np.allclose(a, b, equal_nan=True):
            bad = True
            print("tuple request gives different values:", a, b)
except Exception as e:
    bad = True
    print("ellipse_from_second_moments(ones, labels, (2, 1)) raised %s: %s" % (type(e).__name__, e))
    print("expected (list request [2, 1]):", [np.asarray(x).tolist() for x in ref])
# the other measurements accept the tuple
M.calculate_perimeters(labels, (2, 1)); M.euler_number(labels, (2, 1)); M.calculate_extents(labels, (2, 1))
M.calculate_solidity(labels, (2, 1)); M.minimum_enclosing_circle(labels, (2, 1)); M.skeleton_length(labels, (2, 1))
M.median_of_labels(ones, labels, (2, 1))
sys.exit(1 if bad else 0)
