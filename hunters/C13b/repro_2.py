"""C13 / label image of dtype uint64: ellipse_from_second_moments, median_of_labels, skeleton_length and
Haralick raise TypeError on a label image that the other eight measurements handle (and that gives the
expected values as int64)."""
import sys, warnings
import os; sys.path.insert(0, os.getcwd())  # run from the root of a centrosome tree
warnings.filterwarnings("ignore")
import numpy as np
import centrosome.cpmorphology as M
import centrosome.haralick as H

lab64 = np.array([[1, 1, 0, 2],
                  [1, 0, 2, 2]], np.int64)
labels = lab64.astype(np.uint64)
img = np.array([[1., 2., 0., 5.], [3., 0., 4., 9.]])
calls = {
    "ellipse_from_second_moments": lambda L: M.ellipse_from_second_moments(np.ones(L.shape), L, np.array([1, 2]))[2],
    "median_of_labels": lambda L: M.median_of_labels(img, L, [1, 2]),
    "skeleton_length": lambda L: M.skeleton_length(L, np.array([1, 2])),
    "Haralick.all": lambda L: np.array(H.Haralick(img, L, 0, 1).all())[:2],
    # controls that work with uint64:
    "calculate_perimeters": lambda L: M.calculate_perimeters(L, [1, 2]),
    "euler_number": lambda L: M.euler_number(L, [1, 2]),
    "minimum_enclosing_circle": lambda L: M.minimum_enclosing_circle(L, [1, 2])[1],
}
bad = False
for name, f in calls.items():
    ref = f(lab64)
    try:
        got = f(labels)
        if not np.allclose(ref, got, equal_nan=True):
            bad = True; print(name, "uint64 labels give", got, "int64 labels give", ref)
    except Exception as e:
        bad = True
        print("%s on uint64 labels raised %s: %s   (int64 labels: %s)" % (name, type(e).__name__, e, np.asarray(ref).tolist()))
sys.exit(1 if bad else 0)
