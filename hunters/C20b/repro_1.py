"""C20 violation: convex_hull(labels, indexes) with the largest label listed twice in `indexes`
reads one row past the end of its sorted ijv buffer (_convex_hull.pyx, `labels_ijv[pixidx, 2]`
with pixidx == labels_ijv.shape[0], boundscheck off).  What it finds there is whatever earlier
calls left on the heap, so the result of the SAME call on the SAME input differs between a fresh
process and a process that called other library functions first (or the process segfaults).
exit 1 = violation present, exit 0 = not observed."""
import subprocess, sys

PRE = r'''
import sys, warnings
warnings.simplefilter("ignore")
import os; sys.path.insert(0, os.environ.get("TREE", "/repo"))
import numpy as np
import centrosome.cpmorphology as M
import centrosome.outline as OL
V, BLK, HK, HIST = %d, %r, %d, %d
labels = np.zeros((8, 8), np.int32)
labels[1:1 + BLK[0], 1:1 + BLK[1]] = V
indexes = np.array([V, V], np.int32)
if HIST:
    for rep in range(3):
        a = OL.outline(np.full((1, HK), V, np.int32))      # library call 1
        b = M.relabel(np.full((HK, 3), V, np.int32))        # library call 2
        del a, b
before = (labels.tobytes(), indexes.tobytes())
pts, counts = M.convex_hull(labels, indexes)
assert before == (labels.tobytes(), indexes.tobytes())
print(pts.tolist(), counts.tolist())
'''

def run(V, blk, hk, hist):
    p = subprocess.run([sys.executable, "-c", PRE % (V, blk, hk, hist)], capture_output=True, text=True)
    return p.returncode, p.stdout.strip()

bad = 0
seen = {}
for attempt in range(6):
    for V, blk, hk in ((2, (1, 1), 1), (1000, (2, 3), 7), (2, (1, 1), 2), (7, (2, 2), 3), (1000, (3, 3), 5)):
        for hist in (0, 1):
            rc, out = run(V, blk, hk, hist)
            seen.setdefault((V, blk), set()).add((rc, out))
            if rc != 0:
                print("VIOLATION (crash): V=%d block=%s hist=%d rc=%d" % (V, blk, hist, rc)); bad = 1
            elif "-1" in out or not out.endswith(", 0]"):
                # oracle: one rectangular object -> hull = its 1..4 corners, the duplicate request gets 0 points
                print("VIOLATION (garbage result): V=%d block=%s hist=%d -> %s" % (V, blk, hist, out)); bad = 1
    if bad and any(len(v) > 1 for v in seen.values()):
        break
for k, v in seen.items():
    if len(v) > 1:
        print("VIOLATION (same call, same input, different results depending on process history):", k, sorted(v)); bad = 1
sys.exit(bad)
