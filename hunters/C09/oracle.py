import numpy as np, sys, copy
sys.path.insert(0, '/tmp/hunt-C09')
import centrosome.filter as F

MODELS = {'vel': F.velocity_kalman_model, 'rev': F.reverse_velocity_kalman_model, 'static': F.static_kalman_model}

class Feat(object):
    def __init__(self, x, P):
        self.x = x; self.P = P; self.corr = []

def oracle_step(feats, H, A, old_indices, coords, q, r):
    """feats: list of Feat (prev frame). returns list of Feat for new frame."""
    out = []
    H = H.astype(float); A = A.astype(float)
    for k, oi in enumerate(old_indices):
        if oi == -1:
            x = H.T.dot(coords[k].astype(float))
            obs = H.T.dot(np.ones(H.shape[0])) != 0
            P = np.diag(np.where(obs, 1.0, 2000.0))
            out.append(Feat(x, P))
        else:
            f = feats[oi]
            xp = A.dot(f.x)
            Pp = A.dot(f.P).dot(A.T) + q[k]
            S = H.dot(Pp).dot(H.T) + r[k]
            K = Pp.dot(H.T).dot(np.linalg.inv(S))
            c = K.dot(coords[k] - H.dot(xp))
            x = xp + c
            P = (np.eye(len(x)) - K.dot(H)).dot(Pp)
            g = Feat(x, P); g.corr = f.corr + [c]
            out.append(g)
    return out

def snapshot(st):
    d = {}
    for k, v in st.__dict__.items():
        d[k] = v.copy() if isinstance(v, np.ndarray) else copy.deepcopy(v)
    return d

def same_snapshot(a, b):
    if set(a) != set(b): return False
    for k in a:
        if isinstance(a[k], np.ndarray):
            if a[k].shape != b[k].shape or a[k].dtype != b[k].dtype or not np.array_equal(a[k], b[k], equal_nan=True): return False
        elif a[k] != b[k]: return False
    return True

def compare(st, feats, rtol=1e-7, atol=1e-9):
    n = len(feats)
    s = st.state_len
    probs = []
    if st.state_vec.shape != (n, s): probs.append('state_vec shape %s vs n=%d' % (st.state_vec.shape, n)); return probs
    if st.state_cov.shape != (n, s, s): probs.append('state_cov shape %s' % (st.state_cov.shape,)); return probs
    if st.noise_var.shape != (n, s): probs.append('noise_var shape %s' % (st.noise_var.shape,)); return probs
    for k, f in enumerate(feats):
        if not np.allclose(st.state_vec[k], f.x, rtol=rtol, atol=atol): probs.append(('state_vec', k, st.state_vec[k].tolist(), f.x.tolist()))
        if not np.allclose(st.state_cov[k], f.P, rtol=rtol, atol=atol): probs.append(('state_cov', k, st.state_cov[k].tolist(), f.P.tolist()))
        nv = np.ones(s) if len(f.corr) == 0 else np.var(np.array(f.corr), axis=0)
        if not np.allclose(st.noise_var[k], nv, rtol=rtol, atol=atol): probs.append(('noise_var', k, st.noise_var[k].tolist(), nv.tolist()))
        # history: corrections tagged with k
        own = st.state_noise[st.state_noise_idx == k]
        exp = np.array(f.corr).reshape(-1, s)
        if own.shape != exp.shape or not np.allclose(own, exp, rtol=rtol, atol=atol): probs.append(('history', k, own.tolist(), exp.tolist()))
    if len(st.state_noise_idx) and n and (st.state_noise_idx.min() < 0 or st.state_noise_idx.max() >= n): probs.append(('history idx out of range', st.state_noise_idx.tolist()))
    if len(st.state_noise_idx) != sum(len(f.corr) for f in feats): probs.append(('history length', len(st.state_noise_idx), sum(len(f.corr) for f in feats)))
    return probs

def run_history(model, frames, rtol=1e-7, atol=1e-9, check_each=True):
    """frames: list of (old_indices, coords, q, r). returns list of problems"""
    st = MODELS[model]()
    H, A = st.observation_matrix, st.translation_matrix
    feats = []
    allp = []
    for t, (oi, co, q, r) in enumerate(frames):
        snap = snapshot(st)
        args = [np.array(oi).copy(), co.copy(), q.copy(), r.copy()]
        try:
            new = F.kalman_filter(st, oi, co, q, r)
        except Exception as e:
            allp.append((t, 'exception', repr(e))); return allp
        if not same_snapshot(snap, snapshot(st)): allp.append((t, 'input state modified'))
        if not (np.array_equal(args[0], np.array(oi)) and np.array_equal(args[1], co) and np.array_equal(args[2], q) and np.array_equal(args[3], r)):
            allp.append((t, 'input arrays modified'))
        feats = oracle_step(feats, H, A, list(oi), co, q, r)
        p = compare(new, feats, rtol, atol)
        if p: allp.append((t, p)); return allp
        st = new
    return allp

def rand_spd(rng, s, scale=1.0, cond=1.0):
    M = rng.standard_normal((s, s))
    Qm, _ = np.linalg.qr(M)
    ev = scale * np.exp(rng.uniform(0, np.log(cond) if cond > 1 else 0, s))
    P = (Qm * ev).dot(Qm.T)
    return (P + P.T) / 2
