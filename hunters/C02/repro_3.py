# legacy path convex_hull(..., fast=False): TypeError for any label with >=3 outline pixels; wrong label for absent requested labels
import sys, warnings, numpy as np
warnings.simplefilter("ignore")
from centrosome.cpmorphology import convex_hull
bad = []
try:
    pts, counts = convex_hull(np.array([[1, 1], [1, 0]]), [1], fast=False)
    if sorted(map(tuple, pts.tolist())) != [(1, 0, 0), (1, 0, 1), (1, 1, 0)]: bad.append(("wrong", pts.tolist()))
except Exception as e:
    bad.append(("exception on [[1,1],[1,0]], [1]", repr(e)))
try:
    pts, counts = convex_hull(np.array([[1, 2]]), [3, 1], fast=False)
    if counts.tolist() != [0, 1] or pts.tolist() != [[1, 0, 0]]:
        bad.append(("absent label 3 requested on [[1,2]]: expected pts [[1,0,0]] counts [0,1]", pts.tolist(), counts.tolist()))
except Exception as e:
    bad.append(("exception", repr(e)))
if bad:
    print("VIOLATION:", bad); sys.exit(1)
sys.exit(0)
