# int32 overflow of the turn-test cross product in _convex_hull.CONVEX for point lists with coordinates >= 46341
import sys, numpy as np
from centrosome.cpmorphology import convex_hull_ijv
M = 46341  # M*M = 2147488281 > 2**31-1 ; with M = 46340 the result is correct
ijv = np.array([[0, 0, 1], [0, M, 1], [M, M, 1]])
pts, counts = convex_hull_ijv(ijv, np.array([1]))
got = sorted(map(tuple, pts[:, 1:].tolist()))
exp = [(0, 0), (0, M), (M, M)]
ok_small = sorted(map(tuple, convex_hull_ijv(np.array([[0,0,1],[0,M-1,1],[M-1,M-1,1]]), np.array([1]))[0][:,1:].tolist())) == [(0,0),(0,M-1),(M-1,M-1)]
if got != exp or counts.tolist() != [3]:
    print("VIOLATION: triangle", exp, "-> hull", got, "counts", counts.tolist(), "(extreme point (0,%d) dropped; same triangle with M-1 correct: %s)" % (M, ok_small))
    sys.exit(1)
sys.exit(0)
