# a label value >= 2**31 anywhere in the image makes the hull of every OTHER label unobtainable (AssertionError)
import sys, numpy as np
from centrosome.cpmorphology import convex_hull
lab = np.array([[3000000000, 0], [0, 1]], np.uint32)
try:
    pts, counts = convex_hull(lab, [1])
except BaseException as e:
    print("VIOLATION: requesting label 1 fails because of another label's pixel:", repr(e)); sys.exit(1)
if pts.tolist() != [[1, 1, 1]] or counts.tolist() != [1]:
    print("VIOLATION: wrong", pts.tolist(), counts.tolist()); sys.exit(1)
sys.exit(0)
