import numpy as np, itertools, sys
def cross(o,a,b):
    return (a[0]-o[0])*(b[1]-o[1])-(a[1]-o[1])*(b[0]-o[0])
def hull(points):
    """Andrew monotone chain, exact python ints; returns list of extreme points (strict)"""
    pts = sorted(set((int(a),int(b)) for a,b in points))
    if len(pts)<=1: return pts
    lo=[]
    for p in pts:
        while len(lo)>=2 and cross(lo[-2],lo[-1],p)<=0: lo.pop()
        lo.append(p)
    up=[]
    for p in reversed(pts):
        while len(up)>=2 and cross(up[-2],up[-1],p)<=0: up.pop()
        up.append(p)
    return lo[:-1]+up[:-1]
def brute_extreme(points):
    """p is extreme iff it is not a convex combination of others: check not on a segment between two others and not inside/on a triangle of three others"""
    pts = sorted(set((int(a),int(b)) for a,b in points))
    ext=[]
    for p in pts:
        others=[q for q in pts if q!=p]
        bad=False
        for a,b in itertools.combinations(others,2):
            if cross(a,b,p)==0 and min(a[0],b[0])<=p[0]<=max(a[0],b[0]) and min(a[1],b[1])<=p[1]<=max(a[1],b[1]):
                bad=True;break
        if not bad:
            for a,b,c in itertools.combinations(others,3):
                d1=cross(a,b,p);d2=cross(b,c,p);d3=cross(c,a,p)
                if cross(a,b,c)==0: continue
                if (d1>=0 and d2>=0 and d3>=0) or (d1<=0 and d2<=0 and d3<=0):
                    bad=True;break
        if not bad: ext.append(p)
    return ext
def check(points_by_label, indexes, res, counts, sense=[None]):
    """returns None if ok, else message"""
    res=np.asarray(res); counts=np.asarray(counts)
    indexes=list(np.asarray(indexes).ravel())
    if len(counts)!=len(indexes): return "counts len %d != %d"%(len(counts),len(indexes))
    if counts.sum()!=len(res): return "sum counts %d != rows %d"%(counts.sum(),len(res))
    off=0
    for k,lab in enumerate(indexes):
        n=int(counts[k]); rows=res[off:off+n]; off+=n
        pts=points_by_label.get(int(lab),[])
        exp=hull(pts)
        if n and not np.all(rows[:,0]==lab): return "label col wrong for %s: %s"%(lab,rows.tolist())
        got=[(int(a),int(b)) for a,b in rows[:,1:]]
        if sorted(got)!=sorted(exp): return "label %s vertices %s expected %s"%(lab,got,sorted(exp))
        if len(set(got))!=len(got): return "repeated vertex"
        if n>=3:
            signs=set()
            for t in range(n):
                c=cross(got[t],got[(t+1)%n],got[(t+2)%n])
                signs.add(1 if c>0 else (-1 if c<0 else 0))
            if len(signs)!=1 or 0 in signs: return "label %s not strictly convex in order: %s"%(lab,got)
            s=signs.pop()
            if sense[0] is None: sense[0]=s
            elif sense[0]!=s: return "rotation sense differs: %s"%(got,)
    return None
