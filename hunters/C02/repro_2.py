# empty point list with a requested label: ValueError instead of vertex count 0
import sys, numpy as np
from centrosome.cpmorphology import convex_hull_ijv
try:
    pts, counts = convex_hull_ijv(np.zeros((0, 3), np.int32), np.array([1, 2]))
except Exception as e:
    print("VIOLATION: exception on empty point list:", repr(e)); sys.exit(1)
if counts.tolist() != [0, 0] or len(pts) != 0:
    print("VIOLATION: wrong result", pts, counts); sys.exit(1)
sys.exit(0)
