"""C01: same infinite loop, but with a dense 4x4 matrix whose costs are all of one order of magnitude
(about 1e12 .. 1.6e13) -- no 'huge contrast' needed, only values >= ~1e8 that are not exactly representable.
exit 1 = violation present."""
import subprocess, sys
code = r'''
import numpy as np
from centrosome.lapjv import lapjv
M=np.array([[11,10,14,1],[13,2,3,15],[16,3,4,15],[13,2,3,12]],float)
C=M*(1e307*2.0**-980)       # = M*978597832035.6312
i,j=np.mgrid[0:4,0:4]
x,y=lapjv(i.ravel(),j.ravel(),C.ravel(),False,%d)
print(list(x),list(y))
'''
bad = False
for k in (0, 1, 2):
    try:
        p = subprocess.run([sys.executable, "-c", code % k], capture_output=True, text=True, timeout=20)
        print("augmenting_row_reductions=%d -> rc=%s out=%s" % (k, p.returncode, p.stdout.strip()))
        if p.returncode != 0:
            bad = True
    except subprocess.TimeoutExpired:
        print("augmenting_row_reductions=%d -> HANG (no return within 20 s)" % k)
        bad = True
sys.exit(1 if bad else 0)
