"""C01 (borderline): the tracker raises ValueError for a zero-size label image instead of returning the empty map.
exit 1 = exception present."""
import sys, numpy as np
from centrosome.neighmovetrack import NeighbourMovementTracking
A = np.zeros((5, 5), int); A[1:3, 1:3] = 1
bad = False
for a, b in ((np.zeros((0, 0), int), np.zeros((0, 0), int)), (np.zeros((0, 5), int), A), (A, np.zeros((0, 5), int))):
    try:
        r = NeighbourMovementTracking().run_tracking(a, b)
        print(a.shape, b.shape, "->", r)
    except Exception as e:
        print(a.shape, b.shape, "-> EXCEPTION %r (expected: [] , the empty injective map)" % e)
        bad = True
sys.exit(1 if bad else 0)
