"""C01: lapjv never returns (infinite loop in augmenting_row_reduction) on a dense 3x3 problem with finite
non-negative costs, for every augmenting_row_reductions >= 1 (including the default 2).
Run from the library tree:  cd <tree> && python repro_1.py      exit 1 = violation present."""
import subprocess, sys
code = r'''
from centrosome.lapjv import lapjv
i=[0,0,0,1,1,1,2,2,2]; j=[0,1,2,0,1,2,0,1,2]
c=[1e16,0.5,1.0, 1e16,0.5,1.0, 1e16,0.0,0.0]
x,y,u,v=lapjv(i,j,c,True,%d)
print(list(x),list(y))
'''
bad = False
for k in (0, 1, 2, 3):
    try:
        p = subprocess.run([sys.executable, "-c", code % k], capture_output=True, text=True, timeout=20)
        print("augmenting_row_reductions=%d -> rc=%s out=%s" % (k, p.returncode, p.stdout.strip()))
        if p.returncode != 0:
            bad = True
    except subprocess.TimeoutExpired:
        print("augmenting_row_reductions=%d -> HANG (no return within 20 s; expected x=[0,1,2] or [1,0,2], cost 1e16+0.5)" % k)
        bad = True
sys.exit(1 if bad else 0)
