# C07 violation 4: image with rows*cols >= 2**31 (1960 x 1100000 uint8): int32 byte offsets overflow ->
# the last rows of the output are never written (stay 0) and the filter reads/writes ~2 GiB before the arrays.
# Needs ~7 GB RAM and ~15 min.  Uses the direct entry point centrosome._filter.median_filter (wrapper would need ~50 GB).
import sys, time, numpy as np
from centrosome import _filter
R, C, r = 1960, 1100000, 2
def make(R, C):
    d = np.zeros((R, C), np.uint8); d[:, ::3] = 5; d[:, 1::3] = 7; return d
d = make(R, C); d[-1, :] = 9
m = np.ones((R, C), np.uint8); o = np.zeros((R, C), np.uint8)
_filter.median_filter(d, m, o, r, 50)
problems = []
d_ref = make(R, C); d_ref[-1, :] = 9
if not (d == d_ref).all(): problems.append("input data array was modified")
if not (m == 1).all(): problems.append("input mask array was modified")
# reference for the last 12 rows from a crop with 4 rows of context, same columns (first 2000)
crop = d_ref[-16:, :2000].copy(); oc = np.zeros_like(crop)
_filter.median_filter(crop, np.ones_like(crop), oc, r, 50)
badrows = [R - 12 + i for i in range(12) if not (o[R - 12 + i, :1990] == oc[4 + i, :1990]).all()]
if badrows: problems.append("wrong output in rows %s (first 2**31 // C = %d); e.g. observed %s expected %s"
                            % (badrows, 2**31 // C, o[badrows[-1], :8].tolist(), oc[4 + badrows[-1] - (R - 12), :8].tolist()))
if problems:
    print("VIOLATION:", "; ".join(problems)); sys.exit(1)
sys.exit(0)
