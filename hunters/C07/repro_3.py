# C07 violation 3 (borderline domain): non-integer percent is silently truncated to int before the rank formula
import sys, numpy as np
from centrosome.filter import median_filter
d = np.array([[1, 2, 3, 4]], np.uint8)
o = median_filter(d, None, 2, 37.5)
# pixel (0,1): window columns -1..3 -> k=4 ; rank = max(1, floor((4*37.5+50)/100)) = 2 -> value 2
# pixel (0,2): window columns 0..4 -> k=4 -> value 2
exp = 2
if o[0, 1] != exp or o[0, 2] != exp:
    print("VIOLATION: median_filter([[1,2,3,4]],None,2,37.5) =", o.tolist(),
          "expected value 2 at (0,1) and (0,2) (rank floor((4*37.5+50)/100)=2); library used percent=37 -> rank 1")
    sys.exit(1)
sys.exit(0)
