# C07 violation 1: radius 1 -- window is not an octagon centred on the pixel (does not even contain the pixel itself)
import sys, numpy as np
from centrosome.filter import median_filter
d = np.array([[1, 0]], np.uint8)
o = median_filter(d, None, 1, 100)          # percent 100 -> maximum over the window
# any octagon of radius >=1 centred on a pixel contains the pixel and its horizontal neighbours -> [[1,1]]
bad = o.tolist() != [[1, 1]]
d2 = np.array([[0], [0], [1]], np.uint8)
o2 = median_filter(d2, None, 1, 100)        # pixel (2,0) holds the 1 itself -> its max must be 1
bad2 = o2[2, 0] != 1 or o2[1, 0] != 1
if bad or bad2:
    print("VIOLATION radius=1: median_filter([[1,0]],None,1,100) =", o.tolist(), "expected [[1,1]];",
          "median_filter([[0],[0],[1]],None,1,100) =", o2.ravel().tolist(), "expected [*,1,1]")
    sys.exit(1)
sys.exit(0)
