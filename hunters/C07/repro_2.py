# C07 violation 2: segfault on a 1 x 1573243 uint8 image (radius 2): scratch size (columns+2r+1)*2730+... wraps an unsigned int
import sys, subprocess, signal
code = ("import numpy as np; from centrosome.filter import median_filter; "
        "C=1573243; d=(np.arange(C)%7).astype(np.uint8).reshape(1,C); "
        "o=median_filter(d,None,2,50); print('ok',o.shape)")
p = subprocess.run([sys.executable, "-c", code], capture_output=True, text=True)
if p.returncode != 0:
    sig = -p.returncode if p.returncode < 0 else p.returncode
    print("VIOLATION: median_filter on a legal 1x1573243 uint8 image, radius 2, percent 50 died with return code",
          p.returncode, "(signal %s)" % (signal.Signals(sig).name if p.returncode < 0 else "?"), p.stderr[-300:])
    sys.exit(1)
print(p.stdout.strip()); sys.exit(0)
