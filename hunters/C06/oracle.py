import numpy as np
def step(img, table, border):
    img = np.asarray(img).astype(bool)
    h, w = img.shape
    p = np.full((h+2, w+2), bool(border))
    p[1:-1,1:-1] = img
    idx = np.zeros((h,w), int)
    k = 0
    for di in (0,1,2):
        for dj in (0,1,2):
            idx += p[di:di+h, dj:dj+w].astype(int) << k
            k += 1
    return np.asarray(table)[idx].astype(bool)
def oracle(img, table, border, iterations=None, maxit=10000):
    cur = np.asarray(img).astype(bool)
    n = 0
    while iterations is None or n < iterations:
        nxt = step(cur, table, border)
        n += 1
        if np.array_equal(nxt, cur):
            return cur
        cur = nxt
        if n > maxit:
            return None  # non converging
    return cur
