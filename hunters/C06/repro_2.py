# C06: dense >=3x3 kernel casts the integer image to uint8, so a foreground value that is a multiple of 256 reads as background;
# the <3x3 fallback and the index path treat it as foreground
import sys
import numpy as np
from centrosome.cpmorphology import table_lookup
T = (np.arange(512) & 16) != 0                  # identity table ...
T[1] = True                                     # ... made non-erosive so integer images take the plain (dense) path
big = table_lookup(np.full((3, 3), 256, np.int32), T, False, 1)
small = table_lookup(np.full((2, 2), 256, np.int32), T, False, 1)
print('3x3:', np.asarray(big).astype(int).tolist(), '2x2:', np.asarray(small).astype(int).tolist())
if not np.all(np.asarray(big) != 0):
    print('VIOLATION: all-foreground 3x3 image under an identity-on-foreground table must stay all foreground; dense kernel returned background')
    sys.exit(1)
sys.exit(0)
