# C06: index-trick (erosive table, integer image) reads a True border as background when the foreground value is not 1
import sys
import numpy as np
from centrosome.cpmorphology import table_lookup
T = np.zeros(512, bool); T[511] = True          # erosive: keep a pixel only if all nine bits are set
T2 = T.copy(); T2[0] = True                     # same on every pattern that can occur below, but not erosive -> plain path
img = np.array([[255]], np.uint8)               # binary 0/255 image, one foreground pixel
a = table_lookup(img, T, True, 1)               # border_value True -> index 511 -> stays foreground
b = table_lookup(img, T2, True, 1)
ref = table_lookup(img.astype(bool), T, True, 1)
ok = bool(a[0, 0]) and bool(b[0, 0]) and bool(ref[0, 0])
print('index path:', a.tolist(), 'plain path:', b.tolist(), 'bool image:', ref.tolist())
if not ok:
    print('VIOLATION: expected foreground (index 511, table[511]=True) on every path; the sparse-index path on the uint8 image returned background')
    sys.exit(1)
sys.exit(0)
