# euler_number silently truncates requested labels to int32: labels >= 2**31 (valid in uint32/int64 label images)
# get Euler number 0 (or the Euler number of ANOTHER label after wrap-around) instead of their own.
import sys, warnings; sys.path.insert(0, '/tmp/hunt-C15')
import numpy as np
from centrosome.cpmorphology import euler_number
warnings.simplefilter("ignore")
bad = False
lab = np.array([[3000000000, 0, 1]], dtype=np.uint32)
r = euler_number(lab, np.array([3000000000, 1], dtype=np.uint32))
if list(r) != [1.0, 1.0]:
    print("VIOLATION: uint32 image, labels [3000000000,1]: got %r expected [1. 1.]" % (r,)); bad = True
# wrap-around aliasing: label 2**32+1 is one solid pixel (Euler 1); label 1 is a ring with a hole (Euler 0)
lab2 = np.array([[2**32 + 1, 0, 0], [0, 0, 0], [1, 1, 1], [1, 0, 1], [1, 1, 1]], dtype=np.int64)
r2 = euler_number(lab2, np.array([2**32 + 1]))
if list(r2) != [1.0]:
    print("VIOLATION: int64 image, label 2**32+1: got %r expected [1.] (value of label 1 returned)" % (r2,)); bad = True
lab3 = np.array([[2**32 + 1]], dtype=np.int64)
r3 = euler_number(lab3, np.array([1]))
sys.exit(1 if bad else 0)
