# euler_number raises TypeError when the label index is a NumPy integer scalar (e.g. labels.max()) or 0-d array
import sys; sys.path.insert(0, '/tmp/hunt-C15')
import numpy as np
from centrosome.cpmorphology import euler_number
lab = np.array([[1, 0], [0, 2]])
ok = euler_number(lab, 2)            # python int works -> [1.]
try:
    r = euler_number(lab, lab.max())  # np.int64(2)
except Exception as e:
    print("VIOLATION: euler_number(lab, np.int64(2)) raised %r; with python int 2 it returns %r" % (e, ok))
    sys.exit(1)
if float(np.ravel(r)[0]) != 1.0:
    print("VIOLATION: wrong value", r); sys.exit(1)
sys.exit(0)
