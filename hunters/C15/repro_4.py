# relabel allocates a lookup table of size max(label)+1: a sparse label image with one huge label cannot be relabelled
import sys; sys.path.insert(0, '/tmp/hunt-C15')
import numpy as np
from centrosome.cpmorphology import relabel
img = np.array([[10**12, 0, 5]], dtype=np.int64)
try:
    new, n = relabel(img)
except BaseException as e:
    print("VIOLATION: relabel([[10**12,0,5]]) raised %r; expected ([[2,0,1]], 2)" % (e,))
    sys.exit(1)
if n != 2 or not np.array_equal(new, [[2, 0, 1]]):
    print("VIOLATION: wrong", new, n); sys.exit(1)
sys.exit(0)
