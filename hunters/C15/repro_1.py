# relabel raises TypeError on a uint64 label image (NumPy 1.x: uint64.max()+1 promotes to float64)
import sys; sys.path.insert(0, '/tmp/hunt-C15')
import numpy as np
from centrosome.cpmorphology import relabel
img = np.array([[2, 0], [0, 5]], dtype=np.uint64)
try:
    new, n = relabel(img)
except Exception as e:
    print("VIOLATION: relabel(uint64 label image) raised %r; expected ([[1,0],[0,2]], 2)" % (e,))
    sys.exit(1)
if n != 2 or not np.array_equal(new, [[1, 0], [0, 2]]):
    print("VIOLATION: wrong result", new, n); sys.exit(1)
sys.exit(0)
