# find_neighbors / color_labels raise ValueError on a zero-size label image (euler_number and relabel accept it)
import sys; sys.path.insert(0, '/tmp/hunt-C15')
import numpy as np
from centrosome.cpmorphology import find_neighbors, color_labels
bad = False
for shp in [(0, 0), (0, 3), (3, 0)]:
    z = np.zeros(shp, int)
    for f in (find_neighbors, color_labels):
        try:
            f(z)
        except Exception as e:
            print("VIOLATION: %s(np.zeros(%r,int)) raised %r; expected empty result" % (f.__name__, shp, e)); bad = True
sys.exit(1 if bad else 0)
