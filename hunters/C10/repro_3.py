"""C10 violation 3: infinite loop when the ground-distance matrix contains INT32_MAX (maxC+1 overflows for the artificial arcs); true optimum is 1.
Exits 1 (and prints what is wrong) when the violation is present, 0 otherwise.
Run: cd <tree> && /venv/bin/python repro_3.py      (tree defaults to cwd; or pass the tree dir as argv[1])"""
import subprocess, sys, os
tree = sys.argv[1] if len(sys.argv) > 1 else os.getcwd()
CODE = """
import numpy as np
from centrosome.fastemd import *
I = np.int32
p=np.array([1],I); q=np.array([1,0],I); c=np.array([[1,2147483647]],I)
print(repr(emd_hat_int32(p,q,c)))
"""
EXPECTED = '1'
try:
    r = subprocess.run([sys.executable, "-c", CODE], cwd=tree, capture_output=True, text=True, timeout=20)
except subprocess.TimeoutExpired:
    print("VIOLATION: call did not return within 20 s (hang); expected result", EXPECTED)
    sys.exit(1)
if r.returncode != 0:
    print("VIOLATION: child exited with", r.returncode, "(negative = killed by signal)", r.stderr[-300:])
    sys.exit(1)
out = r.stdout.strip()
if out != EXPECTED:
    print("VIOLATION: observed", out, "expected", EXPECTED)
    sys.exit(1)
print("ok:", out)
sys.exit(0)
