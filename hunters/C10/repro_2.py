"""C10 violation 2: infinite loop for large (but < INT32_MAX) ground distances; true optimum 2000000000 fits int32.
Exits 1 (and prints what is wrong) when the violation is present, 0 otherwise.
Run: cd <tree> && /venv/bin/python repro_2.py      (tree defaults to cwd; or pass the tree dir as argv[1])"""
import subprocess, sys, os
tree = sys.argv[1] if len(sys.argv) > 1 else os.getcwd()
CODE = """
import numpy as np
from centrosome.fastemd import *
I = np.int32
p=np.array([1,1],I); q=np.array([1,1],I); c=np.array([[1000000000,2000000000],[1000000000,1000000000]],I)
print(repr(emd_hat_int32(p,q,c)))
"""
EXPECTED = '2000000000'
try:
    r = subprocess.run([sys.executable, "-c", CODE], cwd=tree, capture_output=True, text=True, timeout=20)
except subprocess.TimeoutExpired:
    print("VIOLATION: call did not return within 20 s (hang); expected result", EXPECTED)
    sys.exit(1)
if r.returncode != 0:
    print("VIOLATION: child exited with", r.returncode, "(negative = killed by signal)", r.stderr[-300:])
    sys.exit(1)
out = r.stdout.strip()
if out != EXPECTED:
    print("VIOLATION: observed", out, "expected", EXPECTED)
    sys.exit(1)
print("ok:", out)
sys.exit(0)
