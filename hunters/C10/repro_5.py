"""C10 violation 5: declaring a metric as metric changes the result (mass sum overflow only hits the non-metric path): prints (non-metric, metric); true value 1 for both.
Exits 1 (and prints what is wrong) when the violation is present, 0 otherwise.
Run: cd <tree> && /venv/bin/python repro_5.py      (tree defaults to cwd; or pass the tree dir as argv[1])"""
import subprocess, sys, os
tree = sys.argv[1] if len(sys.argv) > 1 else os.getcwd()
CODE = """
import numpy as np
from centrosome.fastemd import *
I = np.int32
p=np.array([1073741824,1073741824],I); q=np.array([1073741824,1073741823],I); c=np.array([[0,1],[1,0]],I)
print(repr((emd_hat_int32(p,q,c), emd_hat_int32(p,q,c,gd_metric=True))))
"""
EXPECTED = '(1, 1)'
try:
    r = subprocess.run([sys.executable, "-c", CODE], cwd=tree, capture_output=True, text=True, timeout=20)
except subprocess.TimeoutExpired:
    print("VIOLATION: call did not return within 20 s (hang); expected result", EXPECTED)
    sys.exit(1)
if r.returncode != 0:
    print("VIOLATION: child exited with", r.returncode, "(negative = killed by signal)", r.stderr[-300:])
    sys.exit(1)
out = r.stdout.strip()
if out != EXPECTED:
    print("VIOLATION: observed", out, "expected", EXPECTED)
    sys.exit(1)
print("ok:", out)
sys.exit(0)
