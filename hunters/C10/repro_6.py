"""C10 violation 6: segfault when both histograms are empty and a flow is requested (vf[0] on an empty vector).
Exits 1 (and prints what is wrong) when the violation is present, 0 otherwise.
Run: cd <tree> && /venv/bin/python repro_6.py      (tree defaults to cwd; or pass the tree dir as argv[1])"""
import subprocess, sys, os
tree = sys.argv[1] if len(sys.argv) > 1 else os.getcwd()
CODE = """
import numpy as np
from centrosome.fastemd import *
I = np.int32
p=np.zeros(0,I); q=np.zeros(0,I); c=np.zeros((0,0),I)
print(repr(emd_hat_int32(p,q,c,flow_type=EMD_WITHOUT_EXTRA_MASS_FLOW)[0]))
"""
EXPECTED = '0'
try:
    r = subprocess.run([sys.executable, "-c", CODE], cwd=tree, capture_output=True, text=True, timeout=20)
except subprocess.TimeoutExpired:
    print("VIOLATION: call did not return within 20 s (hang); expected result", EXPECTED)
    sys.exit(1)
if r.returncode != 0:
    print("VIOLATION: child exited with", r.returncode, "(negative = killed by signal)", r.stderr[-300:])
    sys.exit(1)
out = r.stdout.strip()
if out != EXPECTED:
    print("VIOLATION: observed", out, "expected", EXPECTED)
    sys.exit(1)
print("ok:", out)
sys.exit(0)
