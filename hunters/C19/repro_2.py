#!/usr/bin/env python
"""C19 violation 2: centrosome.fastemd.emd_hat_int32 dereferences a NULL pointer (SIGSEGV) when
both histograms are empty and a flow matrix is requested.

_fastemd.pyx, after the solver returns:
    if plen < vf.size(): vf.resize(plen)
    if qlen < vf[0].size(): ...          # vf is an EMPTY std::vector when plen == qlen == 0
vf[0] on an empty vector reads through begin()==NULL (address 0x8).

Run:  cd <tree> && /venv/bin/python repro_2.py      (exit 1 = violation present)
"""
import os, sys, signal
sys.path.insert(0, os.getcwd())
import warnings; warnings.filterwarnings("ignore")
import numpy as np

def run_forked(flow_name):
    pid = os.fork()
    if pid == 0:
        import centrosome.fastemd as E
        p = np.zeros(0, np.int32); q = np.zeros(0, np.int32); c = np.zeros((0, 0), np.int32)
        try:
            E.emd_hat_int32(p, q, c, None, getattr(E, flow_name))
        except (ValueError, AssertionError, IndexError):
            os._exit(0)          # a Python exception would be acceptable
        os._exit(0)
    _, status = os.waitpid(pid, 0)
    return status

bad = False
for flow_name in ("EMD_NO_FLOW", "EMD_WITHOUT_TRANSHIPMENT_FLOW", "EMD_WITHOUT_EXTRA_MASS_FLOW"):
    st = run_forked(flow_name)
    if os.WIFSIGNALED(st):
        print("VIOLATION: emd_hat_int32([], [], zeros((0,0)), None, %s) killed by signal %d (%s)"
              % (flow_name, os.WTERMSIG(st), signal.Signals(os.WTERMSIG(st)).name))
        bad = True
    else:
        print("ok: %s exit status %d" % (flow_name, st))
sys.exit(1 if bad else 0)
