#!/usr/bin/env python
"""C19 violation 1: centrosome.filter.median_filter writes far outside its scratch buffer
(wild heap write -> SIGSEGV) for an image with >= 1,573,245 columns (radius 1).

_filter.pyx allocate_histograms() computes the scratch size in a 32-bit `unsigned int`:
    memory_size = adjusted_stripe_length * (sizeof(Histogram)+sizeof(PixelCount)) + sizeof(Histograms) + 32
                = (columns + 2*radius + 1) * 2730 + 856
which wraps modulo 2**32 once columns + 2*radius + 1 >= 1,573,248.  malloc() then gets a tiny
size (~1.3 KB) while the kernel indexes pixel_count[] / histogram[] for the full stripe.

Run:  cd <tree> && /venv/bin/python repro_1.py      (exit 1 = violation present)
"""
import os, sys, signal
sys.path.insert(0, os.getcwd())
import warnings; warnings.filterwarnings("ignore")
import numpy as np

def call(ncols):
    from centrosome.filter import median_filter
    data = np.zeros((1, ncols), np.uint8)
    data[0, ::2] = 7
    out = median_filter(data, None, 1, 50)
    assert out.shape == data.shape

def run_forked(ncols):
    pid = os.fork()
    if pid == 0:
        try:
            call(ncols)
        except MemoryError:
            os._exit(0)          # a clean MemoryError would be acceptable behaviour
        except BaseException as e:
            sys.stderr.write("exception: %r\n" % (e,))
            os._exit(2)
        os._exit(0)
    _, status = os.waitpid(pid, 0)
    return status

bad = False
for ncols in (1573245,):
    st = run_forked(ncols)
    if os.WIFSIGNALED(st):
        print("VIOLATION: median_filter(zeros((1,%d),uint8), None, radius=1, percent=50) killed by signal %d (%s)"
              % (ncols, os.WTERMSIG(st), signal.Signals(os.WTERMSIG(st)).name))
        bad = True
    elif st != 0:
        print("unexpected exit status %d for ncols=%d" % (st, ncols))
        bad = True
    else:
        print("ok: ncols=%d returned normally" % ncols)
sys.exit(1 if bad else 0)
