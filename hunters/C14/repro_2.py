"""C14 violation 2: feret_diameter squares int32 hull coordinate differences (np.sum((pt1 - pt2) ** 2, 1) on the int32
hull returned by convex_hull), so the maximum Feret diameter of any object whose length is >= 46341 pixels
overflows: NaN for a straight line of 46342 pixels, a silently wrong number for 70000 pixels."""
import sys, os, math, warnings
sys.path.insert(0, os.getcwd())
import numpy as np
import centrosome.cpmorphology as morph

warnings.simplefilter("ignore")
bad = []
for N in (46342, 70000):
    labels = np.ones((1, N), np.uint8)            # one object: a horizontal line of N collinear pixels
    hull, counts = morph.convex_hull(labels, [1])  # -> [[1,0,0],[1,0,N-1]], int32
    mn, mx = morph.feret_diameter(hull, counts, [1])
    if not abs(mx[0] - (N - 1)) <= 1e-6:
        bad.append("1 x %d line: max Feret diameter %r, expected %d (hull %r)" % (N, mx[0], N - 1, hull.tolist()))
# two-pixel object
labels = np.zeros((1, 46342), np.uint8); labels[0, 0] = labels[0, -1] = 1
hull, counts = morph.convex_hull(labels, [1])
mn, mx = morph.feret_diameter(hull, counts, [1])
if not abs(mx[0] - 46341) <= 1e-6:
    bad.append("two pixels (0,0),(0,46341): max Feret diameter %r, expected 46341" % mx[0])
if bad:
    print("VIOLATION:\n  " + "\n  ".join(bad)); sys.exit(1)
print("ok")
