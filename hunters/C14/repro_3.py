"""C14 violation 3: the circumcentre in minimum_enclosing_circle (case 2) is computed from ABSOLUTE coordinates
(sum(p**2) * difference), which stops being exact once coordinate**2 exceeds 2**53. A 2x2 square (four co-circular
vertices) at the right end of a 2 x 100000000 image gets radius 0 and a centre on one of its corners.
Needs ~2 GB RAM, a few seconds."""
import sys, os, math
sys.path.insert(0, os.getcwd())
import numpy as np
import centrosome.cpmorphology as morph

N = 100000000
labels = np.zeros((2, N), np.uint8)
labels[0:2, N - 2:N] = 1
centers, radii = morph.minimum_enclosing_circle(labels, [1])
ci, cj, r = centers[0, 0], centers[0, 1], radii[0]
pix = [(0, N - 2), (0, N - 1), (1, N - 2), (1, N - 1)]
worst = max(math.hypot(i - ci, j - cj) - r for i, j in pix)
if worst > 1e-6 or abs(r - math.sqrt(0.5)) > 1e-6:
    print("VIOLATION: MEC centre=(%r,%r) r=%r; expected centre=(0.5,%r) r=%r; a pixel centre is %.4f outside the circle"
          % (ci, cj, r, N - 1.5, math.sqrt(0.5), worst))
    sys.exit(1)
print("ok")
