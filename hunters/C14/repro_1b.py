"""C14 violation 1, light-weight variant (no 2 GB image): same three pixels given as ijv to convex_hull_ijv (the
function convex_hull(labels, indexes) calls after extracting outline pixels), then fed to
minimum_enclosing_circle(..., hull_and_point_count=...), feret_diameter and fill_convex_hulls."""
import sys, os, math
sys.path.insert(0, os.getcwd())
import numpy as np
import centrosome.cpmorphology as morph

N = 46400
pix = [(0, 0), (N - 1, 0), (N - 1, N - 1)]
ijv = np.array([(i, j, 1) for i, j in pix])
hull, counts = morph.convex_hull_ijv(ijv, [1])
centers, radii = morph.minimum_enclosing_circle(None, [1], hull_and_point_count=(hull, counts))
ci, cj, r = centers[0, 0], centers[0, 1], radii[0]
worst = max(math.hypot(i - ci, j - cj) - r for i, j in pix)
bad = []
if counts[0] != 3:
    bad.append("convex hull has %d vertices %r, expected the 3 pixels" % (counts[0], hull.tolist()))
if worst > 1e-6:
    bad.append("MEC centre=(%r,%r) r=%r leaves a pixel centre %.3f outside; expected centre=(%r,%r) r=%r"
               % (ci, cj, r, worst, (N - 1) / 2.0, (N - 1) / 2.0, (N - 1) * math.sqrt(2) / 2))
# whole-image square blob: its 4 corners
sq = np.array([(0, 0, 1), (0, N - 1, 1), (N - 1, 0, 1), (N - 1, N - 1, 1)])
h2, c2 = morph.convex_hull_ijv(sq, [1])
if c2[0] != 4:
    bad.append("hull of the 4 corners of a %dx%d square has %d vertices %r" % (N, N, c2[0], h2.tolist()))
if bad:
    print("VIOLATION:\n  " + "\n  ".join(bad)); sys.exit(1)
print("ok")
