"""C14 violation 1: int32 overflow of the cross product in _convex_hull.CONVEX drops a true hull vertex of a
large object, so minimum_enclosing_circle(labels, [1]) returns a circle that does not contain the object
(and feret_diameter / fill_convex_hulls fed with that hull are wrong too).
Needs ~12 GB RAM and about a minute (labels image 46400 x 46400, uint8)."""
import sys, os, math
sys.path.insert(0, os.getcwd())  # run as: cd <tree> && /venv/bin/python /tmp/hunt-C14.out/repro_1.py
import numpy as np
import centrosome.cpmorphology as morph

N = 46400
labels = np.zeros((N, N), np.uint8)
pix = [(0, 0), (N - 1, 0), (N - 1, N - 1)]          # one object made of three pixels (corners of a right triangle)
for i, j in pix:
    labels[i, j] = 1
centers, radii = morph.minimum_enclosing_circle(labels, [1])
hull, counts = morph.convex_hull(labels, [1])
mn, mx = morph.feret_diameter(hull, counts, [1])
ijv = morph.fill_convex_hulls(hull, counts)
ci, cj, r = centers[0, 0], centers[0, 1], radii[0]
exp_c = ((N - 1) / 2.0, (N - 1) / 2.0)
exp_r = (N - 1) * math.sqrt(2) / 2
worst = max(math.hypot(i - ci, j - cj) - r for i, j in pix)
bad = []
if worst > 1e-6:
    bad.append("MEC centre=(%r,%r) r=%r leaves a pixel centre %.3f outside the circle; expected centre=%r r=%r"
               % (ci, cj, r, worst, exp_c, exp_r))
if not abs(mx[0] - (N - 1) * math.sqrt(2)) <= 1e-6:
    bad.append("max Feret %r, expected %r" % (mx[0], (N - 1) * math.sqrt(2)))
if not abs(mn[0] - (N - 1) / math.sqrt(2)) <= 1e-6:
    bad.append("min Feret %r, expected %r" % (mn[0], (N - 1) / math.sqrt(2)))
exp_fill = N * (N + 1) // 2
if len(ijv) != exp_fill:
    bad.append("hull fill has %d points, expected %d" % (len(ijv), exp_fill))
if counts[0] != 3:
    bad.append("convex_hull returned %d vertices %r, expected the 3 pixels" % (counts[0], hull.tolist()))
if bad:
    print("VIOLATION:\n  " + "\n  ".join(bad))
    sys.exit(1)
print("ok")
