"""C05 violation 2 (borderline): binary_shrink / thin do nothing at all on a two-valued (binary) integer image
whose foreground value is a multiple of 2**32 (e.g. int64 0 / 4294967296, or 0 / int64.min): the padded work image
is cast to uint32, the foreground wraps to 0 == background, every neighbourhood looks like 'all equal to centre'
and no pixel is ever removed.  A hole-free 2x2 object is therefore not reduced to a single pixel.
Run as: cd <tree> && /venv/bin/python repro_2.py      exits 1 when the violation is present."""
import sys, os, warnings
warnings.filterwarnings("ignore")
sys.path.insert(0, os.getcwd())
import numpy as np
from centrosome.cpmorphology import thin, binary_shrink
b = np.array([[1, 1, 1], [1, 1, 1], [1, 1, 1]], bool)
ref_s = binary_shrink(b); ref_t = thin(b, iterations=None)
assert ref_s.sum() == 1
bad = []
for v in (2 ** 32, -2 ** 63):
    img = np.where(b, v, 0).astype(np.int64)
    s = binary_shrink(img); t = thin(img, iterations=None)
    if (s != 0).sum() != 1:
        bad.append("binary_shrink(int64 0/%d 3x3 block) left %d pixels, expected 1" % (v, (s != 0).sum()))
    if not np.array_equal(t != 0, ref_t):
        bad.append("thin(int64 0/%d 3x3 block) left %d pixels, bool input leaves %d" % (v, (t != 0).sum(), ref_t.sum()))
if bad:
    print("\n".join(bad)); sys.exit(1)
print("ok"); sys.exit(0)
