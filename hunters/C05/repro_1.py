"""C05 violation 1: skeletonize raises on every binary image that is not of dtype bool
(0/1 uint8, int, float, 0/255 uint8 ...), although thin / binary_shrink accept the same arrays and
skeletonize itself accepts them when a mask is passed (that path does image.astype(bool)).
Run as: cd <tree> && /venv/bin/python repro_1.py      exits 1 when the violation is present."""
import sys, os, warnings
warnings.filterwarnings("ignore")
sys.path.insert(0, os.getcwd())
import numpy as np
from centrosome.cpmorphology import skeletonize, thin, binary_shrink

b = np.array([[0, 0, 0, 0, 0],
              [0, 1, 1, 1, 0],
              [0, 1, 1, 1, 0],
              [0, 1, 1, 1, 0],
              [0, 0, 0, 0, 0]], bool)
expected = skeletonize(b)            # bool input works
bad = []
for label, img in [("uint8 0/1", b.astype(np.uint8)), ("int64 0/1", b.astype(np.int64)),
                   ("float64 0/1", b.astype(float)), ("uint8 0/255", b.astype(np.uint8) * 255),
                   ("uint8 1x1 [[1]]", np.array([[1]], np.uint8))]:
    # the same arrays are legal for the two sibling functions
    thin(img, iterations=None); binary_shrink(img)
    try:
        r = skeletonize(img)
    except Exception as e:
        bad.append("skeletonize(%s) raised %s: %s" % (label, type(e).__name__, e))
        continue
    if img.shape == b.shape and not np.array_equal(np.asarray(r) != 0, expected):
        bad.append("skeletonize(%s) differs from the bool result" % label)
# with a mask the very same uint8 image is accepted:
r = skeletonize(b.astype(np.uint8), mask=np.ones(b.shape, bool))
assert np.array_equal(r != 0, expected)
if bad:
    print("\n".join(bad)); sys.exit(1)
print("ok"); sys.exit(0)
