"""C05 violation 3 (borderline): skeletonize_labels raises on a zero-size label image (shape (0,N) / (N,0) / (0,0)),
while skeletonize, thin and binary_shrink all return an empty array of the same shape.
Run as: cd <tree> && /venv/bin/python repro_3.py      exits 1 when the violation is present."""
import sys, os, warnings
warnings.filterwarnings("ignore")
sys.path.insert(0, os.getcwd())
import numpy as np
from centrosome.cpmorphology import skeletonize, thin, binary_shrink, skeletonize_labels
bad = []
for shp in [(0, 5), (5, 0), (0, 0)]:
    e = np.zeros(shp, bool)
    assert skeletonize(e).shape == shp and thin(e, iterations=None).shape == shp and binary_shrink(e).shape == shp
    try:
        r = skeletonize_labels(np.zeros(shp, int))
        if r.shape != shp: bad.append("shape %r -> %r" % (shp, r.shape))
    except Exception as ex:
        bad.append("skeletonize_labels(np.zeros(%r, int)) raised %s: %s" % (shp, type(ex).__name__, ex))
if bad:
    print("\n".join(bad)); sys.exit(1)
print("ok"); sys.exit(0)
