"""C12 (first clause): masked grey_erosion / grey_dilation (and opening, closing, white_tophat, black_tophat,
openlines built on them) do NOT compute the result inside the mask from masked-in pixels only.
Masked-out pixels are replaced by the constant 1 (erosion) / 0 (dilation) and then take part in the min / max like
any other pixel.  1 / 0 are neutral elements only for images confined to [0,1]; for any other image (uint8 0..255,
raw 12/16-bit counts, negative values ...) a value that occurs in NO masked-in pixel appears inside the mask.
Oracle = brute-force min / max over the masked-in pixels under the 3x3 footprint.
Only the interior pixel (3,3) of a 7x7 image is checked so that the image border plays no part.
Exit 1 when the violation is present."""
import sys
sys.path.insert(0, "/tmp/hunt-C12b")
import numpy as np
import centrosome.cpmorphology as M


def oracle_at(image, mask, i, j, red):
    h, w = image.shape
    return red([image[y, x] for y in range(max(0, i - 1), min(h, i + 2)) for x in range(max(0, j - 1), min(w, j + 2))
                if mask[y, x]])


bad = 0
mask = np.ones((7, 7), bool)
mask[2:5, 2:5] = False      # a masked-out ring ...
mask[3, 3] = True           # ... around the isolated masked-in probe pixel (3,3)
P = (3, 3)

tests = [
    ("grey_erosion", M.grey_erosion, np.full((7, 7), 5.0), min),
    ("grey_dilation", M.grey_dilation, np.full((7, 7), -5.0), max),
    ("opening", M.opening, np.full((7, 7), 200, np.uint8), lambda v: v[0]),        # opening of a constant = constant
    ("closing", M.closing, np.full((7, 7), -5.0), lambda v: v[0]),                 # closing of a constant = constant
    ("white_tophat", M.white_tophat, np.full((7, 7), 200, np.uint8), lambda v: 0),  # tophat of a constant = 0
    ("black_tophat", M.black_tophat, np.full((7, 7), -5.0), lambda v: 0),
]
for name, f, image, red in tests:
    got = f(image, mask=mask)[P]
    exp = oracle_at(image, mask, P[0], P[1], red)
    nomask = f(image, mask=np.ones((7, 7), bool))[P]
    if got != exp:
        bad += 1
        print("%s(constant image %r, mask = all True except the 8 neighbours of (3,3)): output at masked-in pixel (3,3) = %r, "
              "oracle from masked-in pixels only = %r (all-True mask gives %r)" % (name, image[0, 0], got, exp, nomask))
img = np.full((15, 15), 7.0)
m2 = np.ones((15, 15), bool); m2[7, 6] = m2[7, 8] = False
got = M.openlines(img, linelength=3, dAngle=90, mask=m2)[7, 7]
ref = M.openlines(img, linelength=3, dAngle=90, mask=np.ones((15, 15), bool))[7, 7]
if got != 0:
    bad += 1
    print("openlines(constant 7 image, linelength=3, dAngle=90, mask = all True except (7,6),(7,8)): output at masked-in "
          "pixel (7,7) = %r; every opening of a constant image is that constant, so max-min over angles must be 0 "
          "(all-True mask gives %r)" % (got, ref))
sys.exit(1 if bad else 0)
