"""C12 (first clause, iterations>=2): in bridge / diag / thicken / majority a masked-out pixel is only forced to
background ONCE, before the first iteration.  It is then evolved by the table like any other pixel, can switch on,
and from the second iteration on it is a live neighbour of masked-in pixels.  The masked-in result therefore is not
computed from masked-in pixels only (the masked-out pixel is 0 in the input, 0 in the returned array, and still
makes a masked-in pixel switch on).
Oracle: iterate one step at a time, re-applying the mask (masked-out := background) before every step.
Exit 1 when the violation is present."""
import sys
sys.path.insert(0, "/tmp/hunt-C12b")
import numpy as np
import centrosome.cpmorphology as M


def oracle(f, image, mask, iterations):
    cur = image.copy()
    for _ in range(iterations):
        x = cur.copy()
        x[~mask] = False
        cur = f(x, mask, 1)
    return cur


bad = 0
cases = [
    ("thicken", np.array([[1, 0, 0]], bool), np.array([[1, 0, 1]], bool)),
    ("majority", np.array([[1, 1, 1], [1, 1, 1], [1, 0, 1]], bool), np.array([[1, 1, 1], [1, 1, 1], [1, 0, 1]], bool)),
    ("diag", np.array([[0, 1, 0], [0, 0, 1], [1, 0, 0]], bool), np.array([[1, 1, 1], [1, 0, 1], [1, 1, 1]], bool)),
]
for name, image, mask in cases:
    f = getattr(M, name)
    got = f(image, mask, 2)
    exp = oracle(f, image, mask, 2)
    one = f(image, mask, 1)
    if not np.array_equal(got[mask], exp[mask]):
        bad += 1
        print("%s(image, mask, iterations=2)\nimage=\n%s\nmask=\n%s\nlibrary=\n%s\nmasked-out-never-participates oracle=\n%s\n(iterations=1 gives\n%s)\n"
              % (name, image.astype(int), mask.astype(int), got.astype(int), exp.astype(int), one.astype(int)))
sys.exit(1 if bad else 0)
