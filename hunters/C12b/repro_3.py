"""Not mask-specific (reported for completeness): median_filter(data, mask, radius=1, ...) returns wrong values for
every mask, including the all-True one.  allocate_histograms() sizes its circular histogram buffer from the
requested radius (columns + 2*1 + 1) and only afterwards bumps radius 1 -> 2, so column histograms alias.
The library's own impulse response shows that radius 1 uses the 21-pixel octagon (5x5 minus corners); the
brute-force masked median over that footprint disagrees with the library, and the library even returns a value
(4) that lies outside the footprint of the centre pixel.   radius >= 2: 14 000+ masked oracle checks all agree.
Exit 1 when the violation is present."""
import sys
sys.path.insert(0, "/tmp/hunt-C12b")
import numpy as np
import centrosome.filter as F

data = np.arange(25, dtype=np.uint8).reshape(5, 5)
mask = np.ones((5, 5), bool)
offs = [(i, j) for i in range(-2, 3) for j in range(-2, 3) if abs(i) + abs(j) < 4]
exp = np.zeros((5, 5), np.uint8)
for i in range(5):
    for j in range(5):
        v = sorted(data[i + a, j + b] for a, b in offs if 0 <= i + a < 5 and 0 <= j + b < 5 and mask[i + a, j + b])
        pb = (len(v) * 50 + 50) // 100
        pb = max(pb - 1, 0)
        exp[i, j] = v[pb]
got = F.median_filter(data, mask, 1, 50)
if not np.array_equal(got, exp):
    print("median_filter(arange(25).reshape(5,5) as uint8, all-True mask, radius=1, percent=50)\nlibrary=\n%s\nbrute force=\n%s\nradius=2 (same footprint) gives\n%s"
          % (got, exp, F.median_filter(data, mask, 2, 50)))
    sys.exit(1)
sys.exit(0)
