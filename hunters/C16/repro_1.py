# C16: draw_line (scalar rasteriser) with unsigned-integer end points: abs(y1-y0)/abs(x1-x0) wrap around,
# so the major axis / remainder are wrong; the line does not reach its end point and differs from get_line_pts.
import sys, warnings
import numpy as np
from centrosome.cpmorphology import draw_line, get_line_pts
warnings.simplefilter("ignore")
p0 = np.array([0, 1], np.uint8); p1 = np.array([1, 0], np.uint8)
img = np.zeros((2, 2), int)
draw_line(img, p0, p1)
_, cnt, i, j = get_line_pts(p0[:1], p0[1:], p1[:1], p1[1:])
exp = np.zeros((2, 2), int); exp[i, j] = 1          # vectorised result: (0,1),(1,0)
ref = np.zeros((2, 2), int); draw_line(ref, (0, 1), (1, 0))   # same call with python ints
bad = False
if img[1, 0] != 1:
    print("end point (1,0) not drawn; image =", img.tolist()); bad = True
if int(img.sum()) != max(1, 1) + 1 or (img != exp).any() or (img != ref).any():
    print("draw_line(uint8 pts) =", img.tolist(), " get_line_pts =", exp.tolist(), " draw_line(python ints) =", ref.tolist()); bad = True
sys.exit(1 if bad else 0)
