# C16: draw_line with uint64 end points raises on a legal line (uint64 + python -1 -> float64 index),
# after the same unsigned wrap-around of abs(x1-x0) as in repro_1.
import sys, warnings
import numpy as np
from centrosome.cpmorphology import draw_line
warnings.simplefilter("ignore")
img = np.zeros((2, 2), int)
try:
    draw_line(img, np.array([0, 1], np.uint64), np.array([1, 0], np.uint64))
except Exception as e:
    print("exception on legal input:", repr(e)); sys.exit(1)
ref = np.zeros((2, 2), int); draw_line(ref, (0, 1), (1, 0))
if (img != ref).any():
    print("wrong pixels", img.tolist(), "expected", ref.tolist()); sys.exit(1)
sys.exit(0)
