# C17 / regional_maximum(ties_are_ok=False): two strict, non-adjacent regional maxima (5 and 7) that are bridged by
# a NaN pixel are fused into one "plateau" and only one pixel of the three survives.
import sys, warnings, numpy as np
warnings.simplefilter('ignore')
from centrosome.cpmorphology import regional_maximum
nan = np.nan
image = np.array([[0, 0, 0,   0, 0],
                  [0, 5, nan, 7, 0],
                  [0, 0, 0,   0, 0]], float)
ties = regional_maximum(image, None, None, True)
noties = regional_maximum(image, None, None, False)
print("ties allowed:\n", ties.astype(int)); print("ties disallowed:\n", noties.astype(int))
# (1,1)=5 and (1,3)=7 have a whole in-image neighbourhood with no larger value; both are marked with ties allowed,
# they are not 8-adjacent to each other and have different values => two different plateaus, each must keep a pixel.
bad = []
if not (ties[1, 1] and ties[1, 3]): bad.append("ties-allowed form does not mark the strict maxima")
if not noties[1, 1]: bad.append("strict maximum 5 at (1,1) lost with ties disallowed")
if not noties[1, 3]: bad.append("strict maximum 7 at (1,3) lost with ties disallowed")
if bad:
    print("VIOLATION:", "; ".join(bad)); sys.exit(1)
sys.exit(0)
