# C13 / V4: Haralick(..., nlevels=16): features of object 1 change when another object (label 2) is present,
# because nlevels * image_a is evaluated in int8 and wraps, so label 2's co-occurrences land in label 1's block.
import sys, numpy as np, warnings
warnings.filterwarnings("ignore"); np.seterr(all="ignore")
import os; sys.path.insert(0, os.environ.get("CENTROSOME_TREE", os.getcwd()))
from centrosome.haralick import Haralick
labels = np.array([[1, 1, 1, 1], [0, 0, 0, 0], [2, 2, 2, 2]])
image = np.array([[0, .2, .4, 1.0], [0, 0, 0, 0], [1.0, .6, .6, 0.0]])
full = np.array(Haralick(image, labels, 0, 1, nlevels=16).all())[:, 0]
alone = np.array(Haralick(image, np.where(labels == 1, 1, 0), 0, 1, nlevels=16).all())[:, 0]
if not np.allclose(full, alone, equal_nan=True):
    print("VIOLATION: object 1 Haralick (nlevels=16)\n with object 2 present:", np.round(full, 4).tolist(),
          "\n alone:                ", np.round(alone, 4).tolist()); sys.exit(1)
print("ok"); sys.exit(0)
