# C13 / V5 (borderline): removing the highest-numbered object while it is still in the request list makes
# ellipse_from_second_moments / calculate_convex_hull_areas / calculate_solidity raise IndexError for everybody,
# (minimum_enclosing_circle, perimeters, euler, extents, median, skeleton_length, feret handle this fine).
import sys, numpy as np
import os; sys.path.insert(0, os.environ.get("CENTROSOME_TREE", os.getcwd()))
from centrosome import cpmorphology as M
labels = np.zeros((5, 8), int); labels[1:4, 1:3] = 1; labels[1:4, 5:7] = 2
removed = np.where(labels == 2, 0, labels)
bad = []
for name, f in (("ellipse_from_second_moments", lambda l, idx: M.ellipse_from_second_moments(np.ones(l.shape), l, idx)[2]),
                ("calculate_convex_hull_areas", M.calculate_convex_hull_areas),
                ("calculate_solidity", M.calculate_solidity)):
    ref = np.asarray(f(labels, [1, 2]))[0]
    try:
        got = np.asarray(f(removed, [1, 2]))[0]
        if not np.isclose(got, ref): bad.append("%s: object 1 %r -> %r" % (name, ref, got))
    except Exception as e:
        bad.append("%s(labels with object 2 removed, [1, 2]) raised %s: %s (object 1 value before removal: %r)" % (name, type(e).__name__, e, ref))
if bad:
    print("VIOLATION:"); print("\n".join(bad)); sys.exit(1)
print("ok"); sys.exit(0)
