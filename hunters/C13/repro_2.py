# C13 / V2: zernike() raises IndexError when the label image contains an object whose number is larger than
# every requested index; removing that other object makes the same request succeed.
import sys, numpy as np
import os; sys.path.insert(0, os.environ.get("CENTROSOME_TREE", os.getcwd()))
from centrosome.zernike import zernike, get_zernike_indexes
zi = get_zernike_indexes(5)
labels = np.zeros((7, 9), int); labels[1:4, 1:5] = 1; labels[4:6, 5:8] = 2
alone = np.where(labels == 1, 1, 0)
ref = zernike(zi, alone, [1])
try:
    got = zernike(zi, labels, [1])
except Exception as e:
    print("VIOLATION: zernike(zi, labels(with objects 1 and 2), [1]) raised %s: %s; with object 2 removed it returns %s"
          % (type(e).__name__, e, np.round(ref, 4).tolist()))
    sys.exit(1)
if not np.allclose(got, ref, equal_nan=True):
    print("VIOLATION: differs", got, ref); sys.exit(1)
print("ok"); sys.exit(0)
