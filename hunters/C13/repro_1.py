# C13 / V1: calculate_perimeters and skeleton_length raise on label images with a dimension of size 1,
# while the same object translated by zero padding (one extra row) is measured fine.
import sys, numpy as np
import os; sys.path.insert(0, os.environ.get("CENTROSOME_TREE", os.getcwd()))
from centrosome.cpmorphology import calculate_perimeters, skeleton_length
labels = np.array([[0, 1, 1, 0]])
padded = np.pad(labels, ((1, 1), (0, 0)))
bad = []
for name, f in (("calculate_perimeters", calculate_perimeters), ("skeleton_length", skeleton_length)):
    ref = f(padded, [1])
    for lab, tag in ((labels, "1x4"), (labels.T.copy(), "4x1")):
        try:
            got = f(lab, [1])
            if not np.allclose(got, ref):
                bad.append("%s(%s) = %s but translated scene gives %s" % (name, tag, got, ref))
        except Exception as e:
            bad.append("%s(%s image) raised %s: %s ; zero-padded scene gives %s" % (name, tag, type(e).__name__, e, ref))
if bad:
    print("VIOLATION:"); print("\n".join(bad)); sys.exit(1)
print("ok"); sys.exit(0)
