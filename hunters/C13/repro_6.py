# C13 / V6 (secondary): Haralick(mask=<all-ones integer array>) silently zeroes label rows (labels[~mask] with
# integer ~ gives indices -2), so an object's features change although nothing is masked out.
import sys, numpy as np, warnings
warnings.filterwarnings("ignore"); np.seterr(all="ignore")
import os; sys.path.insert(0, os.environ.get("CENTROSOME_TREE", os.getcwd()))
from centrosome.haralick import Haralick
labels = np.ones((4, 4), int); image = np.arange(16.).reshape(4, 4) ** 2
a = np.array(Haralick(image, labels, 0, 1, mask=np.ones((4, 4), bool)).all())[:, 0]
try:
    b = np.array(Haralick(image, labels, 0, 1, mask=np.ones((4, 4), int)).all())[:, 0]
except Exception as e:
    print("VIOLATION: int mask raised", type(e).__name__, e); sys.exit(1)
if not np.allclose(a, b, equal_nan=True):
    print("VIOLATION: all-ones mask, bool vs int:\n", np.round(a, 4).tolist(), "\n", np.round(b, 4).tolist()); sys.exit(1)
print("ok"); sys.exit(0)
