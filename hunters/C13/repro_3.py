# C13 / V3: intensity-weighted ellipse_from_second_moments: minor axis length (and eccentricity) of an object
# become NaN or not depending on a pure integer translation (zero padding) of the scene.
import sys, numpy as np
import os; sys.path.insert(0, os.environ.get("CENTROSOME_TREE", os.getcwd()))
np.seterr(all="ignore")
from centrosome.cpmorphology import ellipse_from_second_moments
labels = np.array([[1, 0], [0, 1]]); image = np.array([[1.0, 0.0], [0.0, 2.0]])
c0, e0, ma0, mi0, th0 = ellipse_from_second_moments(image, labels, [1])
l1 = np.pad(labels, ((0, 0), (1, 0))); i1 = np.pad(image, ((0, 0), (1, 0)))
c1, e1, ma1, mi1, th1 = ellipse_from_second_moments(i1, l1, [1])
bad = []
if np.isnan(mi0[0]) != np.isnan(mi1[0]) or not np.isclose(mi0[0], mi1[0], equal_nan=True):
    bad.append("minor axis: original %r, translated by one column %r" % (mi0[0], mi1[0]))
if np.isnan(e0[0]) != np.isnan(e1[0]) or not np.isclose(e0[0], e1[0], equal_nan=True):
    bad.append("eccentricity: original %r, translated %r" % (e0[0], e1[0]))
if bad:
    print("VIOLATION:", "; ".join(bad)); sys.exit(1)
print("ok"); sys.exit(0)
