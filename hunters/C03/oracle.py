"""Independent brute-force oracle for C03, written from the property text only."""
import heapq
import math
from fractions import Fraction

import numpy as np


def stepD(img, i1, j1, i2, j2, exact):
    m, n = len(img), len(img[0])
    s = 0
    for di in (-1, 0, 1):
        for dj in (-1, 0, 1):
            a = img[min(max(i1 + di, 0), m - 1)][min(max(j1 + dj, 0), n - 1)]
            b = img[min(max(i2 + di, 0), m - 1)][min(max(j2 + dj, 0), n - 1)]
            s += abs(a - b)
    return s


def per_label_costs(image, labels, mask, weight, exact=False):
    """returns dict label -> 2-D list of minimal cost from any masked seed of that label (None=unreachable).
    Paths run 8-connected through masked pixels (may pass through other seeds: the most permissive reading).
    exact=True: image must be integer valued and weight==0 -> costs are exact Python ints."""
    m, n = image.shape
    if exact:
        img = [[int(v) for v in row] for row in image]
        assert weight == 0
    else:
        img = [[float(v) for v in row] for row in image]
    msk = np.asarray(mask).astype(bool)
    out = {}
    labs = sorted(set(int(v) for v in np.asarray(labels)[(np.asarray(labels) > 0) & msk]))
    cache = {}

    def cost(p, q):
        key = (p, q) if p < q else (q, p)
        if key not in cache:
            D = stepD(img, p[0], p[1], q[0], q[1], exact)
            L = abs(p[0] - q[0]) + abs(p[1] - q[1])
            if exact:
                cache[key] = D
            else:
                cache[key] = math.sqrt(D * D + weight * weight * L)
        return cache[key]

    for lab in labs:
        dist = [[None] * n for _ in range(m)]
        h = []
        for i in range(m):
            for j in range(n):
                if labels[i, j] == lab and msk[i, j]:
                    dist[i][j] = 0
                    h.append((0, i, j))
        heapq.heapify(h)
        done = set()
        while h:
            d, i, j = heapq.heappop(h)
            if (i, j) in done:
                continue
            done.add((i, j))
            for di in (-1, 0, 1):
                for dj in (-1, 0, 1):
                    if di == 0 and dj == 0:
                        continue
                    a, b = i + di, j + dj
                    if a < 0 or b < 0 or a >= m or b >= n or not msk[a, b]:
                        continue
                    nd = d + cost((i, j), (a, b))
                    if dist[a][b] is None or nd < dist[a][b]:
                        dist[a][b] = nd
                        heapq.heappush(h, (nd, a, b))
        out[lab] = dist
    return out


def check(image, labels, mask, weight, lab_out, dist_out, exact=False, rtol=1e-9):
    """returns list of violation strings"""
    image = np.asarray(image)
    labels = np.asarray(labels)
    m, n = image.shape
    msk = np.asarray(mask).astype(bool)
    costs = per_label_costs(image, labels, msk, weight, exact)
    bad = []
    if lab_out.shape != (m, n) or dist_out.shape != (m, n):
        return ["shape"]
    for i in range(m):
        for j in range(n):
            lo, do = int(lab_out[i, j]), float(dist_out[i, j])
            if labels[i, j] > 0:
                if lo != labels[i, j] or do != 0:
                    bad.append("seed (%d,%d): label %d dist %r, expected %d, 0" % (i, j, lo, do, labels[i, j]))
                continue
            cands = {l: c[i][j] for l, c in costs.items() if c[i][j] is not None}
            if not msk[i, j] or not cands:
                if lo != 0 or do != -1:
                    bad.append("unreachable/outside (%d,%d): label %d dist %r, expected 0,-1" % (i, j, lo, do))
                continue
            best = min(cands.values())
            if exact:
                ok_d = (do == float(best)) and float(best) == best
                okl = {l for l, c in cands.items() if c == best}
            else:
                tol = rtol * max(1.0, abs(best))
                ok_d = abs(do - best) <= tol
                okl = {l for l, c in cands.items() if c <= best + tol}
            if not ok_d:
                bad.append("(%d,%d): distance %r, minimal cost %r" % (i, j, do, best))
            if lo not in okl:
                bad.append("(%d,%d): label %d (its cost %r), minimal cost %r attained by %s" % (
                    i, j, lo, cands.get(lo), best, sorted(okl)))
    return bad
