# C03 violation 2: wrong DISTANCE (and label) on a zero-cost plateau.  The front of label 2 reaches the plateau with
# cost 7881299347898370 (even), the front of label 1 with 7881299347898371; both encode to the same heap key,
# label 1 wins the tie, floods the plateau (step cost 0) with 7881299347898371 and the pixels are finalised
# although a path of cost 7881299347898370 from seed 2 exists.  Exact integer arithmetic, weight 0.
import sys
sys.path.insert(0, __file__.rsplit('/', 1)[0])
import numpy as np
from centrosome.propagate import propagate
from repro_common import compare
B = 2.0**50
image = np.array([[0, B, 0, 0, 0, B, 0],
                  [B, 0, 0, 0, 0, B + 1, B + 1],
                  [B + 1, 0, 0, 0, 0, 0, B]])
labels = np.zeros((3, 7), int); labels[1, 0] = 2; labels[2, 6] = 1
mask = np.ones((3, 7), bool)
lo, do = propagate(image, labels, mask, 0)
bad = compare(image, labels, mask, lo, do)
print("labels_out=%s\ndistances=%s" % (lo.tolist(), [[int(x) for x in r] for r in do]))
if bad:
    print("C03 VIOLATED:"); print("\n".join(bad)); sys.exit(1)
print("ok")
