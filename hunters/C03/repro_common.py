"""Self-contained exact oracle for C03 with weight == 0 (step cost = D exactly, a rational number).
Computes, per seed label, the exact minimal path cost to every masked pixel with Fractions."""
import heapq
from fractions import Fraction
import numpy as np


def exact_costs(image, labels, mask):
    m, n = image.shape
    img = [[Fraction(float(v)) for v in row] for row in image]
    msk = np.asarray(mask) != 0

    def D(p, q):
        s = Fraction(0)
        for di in (-1, 0, 1):
            for dj in (-1, 0, 1):
                a = img[min(max(p[0] + di, 0), m - 1)][min(max(p[1] + dj, 0), n - 1)]
                b = img[min(max(q[0] + di, 0), m - 1)][min(max(q[1] + dj, 0), n - 1)]
                s += abs(a - b)
        return s

    out = {}
    for lab in sorted(set(int(v) for v in labels[(labels > 0) & msk])):
        dist = {}
        h = [(Fraction(0), i, j) for i in range(m) for j in range(n) if labels[i, j] == lab and msk[i, j]]
        for d, i, j in h:
            dist[i, j] = d
        done = set()
        while h:
            d, i, j = heapq.heappop(h)
            if (i, j) in done:
                continue
            done.add((i, j))
            for di in (-1, 0, 1):
                for dj in (-1, 0, 1):
                    a, b = i + di, j + dj
                    if (di or dj) and 0 <= a < m and 0 <= b < n and msk[a, b]:
                        nd = d + D((i, j), (a, b))
                        if (a, b) not in dist or nd < dist[a, b]:
                            dist[a, b] = nd
                            heapq.heappush(h, (nd, a, b))
        out[lab] = dist
    return out


def compare(image, labels, mask, lab_out, dist_out):
    """weight==0 exact comparison; returns list of problems"""
    costs = exact_costs(image, labels, mask)
    m, n = image.shape
    msk = np.asarray(mask) != 0
    bad = []
    for i in range(m):
        for j in range(n):
            lo, do = int(lab_out[i, j]), float(dist_out[i, j])
            if labels[i, j] > 0:
                if lo != labels[i, j] or do != 0:
                    bad.append("seed (%d,%d) label %d dist %r" % (i, j, lo, do))
                continue
            cands = {l: c[i, j] for l, c in costs.items() if (i, j) in c}
            if not msk[i, j] or not cands:
                if lo != 0 or do != -1:
                    bad.append("(%d,%d) should be 0/-1, got %d/%r" % (i, j, lo, do))
                continue
            best = min(cands.values())
            okl = sorted(l for l, c in cands.items() if c == best)
            if float(best) != best:
                continue  # not exactly representable: skip (never happens in the repros)
            if do != float(best):
                bad.append("(%d,%d): reported distance %r but exact minimal path cost is %r" % (i, j, do, float(best)))
            if lo not in okl:
                bad.append("(%d,%d): label %d (exact cost from that label %s) but minimal cost %s is attained only from label(s) %s"
                           % (i, j, lo, cands.get(lo), best, okl))
    return bad
