# C03 violation 1: wrong LABEL. Two path costs that differ only in the lowest mantissa bit compare equal in the
# heap (get_least_significant drops that bit); the tie is broken by label, so the stale, worse entry of label 1
# is popped before the better entry of label 2.  All arithmetic is exact (integers < 2**53, weight 0).
import sys
sys.path.insert(0, __file__.rsplit('/', 1)[0])
import numpy as np
from centrosome.propagate import propagate
from repro_common import compare
image = np.array([[2.0**50, 0, 0], [1, 1, 2]])
labels = np.array([[0, 0, 2], [0, 0, 1]])
mask = np.ones((2, 3), bool)
lo, do = propagate(image, labels, mask, 0)
bad = compare(image, labels, mask, lo, do)
print("labels_out=%s distances=%s" % (lo.tolist(), [[int(x) for x in r] for r in do]))
if bad:
    print("C03 VIOLATED:"); print("\n".join(bad)); sys.exit(1)
print("ok")
