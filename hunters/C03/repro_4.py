# C03 violation 4: D*D overflows / underflows although the cost sqrt(D^2 + w^2 L) itself is representable.
import sys
sys.path.insert(0, __file__.rsplit('/', 1)[0])
import numpy as np
from centrosome.propagate import propagate
from repro_common import compare
rc = 0
H = 2.0**530   # D = 3H, D*D = 9*2**1060 overflows
T = 2.0**-560  # D = 3T, D*D = 9*2**-1120 underflows to 0
for image, labels in [
    (np.array([[0.0, H]]), np.array([[1, 0]])),                     # true cost 3*2**530, reported inf
    (np.array([[0.0, T]]), np.array([[1, 0]])),                     # true cost 3*2**-560, reported 0.0
    (np.array([[0.0, 3 * T, 4 * T, 0.0]]), np.array([[1, 0, 0, 2]])),   # underflow -> all costs 0 -> wrong label at (0,2)
    (np.array([[0.0, 3 * H, 4 * H, 0.0]]), np.array([[2, 0, 0, 1]])),   # overflow -> all costs inf -> wrong label
]:
    mask = np.ones(image.shape, bool)
    lo, do = propagate(image, labels, mask, 0)
    bad = compare(image, labels, mask, lo, do)
    print(image.tolist(), labels.tolist(), "->", lo.tolist(), do.tolist())
    if bad:
        rc = 1; print("C03 VIOLATED:"); print("\n".join(bad))
sys.exit(rc)
