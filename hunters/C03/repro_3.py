# C03 violation 3: a truthy non-bool mask (int32 value 256) is honoured when the seeds are collected
# (np.logical_and(labels != 0, mask)) but becomes 0 in np.ascontiguousarray(mask, np.int8), so nothing propagates.
import sys
import numpy as np
from centrosome.propagate import propagate
image = np.zeros((1, 2)); labels = np.array([[1, 0]]); mask = np.array([[256, 256]], np.int32)
lo, do = propagate(image, labels, mask, 1.0)
lb, db = propagate(image, labels, mask.astype(bool), 1.0)
print("int mask :", lo.tolist(), do.tolist()); print("bool mask:", lb.tolist(), db.tolist())
if lo.tolist() != [[1, 1]] or do.tolist() != [[0.0, 1.0]]:
    print("C03 VIOLATED: pixel (0,1) is in the mask and adjacent to seed 1: expected label 1, distance 1.0"); sys.exit(1)
print("ok")
