# Default (None) threshold_range_min/max: adaptive and per-object modes raise TypeError (max(None, float)) on Python 3
import sys, warnings
sys.path.insert(0, "/tmp/hunt-C11") if "/tmp/hunt-C11" not in sys.path else None
import os
sys.path.insert(0, os.getcwd())
warnings.simplefilter("ignore")
import numpy as np
import centrosome.threshold as T

im = np.random.RandomState(0).uniform(size=(6, 6))
bad = []
for mod in (T.TM_ADAPTIVE, T.TM_PER_OBJECT):
    for rr in ((None, None), (0, None), (None, 1)):
        try:
            T.get_threshold(T.TM_OTSU, mod, im, mask=np.ones(im.shape, bool), labels=np.ones(im.shape, int),
                            threshold_range_min=rr[0], threshold_range_max=rr[1], adaptive_window_size=3)
        except Exception as e:
            bad.append((mod, rr, type(e).__name__, str(e)[:50]))
if bad:
    print("VIOLATION: default range limits raise:", bad); sys.exit(1)
sys.exit(0)
