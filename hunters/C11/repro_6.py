# float32 image, per-object: clamped local thresholds are rounded to float32 and fall outside [0.7g, 1.5g] (float64 g)
import sys, warnings
sys.path.insert(0, "/tmp/hunt-C11") if "/tmp/hunt-C11" not in sys.path else None
import os
sys.path.insert(0, os.getcwd())
warnings.simplefilter("ignore")
import numpy as np
import centrosome.threshold as T

r = np.random.RandomState(3)
im = r.uniform(size=(12, 14)).astype(np.float32); mask = r.uniform(size=im.shape) < .6
labels = np.zeros(im.shape, int); labels[:6, :7] = 1; labels[6:, 7:] = 3; labels[:6, 7:] = 2
bad = []
for m in T.TM_METHODS:
    lt, gt = T.get_threshold(m, T.TM_PER_OBJECT, im, mask=mask, labels=labels, threshold_range_min=0.05, threshold_range_max=.95)
    v = lt[labels > 0].astype(np.float64); lo = max(.05, .7 * gt); hi = min(.95, 1.5 * gt)
    if v.min() < lo or v.max() > hi:
        bad.append((m, str(lt.dtype), "below lo by %.3g" % (lo - v.min()), "above hi by %.3g" % (v.max() - hi)))
if bad:
    print("VIOLATION: per-object local thresholds outside band:", bad); sys.exit(1)
sys.exit(0)
