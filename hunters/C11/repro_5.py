# Mask given as a 0/1 integer array is used as a fancy index: threshold ignores masked pixels and depends on masked-out ones
import sys, warnings
sys.path.insert(0, "/tmp/hunt-C11") if "/tmp/hunt-C11" not in sys.path else None
import os
sys.path.insert(0, os.getcwd())
warnings.simplefilter("ignore")
import numpy as np
import centrosome.threshold as T

r = np.random.RandomState(0)
im = r.uniform(size=(6, 7)); mb = r.uniform(size=im.shape) < .5
bad = []
for m in T.TM_METHODS:
    ref = T.get_threshold(m, T.TM_GLOBAL, im, mask=mb, threshold_range_min=0, threshold_range_max=1)[1]
    for dt in (np.uint8, int):
        mi = mb.astype(dt)
        im2 = im.copy(); im2[~mb] = 1 - im2[~mb]          # change only masked-out pixels
        try:
            g1 = T.get_threshold(m, T.TM_GLOBAL, im, mask=mi, threshold_range_min=0, threshold_range_max=1)[1]
            g2 = T.get_threshold(m, T.TM_GLOBAL, im2, mask=mi, threshold_range_min=0, threshold_range_max=1)[1]
        except Exception as e:
            bad.append((m, np.dtype(dt).name, float(ref), type(e).__name__, str(e)[:50])); continue
        if g1 != ref or g1 != g2:
            bad.append((m, np.dtype(dt).name, float(ref), float(g1), float(g2)))
if bad:
    print("VIOLATION (method, mask dtype, bool-mask result, int-mask result, int-mask result after changing masked-out pixels):")
    for b in bad: print("  ", b)
    sys.exit(1)
sys.exit(0)
