# Adaptive mode with adaptive_window_size=1 (yields HxW >= 2x2 blocks) raises ValueError from RectBivariateSpline
import sys, warnings
sys.path.insert(0, "/tmp/hunt-C11") if "/tmp/hunt-C11" not in sys.path else None
import os
sys.path.insert(0, os.getcwd())
warnings.simplefilter("ignore")
import numpy as np
import centrosome.threshold as T

im = np.array([[0.1, 0.4, 0.7], [0.2, 0.5, 0.9]])
bad = []
for m in T.TM_METHODS:
    try:
        T.get_threshold(m, T.TM_ADAPTIVE, im, mask=np.ones(im.shape, bool), threshold_range_min=0, threshold_range_max=1,
                        adaptive_window_size=1)
    except Exception as e:
        bad.append((m, type(e).__name__, str(e).strip()[:60]))
if bad:
    print("VIOLATION: adaptive_window_size=1 raises:", bad); sys.exit(1)
sys.exit(0)
