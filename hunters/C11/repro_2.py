# Kapur crashes (argmin of empty sequence) on near-saturated masked pixels with >=3 distinct values
import sys, warnings
sys.path.insert(0, "/tmp/hunt-C11") if "/tmp/hunt-C11" not in sys.path else None
import os
sys.path.insert(0, os.getcwd())
warnings.simplefilter("ignore")
import numpy as np
import centrosome.threshold as T

bad = []
im = np.array([[254, 255, 255, 253]], float) / 255.
for mod, kw in ((T.TM_GLOBAL, {}), (T.TM_PER_OBJECT, dict(labels=np.ones(im.shape, int)))):
    try:
        T.get_threshold(T.TM_KAPUR, mod, im, mask=np.ones(im.shape, bool), threshold_range_min=0, threshold_range_max=1, **kw)
    except Exception as e:
        bad.append((mod, type(e).__name__, str(e)))
# adaptive: 4x8 image, 8-bit quantised, one 2x2 block saturated
im2 = np.array([[10, 200, 30, 40, 90, 60, 70, 80]] * 4, float) / 255.
im2[0:2, 0:2] = np.array([[254, 255], [255, 253]]) / 255.
try:
    T.get_threshold(T.TM_KAPUR, T.TM_ADAPTIVE, im2, mask=np.ones(im2.shape, bool), threshold_range_min=0, threshold_range_max=1,
                    adaptive_window_size=2)
except Exception as e:
    bad.append((T.TM_ADAPTIVE, type(e).__name__, str(e)))
if bad:
    print("VIOLATION: Kapur raises on legal input:", bad); sys.exit(1)
sys.exit(0)
