# otsu() does not commute with positive affine rescaling: exact score tie broken differently after scaling by 0.1
import sys, warnings
sys.path.insert(0, "/tmp/hunt-C11") if "/tmp/hunt-C11" not in sys.path else None
import os
sys.path.insert(0, os.getcwd())
warnings.simplefilter("ignore")
import numpy as np
import centrosome.threshold as T

from centrosome.otsu import otsu
x = np.array([0, 0.25, 0.375, 0.5])
a, b = 0.1, 0.0
t = otsu(x.copy()); ta = otsu(a * x + b)
if not np.isclose(ta, a * t + b, rtol=1e-9):
    print("VIOLATION: otsu(x)=%r so expected otsu(%g*x+%g)=%r but got %r" % (t, a, b, a * t + b, ta)); sys.exit(1)
sys.exit(0)
