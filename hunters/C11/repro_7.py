# MoG seeds its RNG from the raw BYTES of the sorted pixels: same pixel values in another byte order / dtype give another
# threshold, and for np.longdouble (uninitialised padding bytes) repeated identical calls give different thresholds
import sys, warnings
sys.path.insert(0, "/tmp/hunt-C11") if "/tmp/hunt-C11" not in sys.path else None
import os
sys.path.insert(0, os.getcwd())
warnings.simplefilter("ignore")
import numpy as np
import centrosome.threshold as T

r = np.random.RandomState(7)
base = r.uniform(size=(12, 14)); mask = r.uniform(size=base.shape) < .6
bad = []
g_le = T.get_threshold(T.TM_MOG, T.TM_GLOBAL, base.astype('<f8'), mask=mask, threshold_range_min=0, threshold_range_max=1)[1]
g_be = T.get_threshold(T.TM_MOG, T.TM_GLOBAL, base.astype('>f8'), mask=mask, threshold_range_min=0, threshold_range_max=1)[1]
if g_le != g_be:
    bad.append("identical pixel values, '<f8' -> %r but '>f8' -> %r" % (float(g_le), float(g_be)))
if np.dtype(np.longdouble).itemsize > 8:
    s = set()
    for k in range(20):
        junk = np.random.uniform(size=1000).astype(np.longdouble) * k; del junk   # churn the heap
        im = base.astype(np.longdouble)                                            # same pixel values every time
        s.add(float(T.get_threshold(T.TM_MOG, T.TM_GLOBAL, im, mask=mask, threshold_range_min=0, threshold_range_max=1)[1]))
    if len(s) > 1:
        bad.append("np.longdouble image: 20 calls on equal-valued arrays gave %d different thresholds, e.g. %r" % (len(s), sorted(s)[:4]))
if bad:
    print("VIOLATION:"); [print("  ", b) for b in bad]; sys.exit(1)
sys.exit(0)
