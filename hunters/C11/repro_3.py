# Per-object mode: pixels with label 0 get local threshold 1.0, outside requested range and outside 0.7..1.5 x global band
import sys, warnings
sys.path.insert(0, "/tmp/hunt-C11") if "/tmp/hunt-C11" not in sys.path else None
import os
sys.path.insert(0, os.getcwd())
warnings.simplefilter("ignore")
import numpy as np
import centrosome.threshold as T

im = np.array([[0.1, 0.2, 0.3, 0.4], [0.5, 0.6, 0.7, 0.8]])
labels = np.array([[1, 1, 1, 0], [1, 1, 1, 0]])
bad = []
for rmin, rmax in ((0.2, 0.6), (0, 1)):
    lt, gt = T.get_threshold(T.TM_OTSU, T.TM_PER_OBJECT, im, mask=np.ones(im.shape, bool), labels=labels,
                             threshold_range_min=rmin, threshold_range_max=rmax)
    hi = min(rmax, 1.5 * gt)
    if lt.max() > hi:
        bad.append(dict(range=(rmin, rmax), global_threshold=float(gt), allowed_max=float(hi), local=lt.tolist()))
if bad:
    print("VIOLATION: local threshold above range/band at label-0 pixels:", bad); sys.exit(1)
sys.exit(0)
