"""Independent brute-force oracle for fill_labeled_holes, written from the property text."""
import numpy as np


def regions(L):
    """Return (node_of_pixel array, nodes dict: id -> (kind,label), adjacency dict of sets)."""
    H, W = L.shape
    node = -np.ones((H, W), int)
    nodes = {}
    objid = {}
    nid = 0
    for r in range(H):
        for c in range(W):
            v = int(L[r, c])
            if v != 0:
                if v not in objid:
                    objid[v] = nid
                    nodes[nid] = ("o", v)
                    nid += 1
                node[r, c] = objid[v]
    for r in range(H):
        for c in range(W):
            if L[r, c] == 0 and node[r, c] < 0:
                nodes[nid] = ("b", 0)
                st = [(r, c)]
                node[r, c] = nid
                while st:
                    y, x = st.pop()
                    for dy, dx in ((1, 0), (-1, 0), (0, 1), (0, -1)):
                        yy, xx = y + dy, x + dx
                        if 0 <= yy < H and 0 <= xx < W and L[yy, xx] == 0 and node[yy, xx] < 0:
                            node[yy, xx] = nid
                            st.append((yy, xx))
                nid += 1
    adj = {k: set() for k in nodes}
    for r in range(H):
        for c in range(W):
            a = node[r, c]
            if r + 1 < H:
                b = node[r + 1, c]
                if a != b:
                    adj[a].add(b); adj[b].add(a)
            if c + 1 < W:
                b = node[r, c + 1]
                if a != b:
                    adj[a].add(b); adj[b].add(a)
    return node, nodes, adj


def oracle(L):
    """Return (expected, ambiguous_mask, unchanged_nodes info).
    expected: array with expected labels where determined; ambiguous_mask True where the
    property text does not determine the fill label (changed component touches >1 unchanged objects
    and region does not itself touch one)."""
    L = np.asarray(L)
    H, W = L.shape
    node, nodes, adj = regions(L.astype(np.int64))
    unchanged = set()
    border = set(node[0, :]) | set(node[-1, :]) | set(node[:, 0]) | set(node[:, -1])
    unchanged |= set(int(b) for b in border)
    changed_flag = True
    while changed_flag:
        changed_flag = False
        for k in nodes:
            if k in unchanged:
                continue
            kind = nodes[k][0]
            un_obj = set(n for n in adj[k] if n in unchanged and nodes[n][0] == "o")
            un_bg = any(n in unchanged and nodes[n][0] == "b" for n in adj[k])
            if (kind == "o" and un_bg) or len(un_obj) >= 2:
                unchanged.add(k)
                changed_flag = True
    # changed regions that touch an unchanged object directly ("seeds") take that label.
    # remaining changed regions: components (through non-seed changed regions); the labels of the seeds
    # adjacent to the component must agree, otherwise the property text does not determine the label.
    fill = {}
    amb = {}
    changed = [k for k in nodes if k not in unchanged]
    for a in changed:
        direct = set(b for b in adj[a] if b in unchanged)
        assert len(direct) <= 1 and all(nodes[b][0] == "o" for b in direct)
        if direct:
            fill[a] = nodes[next(iter(direct))][1]; amb[a] = False
    seen = set()
    for k in changed:
        if k in fill or k in seen:
            continue
        comp = [k]; seen.add(k); st = [k]; S = set()
        while st:
            a = st.pop()
            for b in adj[a]:
                assert b not in unchanged
                if b in seen:
                    continue
                if b in fill:
                    S.add(fill[b])
                else:
                    seen.add(b); comp.append(b); st.append(b)
        assert len(S) >= 1
        for a in comp:
            if len(S) == 1:
                fill[a] = next(iter(S)); amb[a] = False
            else:
                fill[a] = -1; amb[a] = True
    exp = L.astype(np.int64).copy()
    ambm = np.zeros(L.shape, bool)
    for r in range(H):
        for c in range(W):
            k = int(node[r, c])
            if k in fill:
                exp[r, c] = fill[k]
                ambm[r, c] = amb[k]
    return exp, ambm


def encloses(L, X, pix):
    """True if pixel pix cannot reach the image border by a 4-connected path avoiding pixels labelled X in L."""
    H, W = L.shape
    if L[pix] == X:
        return True
    seen = {pix}
    st = [pix]
    while st:
        y, x = st.pop()
        if y == 0 or x == 0 or y == H - 1 or x == W - 1:
            return False
        for dy, dx in ((1, 0), (-1, 0), (0, 1), (0, -1)):
            p = (y + dy, x + dx)
            if p not in seen and L[p] != X:
                seen.add(p); st.append(p)
    return True


def check(L, f):
    """Run f on L, return list of problem strings (empty if OK)."""
    L0 = L.copy()
    out = f(L)
    probs = []
    if not np.array_equal(L, L0):
        probs.append("input modified")
    if out.dtype != L.dtype:
        probs.append("dtype %s != %s" % (out.dtype, L.dtype))
    if out.shape != L.shape:
        probs.append("shape")
        return probs, out
    exp, amb = oracle(L)
    if L.dtype == bool:
        exp = exp.astype(bool)
    o = out.astype(np.int64) if L.dtype != bool else out
    if not np.array_equal(np.where(amb, 0, o), np.where(amb, 0, exp)):
        probs.append("mismatch with oracle on determined pixels")
    if amb.any():
        # enclosure property on ambiguous pixels
        for r, c in zip(*np.nonzero(amb)):
            if not encloses(L, out[r, c], (int(r), int(c))):
                probs.append("ambiguous pixel (%d,%d) given label %d that does not enclose it" % (r, c, out[r, c]))
                break
    out2 = f(out)
    if not np.array_equal(out2, out):
        probs.append("not idempotent")
    return probs, out
