"""C08 violation (split object sharing a label): object 3 has one piece in a background hole inside object 1 and another
piece embedded in object 2.  Object 3 as a whole 'touches' only one unchanged object (2) so it is repainted 2 --
including the piece inside object 1's hole.  Unchanged object 2 thereby gains a region that it does not enclose
(it is enclosed by object 1), and object 1's hole is NOT filled with 1.
Run: cd /tmp/hunt-C08 && /venv/bin/python /tmp/hunt-C08.out/repro_3.py   (exit 1 = violation present)"""
import sys, os
sys.path.insert(0, os.environ.get("C08_TREE", os.getcwd()))
import numpy as np
from centrosome.cpmorphology import fill_labeled_holes
L = np.array([[1,1,1,1,1,2,2,2],
              [1,1,0,1,1,2,3,2],
              [1,0,3,0,1,2,2,2],
              [1,1,0,1,1,2,2,2],
              [1,1,1,1,1,2,2,2]])
out = fill_labeled_holes(L)
def enclosed_by(L, X, pix):
    H, W = L.shape
    seen = {pix}; st = [pix]
    while st:
        y, x = st.pop()
        if y in (0, H - 1) or x in (0, W - 1):
            return False
        for dy, dx in ((1,0),(-1,0),(0,1),(0,-1)):
            p = (y+dy, x+dx)
            if p not in seen and L[p] != X:
                seen.add(p); st.append(p)
    return True
bad = []
for r, c in zip(*np.nonzero(out != L)):
    X = out[r, c]
    if not enclosed_by(L, X, (int(r), int(c))):
        bad.append("pixel (%d,%d) (was %d) repainted %d but object %d does not enclose it" % (r, c, L[r, c], X, X))
if bad:
    print("input:\n%s\noutput:\n%s" % (L, out)); print("\n".join(bad)); sys.exit(1)
print("no violation"); sys.exit(0)
