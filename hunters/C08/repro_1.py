"""C08 violation: an object whose label is split over two holes (one hole inside object 1, one inside object 2)
is repainted entirely with ONE of the two labels, so the other unchanged object gains a region it does not enclose,
and the choice depends on image orientation (mirror image gives the non-mirrored answer).
Run: cd /tmp/hunt-C08 && /venv/bin/python /tmp/hunt-C08.out/repro_1.py   (exit 1 = violation present)"""
import sys, os
sys.path.insert(0, os.environ.get("C08_TREE", os.getcwd()))
import numpy as np
from centrosome.cpmorphology import fill_labeled_holes

L = np.array([[1,1,1,1,1,2,2,2,2,2],
              [1,1,0,1,1,2,2,0,2,2],
              [1,0,3,0,1,2,0,3,0,2],
              [1,1,0,1,1,2,2,0,2,2],
              [1,1,1,1,1,2,2,2,2,2]])
out = fill_labeled_holes(L)

def enclosed_by(L, X, pix):
    """pix cannot reach the image border through a 4-connected path that avoids pixels labelled X"""
    H, W = L.shape
    seen = {pix}; st = [pix]
    while st:
        y, x = st.pop()
        if y in (0, H - 1) or x in (0, W - 1):
            return False
        for dy, dx in ((1,0),(-1,0),(0,1),(0,-1)):
            p = (y+dy, x+dx)
            if p not in seen and L[p] != X:
                seen.add(p); st.append(p)
    return True

bad = []
# objects 1 and 2 touch the border -> unchanged.  Every repainted pixel must lie in a region enclosed by the
# object whose label it receives.
for r, c in zip(*np.nonzero(out != L)):
    X = out[r, c]
    if not enclosed_by(L, X, (int(r), int(c))):
        bad.append("pixel (%d,%d) (was %d) repainted %d but object %d does not enclose it"
                   % (r, c, L[r, c], X, X))
# mirror equivariance: the property is purely geometric, so f(mirror(L)) must be mirror(f(L))
m = fill_labeled_holes(L[:, ::-1].copy())[:, ::-1]
if not np.array_equal(m, out):
    bad.append("fill(mirror(L)) != mirror(fill(L)): differ at %s" % np.argwhere(m != out).tolist())
if bad:
    print("input:\n%s\noutput:\n%s" % (L, out))
    print("\n".join(bad))
    sys.exit(1)
print("no violation")
sys.exit(0)
