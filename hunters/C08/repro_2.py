"""C08 violation (all objects 4-connected, no split labels): a region R nested between two repainted regions P and Q,
where P touches only unchanged object 1 and Q touches only unchanged object 2.  R touches no unchanged region.
The label R receives depends on the NUMBERING of the erased regions P and Q (stack order of the second graph walk):
renaming P<->Q (both disappear from the output anyway) flips R between 1 and 2.  Neither 1 nor 2 encloses R.
Run: cd /tmp/hunt-C08 && /venv/bin/python /tmp/hunt-C08.out/repro_2.py   (exit 1 = violation present)"""
import sys, os
sys.path.insert(0, os.environ.get("C08_TREE", os.getcwd()))
import numpy as np
from centrosome.cpmorphology import fill_labeled_holes

L1 = np.array([[1,1,2,2,2],
               [1,3,4,4,2],
               [1,3,5,4,2],
               [1,3,4,4,2],
               [1,1,2,2,2]])
# same geometry, objects 3 and 4 exchange names
L2 = np.array([[1,1,2,2,2],
               [1,4,3,3,2],
               [1,4,5,3,2],
               [1,4,3,3,2],
               [1,1,2,2,2]])
o1 = fill_labeled_holes(L1)
o2 = fill_labeled_holes(L2)
bad = []
if not np.array_equal(o1, o2):
    bad.append("renaming the two erased objects 3<->4 changes the output at %s: %d vs %d"
               % (np.argwhere(o1 != o2).tolist(), o1[2, 2], o2[2, 2]))

def enclosed_by(L, X, pix):
    H, W = L.shape
    seen = {pix}; st = [pix]
    while st:
        y, x = st.pop()
        if y in (0, H - 1) or x in (0, W - 1):
            return False
        for dy, dx in ((1,0),(-1,0),(0,1),(0,-1)):
            p = (y+dy, x+dx)
            if p not in seen and L[p] != X:
                seen.add(p); st.append(p)
    return True
for name, L, o in (("L1", L1, o1), ("L2", L2, o2)):
    X = o[2, 2]
    if X != L[2, 2] and not enclosed_by(L, X, (2, 2)):
        bad.append("%s: centre pixel (object 5) repainted %d, but object %d does not enclose it" % (name, X, X))
if bad:
    print("L1:\n%s\nfill(L1):\n%s\nL2:\n%s\nfill(L2):\n%s" % (L1, o1, L2, o2))
    print("\n".join(bad))
    sys.exit(1)
print("no violation"); sys.exit(0)
