"""C20 violation 1: KalmanState.add_features depends on whether a read-only cached property
(predicted_state_vec / predicted_obs_vec) was read before -> AttributeError, and the object is left half-updated.
Run: cd <tree> && /venv/bin/python repro_1.py   (exit 1 = violation present)"""
import sys, warnings
import numpy as np
warnings.simplefilter("ignore")
np.seterr(all="ignore")
import centrosome.filter as F


def make_state():
    ks = F.velocity_kalman_model()
    coords = np.array([[1.0, 2.0], [5.0, 6.0]])
    return F.kalman_filter(ks, -np.ones(2, int), coords, np.zeros((2, 4, 4)), np.zeros((2, 2, 2)))


args = (np.array([0, 1]), np.array([2]), np.zeros((1, 4)), np.zeros((1, 4, 4)), np.ones((1, 4)))
bad = []
# history A: add_features directly
a = make_state()
a.add_features(*args)
ref = (a.state_vec.copy(), a.state_cov.copy(), a.noise_var.copy())
# history B: only *read* a public property first, then the identical call
for prop in ("predicted_state_vec", "predicted_obs_vec"):
    b = make_state()
    getattr(b, prop)
    try:
        b.add_features(*args)
        same = all(np.array_equal(x, y) for x, y in zip(ref, (b.state_vec, b.state_cov, b.noise_var)))
        if not same:
            bad.append("after reading %s: add_features gives a different state" % prop)
    except Exception as e:
        bad.append("after reading %s: add_features raises %s: %s (without the read it succeeds)" % (prop, type(e).__name__, e))
if bad:
    print("VIOLATION C20 (history dependence):")
    for b in bad:
        print("  ", b)
    sys.exit(1)
print("ok")
sys.exit(0)
