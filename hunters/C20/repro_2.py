"""C20 violation 2: centrosome._propagate.convert_to_ints (imported by centrosome.propagate) reads a static
little_endian_flag that is only initialised inside _propagate.propagate(); its result therefore depends on whether
propagate() has been called before in the process.
Run: cd <tree> && /venv/bin/python repro_2.py   (exit 1 = violation present)"""
import sys, warnings
import numpy as np
warnings.simplefilter("ignore")
from centrosome import _propagate
from centrosome.propagate import propagate

vals = [1.5, 0.25, 3.0, -2.0]
before = [_propagate.convert_to_ints(v) for v in vals]
propagate(np.zeros((2, 2)), np.array([[1, 0], [0, 0]]), np.ones((2, 2), bool), 1.0)
after = [_propagate.convert_to_ints(v) for v in vals]
if before != after:
    print("VIOLATION C20 (history dependence): convert_to_ints changes after the first propagate() call")
    for v, b, a in zip(vals, before, after):
        print("   convert_to_ints(%r): fresh process %r, after propagate() %r" % (v, b, a))
    sys.exit(1)
print("ok")
sys.exit(0)
