"""C20 (input-space part of the quantifier): filter.masked_convolution / filter.circular_average_filter raise
ValueError on a Fortran-ordered or sliced-view mask, while the identical C-contiguous mask works.
Run: cd <tree> && /venv/bin/python repro_3.py   (exit 1 = violation present)"""
import sys, warnings
import numpy as np
warnings.simplefilter("ignore")
import centrosome.filter as F

d = np.arange(12.0).reshape(3, 4)
k = np.ones((1, 1))
m = np.ones((3, 4), bool)
expected = F.masked_convolution(d, m, k)
bad = []
for name, mm in (("Fortran-ordered", np.asfortranarray(m)), ("sliced view", np.ones((3, 8), bool)[:, ::2])):
    assert np.array_equal(mm, m)
    try:
        r = F.masked_convolution(d, mm, k)
        if not np.array_equal(r, expected):
            bad.append("masked_convolution(%s mask): different result" % name)
    except Exception as e:
        bad.append("masked_convolution(%s mask): %s: %s" % (name, type(e).__name__, e))
try:
    F.circular_average_filter(d, 1, np.asfortranarray(m))
except Exception as e:
    bad.append("circular_average_filter(Fortran-ordered mask): %s: %s" % (type(e).__name__, e))
if bad:
    print("VIOLATION C20 (legal memory layout rejected):")
    for b in bad:
        print("  ", b)
    sys.exit(1)
print("ok")
