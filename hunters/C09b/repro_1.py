"""C09: kalman_filter ignores the measurement (gain 0) or returns NaN when SPD q, r are very large / very small,
because inv_n divides cofactors by a determinant that overflows (> ~1.8e308) or underflows (< ~1e-308) although the
innovation covariance S itself is a perfectly representable, perfectly conditioned matrix (a multiple of I).
A textbook per-feature filter (np.linalg.inv / solve) gives K = 0.5*I."""
import sys, warnings
import numpy as np
import os; sys.path.insert(0, os.environ.get('CENTROSOME_TREE', os.getcwd()))
import centrosome.filter as F
warnings.simplefilter('ignore')

def textbook(x, P, z, q, r, H, A):
    xp = A.dot(x); Pp = A.dot(P).dot(A.T) + q
    K = Pp.dot(H.T).dot(np.linalg.inv(H.dot(Pp).dot(H.T) + r))
    return xp + K.dot(z - H.dot(xp)), Pp - K.dot(H).dot(Pp)

fail = 0
for s in (1e154, 1e-170):
    st = F.kalman_filter(F.static_kalman_model(), [-1], np.array([[0., 0.]]), np.eye(2)[None] * s, np.eye(2)[None] * s)
    x, P = st.state_vec[0].copy(), st.state_cov[0].copy()
    for f in range(2):   # two retained steps (the small-scale case needs P to have shrunk to ~r first)
        z = np.array([[1., 1.]])
        st = F.kalman_filter(st, [0], z, np.eye(2)[None] * s, np.eye(2)[None] * s)
        x, P = textbook(x, P, z[0], np.eye(2) * s, np.eye(2) * s, np.eye(2), np.eye(2))
    ok = np.allclose(st.state_vec[0], x, rtol=1e-6) and np.allclose(st.state_cov[0], P, rtol=1e-6, atol=0)
    print("q = r = %g * I : library state_vec %s  textbook %s ; library cov diag %s textbook %s -> %s" % (
        s, st.state_vec[0], x, np.diag(st.state_cov[0]), np.diag(P), "ok" if ok else "VIOLATION"))
    fail |= not ok
sys.exit(1 if fail else 0)
