"""C09 (environment dependent, low severity): with numpy floating point errors set to 'raise' (np.seterr / np.errstate,
or warnings turned into errors, e.g. python -W error / pytest -W error) kalman_filter raises on EVERY frame that
contains a new feature for the velocity and reverse-velocity models, because the initial covariance is built by
dividing by zero on purpose (SMALL_KALMAN_COV / [1,1,0,0]) and patching the infinities afterwards."""
import sys
import numpy as np
import os; sys.path.insert(0, os.environ.get('CENTROSOME_TREE', os.getcwd()))
import centrosome.filter as F
fail = 0
with np.errstate(divide='raise'):
    for mk in (F.velocity_kalman_model, F.reverse_velocity_kalman_model):
        try:
            F.kalman_filter(mk(), [-1], np.array([[1., 2.]]), np.eye(4)[None], np.eye(2)[None])
        except FloatingPointError as e:
            print(mk.__name__, "one new feature ->", repr(e)); fail = 1
sys.exit(fail)
