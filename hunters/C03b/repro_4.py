# C03 (borderline: NaN is not a real value): a NaN with the sign bit set (what 0.0/0.0 yields on x86) OUTSIDE the mask.
# Pixels whose 3x3 neighbourhood contains it get a NaN cost whose heap key is NEGATIVE, so they are popped before
# everything else and hand NaN to neighbours whose own neighbourhoods do not contain the NaN; "distances > d" is then
# never true, so the finite shortest path is never recorded. With a positive NaN the same pixels get the finite values.
import sys, struct, numpy as np
from centrosome.propagate import propagate
with np.errstate(all="ignore"):
    negnan = (np.zeros(1) / np.zeros(1))[0]
if not np.signbit(negnan):
    negnan = struct.unpack("d", struct.pack("Q", 0xFFF8000000000000))[0]
def run(v):
    im = np.zeros((5, 7)); im[0, 6] = v
    mask = np.ones((5, 7), bool); mask[0, 6] = False
    l = np.zeros((5, 7), int); l[4, 0] = 1
    return propagate(im, l, mask, 1.0)
lo_p, do_p = run(np.nan); lo_n, do_n = run(negnan)
# pixels (2,6),(3,6),(4,6): neighbourhood rows 1..5 / cols 5..6 do not include (0,6); finite paths exist (6.83, 6.41, 6.0)
if np.isnan(do_n[2:, 6]).any():
    print("VIOLATION: -nan outside mask: distances column 6 = %s ; with +nan = %s" % (do_n[:, 6].tolist(), do_p[:, 6].tolist())); sys.exit(1)
sys.exit(0)
