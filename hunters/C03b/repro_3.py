# C03: integer image with values above 2**53: the wrapper converts to float64 first, adjacent values collapse,
# D is computed on the rounded values (here 0 instead of 3).
import sys, numpy as np
from centrosome.propagate import propagate
image = np.array([[2**53, 2**53 + 1]], dtype=np.int64); labels = np.array([[1, 0]]); mask = np.ones((1, 2), bool)
lo, do = propagate(image, labels, mask, 0)
# exact: N(0,0) = rows of (a0,a0,a1), N(0,1) = rows of (a0,a1,a1) -> D = 3*|a0-a1| = 3
if do[0, 1] != 3.0:
    print("VIOLATION: int64 image [[2**53, 2**53+1]], weight 0: distance %r expected 3.0" % do[0, 1]); sys.exit(1)
sys.exit(0)
