# C03: mask with truthy fractional float values (0.5) is cast to int8 -> 0, so nothing propagates,
# although the same mask is treated as True when the seeds are collected (np.logical_and(labels != 0, mask)).
import sys, numpy as np
from centrosome.propagate import propagate
image = np.zeros((1, 4)); labels = np.array([[1, 0, 0, 0]]); mask = np.full((1, 4), 0.5)
lo, do = propagate(image, labels, mask, 1.0)
lo_b, do_b = propagate(image, labels, mask.astype(bool), 1.0)   # same mask as bool
exp_l = [[1, 1, 1, 1]]; exp_d = [[0.0, 1.0, 2.0, 3.0]]
if lo.tolist() != exp_l or do.tolist() != exp_d:
    print("VIOLATION: mask=0.5 (truthy) -> labels %s distances %s; expected %s %s (bool(mask) gives %s %s)" % (lo.tolist(), do.tolist(), exp_l, exp_d, lo_b.tolist(), do_b.tolist()))
    sys.exit(1)
sys.exit(0)
