# C03: tiny weight whose square underflows: weight*weight is subnormal (1e-160 -> distances off by 5.6e-6 relative)
# or zero (1e-170 -> every step costs 0, all pixels tie at 0 and get the SMALLEST label instead of the nearest seed's).
# The true costs (k * 1e-170) are ordinary normal doubles.
import sys, numpy as np
from centrosome.propagate import propagate
image = np.zeros((1, 7)); labels = np.array([[2, 0, 0, 0, 0, 0, 1]]); mask = np.ones((1, 7), bool)
bad = 0
lo, do = propagate(image, labels, mask, 1e-170)
exp_d = [0.0, 1e-170, 2e-170, 3e-170, 2e-170, 1e-170, 0.0]
if lo[0, 2] != 2 or not np.allclose(do[0], exp_d, rtol=1e-9, atol=0):
    print("VIOLATION w=1e-170: labels %s distances %s; expected labels [2,2,2,(1|2),1,1,1] distances %s" % (lo.tolist(), do.tolist(), exp_d)); bad = 1
lo, do = propagate(image, labels, mask, 1e-160)
exp_d = [0.0, 1e-160, 2e-160, 3e-160, 2e-160, 1e-160, 0.0]
if not np.allclose(do[0], exp_d, rtol=1e-9, atol=0):
    print("VIOLATION w=1e-160: distances %s expected %s (relative error %.2e)" % (do.tolist(), exp_d, abs(do[0, 1] - 1e-160) / 1e-160)); bad = 1
sys.exit(bad)
