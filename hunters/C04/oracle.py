import numpy as np
def oracle(seed, mask, fp=None, conv='A'):
    seed = np.asarray(seed); mask = np.asarray(mask)
    if fp is None:
        fp = np.ones([3]*seed.ndim, bool)
    fp = np.array(fp, dtype=bool)
    c = tuple(d//2 for d in fp.shape)
    fp[c] = True
    offs = [tuple(int(i)-cc for i, cc in zip(idx, c)) for idx in zip(*np.nonzero(fp))]
    g = seed.astype(float).copy() if seed.dtype.kind == 'f' else seed.copy()
    shp = seed.shape
    while True:
        new = g.copy()
        for off in offs:
            if conv == 'B':
                off = tuple(-o for o in off)
            # new[q] = max(new[q], g[q-off])  => dest slice q, src slice q-off
            dst = []; src = []
            ok = True
            for o, n in zip(off, shp):
                if abs(o) >= n:
                    ok = False; break
                if o >= 0:
                    dst.append(slice(o, n)); src.append(slice(0, n-o))
                else:
                    dst.append(slice(0, n+o)); src.append(slice(-o, n))
            if not ok: continue
            dst = tuple(dst); src = tuple(src)
            new[dst] = np.maximum(new[dst], g[src])
        new = np.minimum(new, mask)
        if np.array_equal(new, g):
            return g
        g = new
