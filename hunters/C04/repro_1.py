"""C04 violation: integer-valued int64/uint64 images whose values are not exactly representable in float64.
grey_reconstruction copies seed and mask into a float64 work array (np.ones(dims) * np.min(image)), so the
result is rounded: with seed == mask the output differs from the mask and lies BELOW the seed (int64) or
ABOVE the mask (uint64), i.e. it is not the smallest image between seed and mask fixed by the step."""
import sys
sys.path.insert(0, '/tmp/hunt-C04') if __import__('os').path.isdir('/tmp/hunt-C04') else sys.path.insert(0, '/repo')
import numpy as np
from centrosome.cpmorphology import grey_reconstruction

bad = []
v = 2**53 + 1
seed = np.array([[v]], np.int64); mask = np.array([[v]], np.int64)
r = grey_reconstruction(seed, mask)
if int(r[0, 0]) != v:
    bad.append("int64 1x1 seed==mask==%d: expected [[%d]], got [[%d]] (dtype %s): result < seed" % (v, v, int(r[0, 0]), r.dtype))
u = 2**64 - 1
seed = np.array([[u, 0]], np.uint64); mask = np.array([[u, u - 1]], np.uint64)
r = grey_reconstruction(seed, mask)
got = [int(x) for x in r.ravel()]
if got != [u, u - 1]:
    bad.append("uint64 1x2 seed=[[%d,0]] mask=[[%d,%d]]: expected %s, got %s: result > mask" % (u, u, u - 1, [u, u - 1], got))
if bad:
    print("\n".join(bad)); sys.exit(1)
sys.exit(0)
