import os, sys
sys.path.insert(0, os.getcwd())  # run as: cd <library tree> && /venv/bin/python <this file>
import numpy as np

# pairwise_permutations: sparse group labels -> dense (unused) i_to_r table of max(i)-min(i)+1 int64 -> MemoryError
from centrosome.cpmorphology import pairwise_permutations
try:
    r = pairwise_permutations(np.array([0, 0, 10 ** 12]), np.array([1, 2, 3]))
except MemoryError as e:
    print("VIOLATION: pairwise_permutations([0,0,10**12],[1,2,3]) raised MemoryError:", e); sys.exit(1)
got = sorted(zip(*[x.tolist() for x in r]))
if got != [(0, 1, 2)]:
    print("VIOLATION: wrong result", got); sys.exit(1)
sys.exit(0)
