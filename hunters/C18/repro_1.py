import os, sys
sys.path.insert(0, os.getcwd())  # run as: cd <library tree> && /venv/bin/python <this file>
import numpy as np

# pairwise_permutations: i of a narrow signed dtype (int8), 128 singleton groups before the first group with a pair
from centrosome.cpmorphology import pairwise_permutations
i = np.hstack([np.arange(-128, 0), [0, 0]]).astype(np.int8)   # groups -128..-1 are singletons, group 0 has 2 members
j = np.arange(130)
d_i, d_j1, d_j2 = pairwise_permutations(i, j)
got = sorted(zip(d_i.tolist(), d_j1.tolist(), d_j2.tolist()))
exp = [(0, 128, 129)]
if got != exp:
    print("VIOLATION: pairwise_permutations(int8 i) returned", got, "expected", exp)
    sys.exit(1)
sys.exit(0)
