import os, sys
sys.path.insert(0, os.getcwd())  # run as: cd <library tree> && /venv/bin/python <this file>
import numpy as np

# rank_order: bin limit <= 0 never terminates (run in a child with a 20 s timeout)
import subprocess
code = "import os,sys; sys.path.insert(0, os.getcwd()); import numpy as np; from centrosome.rankorder import rank_order; rank_order(np.array([1]), 0)"
try:
    p = subprocess.run([sys.executable, "-c", code], timeout=20, capture_output=True, text=True)
except subprocess.TimeoutExpired:
    print("VIOLATION: rank_order(np.array([1]), 0) does not terminate (killed after 20 s)"); sys.exit(1)
sys.exit(0)   # terminated (result or exception) -> no hang
