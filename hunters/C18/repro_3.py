import os, sys
sys.path.insert(0, os.getcwd())  # run as: cd <library tree> && /venv/bin/python <this file>
import numpy as np

# median_of_labels: a label requested twice gets NaN at all but its last position
from centrosome.cpmorphology import median_of_labels
r = median_of_labels(np.array([5.0]), np.array([1]), [1, 1])
if not np.array_equal(r, [5.0, 5.0]):
    print("VIOLATION: median_of_labels([5.], [1], [1, 1]) returned", r, "expected [5. 5.] (label 1 has a pixel)")
    sys.exit(1)
sys.exit(0)
