import os, sys
sys.path.insert(0, os.getcwd())  # run as: cd <library tree> && /venv/bin/python <this file>
import numpy as np

# pairwise_permutations: float-valued members j and only singleton groups -> IndexError (with at least one pair it works)
from centrosome.cpmorphology import pairwise_permutations
ok = pairwise_permutations(np.array([1, 1, 2]), np.array([1.5, 2.5, 7.0]))
assert [x.tolist() for x in ok] == [[1], [1.5], [2.5]], ok
try:
    r = pairwise_permutations(np.array([1]), np.array([1.0]))
except Exception as e:
    print("VIOLATION: pairwise_permutations(array([1]), array([1.])) raised %s: %s (expected three empty arrays)" % (type(e).__name__, e))
    sys.exit(1)
if not all(len(x) == 0 for x in r):
    print("VIOLATION: non-empty", r); sys.exit(1)
sys.exit(0)
