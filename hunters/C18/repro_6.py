import os, sys
sys.path.insert(0, os.getcwd())  # run as: cd <library tree> && /venv/bin/python <this file>
import numpy as np

# uint64 label / group arrays: max + 1 becomes a float64 under NumPy 1.x promotion -> TypeError from np.zeros
from centrosome.cpmorphology import median_of_labels, pairwise_permutations
bad = 0
try:
    r = median_of_labels(np.array([1., 2., 3.]), np.array([1, 1, 2], np.uint64), [1, 2])
    if not np.array_equal(r, [1.5, 3.0]): print("VIOLATION: wrong", r); bad = 1
except Exception as e:
    print("VIOLATION: median_of_labels with uint64 labels raised %s: %s" % (type(e).__name__, e)); bad = 1
try:
    r = pairwise_permutations(np.array([1, 1, 2], np.uint64), np.arange(3))
    if [x.tolist() for x in r] != [[1], [0], [1]]: print("VIOLATION: wrong", r); bad = 1
except Exception as e:
    print("VIOLATION: pairwise_permutations with uint64 i raised %s: %s" % (type(e).__name__, e)); bad = 1
sys.exit(bad)
