"""laplacian_of_gaussian / variance_transform / convex_hull_transform with a 0/1 int64 mask: `~mask` is -1/-2 and
is used as a fancy ROW index, so the wrong pixels are zeroed and masked-out values reach the inside of the mask."""
import os, sys; sys.path.insert(0, os.path.dirname(os.path.abspath(__file__)))
from _common import *
from centrosome.filter import laplacian_of_gaussian, variance_transform, convex_hull_transform
a  = np.array([[0.1, 0.2], [0.3, 0.4], [0.5, 0.6]])
a2 = np.array([[0.1, 9.0], [9.0, 9.0], [9.0, 9.0]])
m  = np.array([[1, 0], [0, 0], [0, 0]], np.int64)
problems = []
problems += relational("laplacian_of_gaussian[int64 mask]", lambda a, m: laplacian_of_gaussian(a, m, 3, 0.7), a, a2, m)
problems += relational("variance_transform[int64 mask]", lambda a, m: variance_transform(a, 1.0, m), a, a2, m)
a3 = np.array([[9.0, 0.2], [9.0, 9.0], [9.0, 9.0]]); m3 = np.array([[0, 1], [0, 0], [0, 0]], np.int64)
problems += relational("convex_hull_transform[int64 mask]", lambda a, m: convex_hull_transform(a, levels=8, mask=m), a, a3, m3)
# the same three with a uint8 0/1 mask raise IndexError (index 254/255) on any image with < 255 rows
mu = m.astype(np.uint8)
for nm, f in (("laplacian_of_gaussian", lambda: laplacian_of_gaussian(a, mu, 3, 0.7)), ("variance_transform", lambda: variance_transform(a, 1.0, mu))):
    try: f()
    except Exception as e: problems.append("%s[uint8 0/1 mask] raises %s: %s" % (nm, type(e).__name__, e))
finish(problems)
