"""circular_average_filter raises ValueError for a legal bool mask that is Fortran-ordered (e.g. a transposed mask)."""
import os, sys; sys.path.insert(0, os.path.dirname(os.path.abspath(__file__)))
from _common import *
from centrosome.filter import circular_average_filter
image = np.arange(16.).reshape(4, 4) / 16
mask_c = np.ones((4, 4), bool); mask_c[0, 1] = False
mask_f = np.asfortranarray(mask_c)           # same values, same shape, bool; only the memory layout differs
problems = []
ref = circular_average_filter(image, 2, mask_c)
for label, m in (("np.asfortranarray(mask)", mask_f), ("mask.T.copy().T", mask_c.T.copy().T)):
    try:
        out = circular_average_filter(image, 2, m)
        if not same(out, ref): problems.append("%s: result differs from C-ordered mask" % label)
    except Exception as e:
        problems.append("circular_average_filter(image, 2, %s) raises %s: %s (C-ordered identical mask works)" % (label, type(e).__name__, e))
finish(problems)
