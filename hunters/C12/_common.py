import os, sys, warnings
sys.path.insert(0, os.getcwd())          # run as: cd <tree> && /venv/bin/python /tmp/hunt-C12.out/repro_k.py
warnings.filterwarnings("ignore")
import numpy as np

def same(x, y):
    x = np.asarray(x); y = np.asarray(y)
    if x.shape != y.shape: return False
    if x.dtype.kind == "f" or y.dtype.kind == "f":
        return bool(np.all((x == y) | (np.isnan(x.astype(float)) & np.isnan(y.astype(float)))))
    return bool(np.all(x == y))

def relational(name, fn, a, a2, m, binary=False):
    """a and a2 agree wherever m != 0.  Returns list of violation strings."""
    mb = np.asarray(m) != 0
    assert same(np.asarray(a)[mb], np.asarray(a2)[mb])
    out = []
    try: r1 = np.asarray(fn(a.copy(), m.copy()))
    except Exception as e: return ["%s: raises on run 1: %s: %s" % (name, type(e).__name__, e)]
    try: r2 = np.asarray(fn(a2.copy(), m.copy()))
    except Exception as e: return ["%s: raises on run 2 only: %s: %s" % (name, type(e).__name__, e)]
    if not same(r1[mb], r2[mb]):
        out.append("%s: output INSIDE the mask changed when only masked-out pixels changed:\n  run1 inside=%s\n  run2 inside=%s"
                   % (name, r1[mb].astype(float).round(4).tolist(), r2[mb].astype(float).round(4).tolist()))
    if binary:
        for lab, r, im in (("run1", r1, a), ("run2", r2, a2)):
            if not same(r[~mb].astype(bool), np.asarray(im)[~mb].astype(bool)):
                out.append("%s: %s output OUTSIDE the mask differs from the input there" % (name, lab))
    return out

def finish(problems):
    if problems:
        print("VIOLATION PRESENT")
        for p in problems: print(" -", p)
        sys.exit(1)
    print("ok: no violation")
    sys.exit(0)
