"""smooth_with_function_and_mask: 0/1 integer mask (the form its docstring documents) -> image[mask] is fancy row
indexing, masked-out pixel values leak into every output pixel."""
import os, sys; sys.path.insert(0, os.path.dirname(os.path.abspath(__file__)))
from _common import *
from scipy.ndimage import gaussian_filter
from centrosome.smooth import smooth_with_function_and_mask
fn = lambda a, m: smooth_with_function_and_mask(a, lambda x: gaussian_filter(x, 1.0, mode="constant"), m)
a  = np.array([[0.1], [0.2]]); a2 = np.array([[0.1], [9.0]])
problems = []
for dt in (np.uint8, np.int64):
    m = np.array([[1], [0]], dt)
    problems += relational("smooth_with_function_and_mask[mask dtype %s]" % np.dtype(dt).name, fn, a, a2, m)
    exp = fn(a, m.astype(bool))[0, 0]; got = fn(a, m)[0, 0]
    if abs(exp - got) > 1e-9: problems.append("value at the only masked-in pixel: bool mask gives %.4f, %s mask gives %.4f" % (exp, np.dtype(dt).name, got))
finish(problems)
