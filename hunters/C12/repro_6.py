"""Binary neighbourhood ops / thin / skeletonize with a 0/1 int64 mask: `masked_image[~mask] = ...` and
`result[~mask] = image[~mask]` index ROWS -1/-2 -> masked-out pixels leak inside and the outside is not restored."""
import os, sys; sys.path.insert(0, os.path.dirname(os.path.abspath(__file__)))
from _common import *
import centrosome.cpmorphology as M
B = lambda x: np.array(x, bool)
cases = {
 "fill":  ([[1,0,0],[0,0,1],[1,1,0]], [[1,0,1],[0,1,1],[1,1,0]], [[1,1,0],[1,0,1],[1,1,1]]),
 "fill4": ([[0,0,1],[1,1,0],[0,0,1]], [[0,1,1],[1,1,0],[0,0,1]], [[1,0,1],[1,1,1],[1,1,1]]),
 "bridge":([[1,0,1],[0,1,1],[1,0,0]], [[1,0,0],[1,1,1],[1,0,1]], [[1,1,0],[0,1,1],[1,1,0]]),
 "clean": ([[1,1,1],[0,0,1],[0,0,1]], [[0,1,0],[0,1,1],[0,1,1]], [[0,1,0],[1,0,1],[1,0,1]]),
 "spur":  ([[1,1,1],[0,1,1],[1,0,1]], [[0,0,1],[0,1,1],[1,1,0]], [[0,0,1],[1,1,1],[1,0,0]]),
 "thicken":([[1,0,0],[1,0,0],[1,1,0]], [[1,0,1],[1,0,0],[1,1,0]], [[1,1,0],[1,1,1],[1,1,1]]),
 "endpoints":([[1,1,1],[0,0,1],[1,0,1]], [[0,1,1],[0,0,1],[1,0,0]], [[0,1,1],[1,1,1],[1,1,0]]),
 "thin":  ([[1,0,0,1],[0,0,0,1],[1,0,1,1],[1,1,1,1]], [[1,1,0,1],[0,0,1,1],[1,1,1,1],[1,1,1,1]], [[1,0,1,1],[1,1,0,1],[1,0,1,1],[1,1,1,1]]),
 "skeletonize":([[1,1,1,1],[0,0,0,1],[1,1,1,1],[1,1,1,1]], [[0,1,1,0],[0,0,0,1],[0,1,1,1],[1,1,1,0]], [[0,1,1,0],[1,1,1,1],[0,1,1,1],[1,1,1,0]]),
 "majority":([[1,1,1,0],[1,1,1,0],[0,1,1,1],[1,1,0,1]], [[1,1,1,1],[1,1,1,0],[0,0,1,0],[1,1,1,1]], [[1,1,1,0],[1,1,1,1],[1,0,1,0],[1,1,0,1]]),
 "diag":  ([[0,0,0,1],[0,0,0,0],[1,1,1,0],[1,1,0,0]], [[0,0,0,1],[0,0,1,0],[1,1,1,0],[1,1,1,1]], [[1,1,1,1],[1,1,0,1],[1,1,1,1],[1,1,0,0]]),
 "branchpoints":([[0,1,1,0],[1,1,1,1],[0,0,1,1],[0,1,1,1]], [[0,1,0,1],[1,1,1,1],[0,0,1,0],[0,0,1,0]], [[1,1,0,0],[1,1,1,1],[1,1,1,0],[1,0,1,0]]),
}
problems = []
for name, (a, a2, m) in cases.items():
    problems += relational(name + "[int64 0/1 mask]", lambda a, m, f=getattr(M, name): f(a, m), B(a), B(a2), np.array(m, np.int64), binary=True)
# uint8 0/1 mask: IndexError on images with fewer than 255 rows
try: M.thin(B(cases["thin"][0]), np.array(cases["thin"][2], np.uint8))
except Exception as e: problems.append("thin[uint8 0/1 mask] raises %s: %s" % (type(e).__name__, e))
finish(problems)
