"""circular_hough(img, radius, nangles, mask) with a 0/1 integer mask."""
import os, sys; sys.path.insert(0, os.path.dirname(os.path.abspath(__file__)))
from _common import *
from centrosome.filter import circular_hough
a  = np.array([[0.1, 0.2], [0.3, 0.4], [0.5, 0.6]])
a2 = np.array([[0.1, 9.0], [9.0, 9.0], [9.0, 9.0]])
problems = []
for dt in (np.uint8, np.int64):
    problems += relational("circular_hough[mask dtype %s]" % np.dtype(dt).name, lambda a, m: circular_hough(a, 1, 4, mask=m), a, a2, np.array([[1, 0], [0, 0], [0, 0]], dt))
finish(problems)
