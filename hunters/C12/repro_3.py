"""stretch(image, mask) with a 0/1 integer mask: masked-out pixel decides min/max."""
import os, sys; sys.path.insert(0, os.path.dirname(os.path.abspath(__file__)))
from _common import *
from centrosome.filter import stretch
a  = np.array([[0.1], [0.2]]); a2 = np.array([[9.0], [0.2]])
problems = []
for dt in (np.uint8, np.int64):
    problems += relational("stretch[mask dtype %s]" % np.dtype(dt).name, lambda a, m: stretch(a, m), a, a2, np.array([[0], [1]], dt))
finish(problems)
