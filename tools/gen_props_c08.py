"""One-off helper: writes coq/theories/Props/C08.v from the proved lemmas' types (printed by Check), so that each
property theorem is stated in full and closed by a single `exact`.  Run from /work/c08/coq after the Proofs build."""
import re, subprocess, sys, os
LEMMAS = [
 ("walk1_lfp", "Full. First walk = least fixed point: whenever run1 stops, is_not_hole marks exactly Unch (R1-R3)."),
 ("walk1_lfp_any_order", "Full. Same for any initial stack order (any duplicate-free permutation of the border list)."),
 ("stack_bounded", "Full. The to_do stack never holds a region twice, so it never exceeds the number of regions (C19)."),
 ("walk1_terminates", "Full (graph level). The potential argument: fuel >= sum over regions of (degree + 2) always finishes the first walk."),
 ("walk2_terminates", "Full (graph level). Same potential argument for the second walk (labels are never 0 on the stack)."),
 ("adj_of_spec", "Full. Ragged index: for any edge list sorted by (i, j) with keys in range, bincount + fwd_idx + the j slice give exactly i's neighbours."),
 ("sym_edges_In", "Full. lexsort + dedupe + symmetrise + lexsort + dedupe = the symmetric closure of the raw pair list (as a set)."),
 ("parent_is_object", "Full. An unchanged region adjacent to a changed one is an object."),
 ("region_parents_le_one", "Full. A changed region touches at most one unchanged object."),
 ("changed_has_parent", "Full. In a connected image every changed region has an unchanged object next to its cluster."),
 ("cluster_unique_parent_refuted", "DESIGN.md's cluster_unique_parent is false: witness graph of [[1,1,2,2],[1,3,0,2],[1,1,2,2]]."),
 ("walk2_labels", "Full. Second walk: every changed region ends with the label of an unchanged object adjacent to its cluster."),
 ("walk2_unique", "Full. ... which is THE enclosing object when the cluster has only one (the property text's case)."),
 ("fill_graph_correct", "Full. Both walks + relabel table satisfy Spec.FillHoles.paint_ok on every region of a connected graph."),
 ("objects_only_gain", "Full. Unchanged objects keep their label; a region only ever takes the label of a parent of its cluster."),
 ("fill_labeled_holes_correct_img", "Full. IMAGE LEVEL: for every rectangular non-negative image and every numbering of the 4-connected background components, the model of fill_labeled_holes terminates within its fuel (f_ok) and every output pixel satisfies paint_ok w.r.t. the image's region graph."),
 ("labelling_ok_sound", "Full. The boolean test of the labelling hypothesis (run on scipy's output on every case) is sound."),
 ("label4_valid", "Full. The model's own flood fill label4 satisfies valid_labelling for every rectangular non-negative image (flood invariant + potential argument for its fuel)."),
 ("fill_self_correct", "Full. IMAGE LEVEL, no hypothesis about the labelling left: fill_self (label4 + fill_core) terminates and paints every pixel correctly."),
 ("binary_agrees_with_fill", "Full. Binary input: the output is non-zero exactly on the foreground and on background pixels not connected to the border through background (ordinary 4-connected hole filling); needs the full 'numbers the components' hypothesis (components_separate)."),
 ("label4_separate", "Full. The other half of 'numbers the components' for the model's flood fill: equal numbers only inside one 4-connected component (seed-path invariant)."),
 ("binary_agrees_with_fill_self", "Full, no hypothesis left: on every rectangular 0/1 image the model with its own labelling is ordinary 4-connected hole filling."),
 ("fill_idempotent", "Full. Filling twice equals filling once, for every image and any valid labellings of input and output; no unique-parent hypothesis (every region of the output is again derivable by R1-R3 in the output's graph)."),
 ("fill_self_idempotent", "Full, no hypothesis left: f_out (fill_self (f_out (fill_self x))) = f_out (fill_self x) for every rectangular non-negative image."),
 ("unch_exec_lfp", "Full. The checker's naive rule iteration, once its closure test passes, is exactly Unch."),
 ("fill_check_sound", "Full. Checker soundness: fill_check = true implies every output pixel satisfies pixel_ok."),
]
src = ["From Coq Require Import ZArith List Bool.",
       "From Centro Require Import Base.FillZMap Model.FillHoles Spec.FillHoles Proofs.FillWalk1 Proofs.FillWalk2 Proofs.FillGraph Proofs.FillSpec Proofs.FillFuel Proofs.FillLists Proofs.FillRagged Proofs.FillImage Proofs.FillLabel Proofs.FillIdem.",
       "Set Printing Width 100. Set Printing Depth 1000."]
for n, _ in LEMMAS:
    src.append('Check %s.' % n)
open("/var/tmp/c08_gen.v", "w").write("\n".join(src) + "\n")
out = subprocess.run(["coqc", "-R", "theories", "Centro", "/var/tmp/c08_gen.v"], capture_output=True, text=True, check=True).stdout
blocks = re.split(r"(?m)^(?=[A-Za-z_0-9']+\n     : )", out)
types = {}
for b in blocks:
    if not b.strip():
        continue
    name, rest = b.split("\n", 1)
    types[name.strip()] = rest.strip()[2:]
body = ["(* C08 - property theorems.  Only statements, each closed by [exact], each followed by Print Assumptions.",
        "   Generated by tools/gen_props_c08.py from the types of the lemmas in Proofs/Fill*.v; Examples showing that the",
        "   hypotheses are satisfiable: Proofs/FillGraph.v (wit_walk_runs, fill_graph_correct_example) and",
        "   Proofs/FillSpec.v (fill_check_examples).",
        "   Proofs/FillImage.v (fill_self_correct_example, binary_agrees_example), Proofs/FillIdem.v (fill_self_idempotent_example). *)",
        "From Coq Require Import ZArith List Bool.",
        "From Centro Require Import Base.FillZMap Model.FillHoles Spec.FillHoles Proofs.FillWalk1 Proofs.FillWalk2 Proofs.FillGraph Proofs.FillSpec Proofs.FillFuel Proofs.FillLists Proofs.FillRagged Proofs.FillImage Proofs.FillLabel Proofs.FillIdem.",
        "Open Scope Z_scope.", ""]
for n, doc in LEMMAS:
    body.append("(* %s *)" % doc)
    body.append("Theorem C08_%s :\n  %s.\nProof. exact %s. Qed.\nPrint Assumptions C08_%s.\n" % (n, types[n].replace("\n", "\n  "), n, n))
open("theories/Props/C08.v", "w").write("\n".join(body))
