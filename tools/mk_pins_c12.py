"""(re)compute tools/maskflow_pins_c12.json from a source tree: run ONLY after re-validating the hand-written
terms of maskflow_hand_c12.py against that tree.  usage: mk_pins_c12.py /repo"""
import json, os, sys
sys.path.insert(0, os.path.dirname(os.path.abspath(__file__)))
import gen_maskflow_c12 as G
import maskflow_hand_c12 as Hd
repo = sys.argv[1]
M = G.Module({m: open(os.path.join(repo, "centrosome", m + ".py")).read() for m in ("cpmorphology", "filter", "smooth")})
names = set(Hd.HAND)
for d in Hd.ALSO_PINNED.values():
    names.update(d)
pins = {n: G.norm_hash(M.funcs[n]) for n in sorted(names)}
for key, (fn, st) in Hd.summary_loops(M).items():
    pins[key] = G.loop_hash(fn, st)
json.dump(pins, open(os.path.join(os.path.dirname(os.path.abspath(__file__)), "maskflow_pins_c12.json"), "w"), indent=1, sort_keys=True)
print(pins)
