#!/venv/bin/python
"""C20 translator (DESIGN.md 3.2, gen_effects): Python `ast` -> effect signatures of every public
function of the modules C20 lists, as Coq text (Gen/EffectsC20.v) plus a JSON side table.

For every function (module-level `def` and class methods) of the listed modules, and of the helper
modules they import from the same package, it computes

 (i)   writes to module-level state: which global, through which form (rebinding / in-place update),
       and the class of the stored value
         KConst  - lazily filled table: the global is initialised to None at module level, the write
                   sits in an `if <g> is None:` guard with no argument-dependent control around it,
                   and the stored expression mentions no parameter (parameter-taint closure over
                   local bindings, including control dependence);
         KArg    - the stored value (or whether/what is stored) depends on a parameter;
         KAccum  - state that accumulates: a write to a global that is *not* a lazily filled None
                   (rebinding or in-place update of an initialised module table), an unguarded write
                   to a lazy one, or an in-place update of a mutable default argument;
       and the lazily filled globals it reads, with the reads not dominated by a fill listed;
 (ii)  use of the global `np.random` stream, whether a literal `np.random.seed(<const>)` dominates
       every draw (must-analysis along statement order), and use of entropy (a local
       `RandomState()` drawn from before `.seed(...)`, `default_rng()` without a seed);
 (iii) candidate in-place writes to a parameter (`p[...] =`, `p op= ...`, `p.sort()`/`fill`/...,
       `np.put(p, ..)`, `out=p`, passing p to a callee/compiled kernel that writes that position,
       `p.shape = ...`), through a flow-sensitive may-alias analysis in which rebinding to a fresh
       array (`.copy()`, `astype`, `np.array`, arithmetic, boolean/fancy index ...) kills the alias.

Interprocedural: summaries (writes-parameter, returns-alias-of-parameter, global writes/reads, RNG
use) are propagated through calls that resolve inside the analysed modules to a fixpoint; the
compiled kernels have a hand-written table (read from the .pyx); numpy/scipy semantics come from
the name tables below.  Fail-closed: any statement/expression form not listed raises Unrecognised.
"""
import ast
import json
import os
import sys

PUBLIC_MODULES = ["cpmorphology", "filter", "threshold", "otsu", "smooth", "propagate", "lapjv", "zernike",
                  "haralick", "rankorder", "outline"]


class Unrecognised(Exception):
    pass


# ------------------------------------------------------------------ semantic tables (trusted)
ALL = "ALL"
# compiled kernels: argument positions written in place, positions the result may alias
KERNEL_WRITES = {
    "skeletonize_loop": {0}, "table_lookup_index": set(), "grey_reconstruction_loop": {0, 1, 2},
    "_all_connected_components": {4}, "index_lookup": {0, 1, 2}, "prepare_for_index_lookup": set(),
    "extract_from_image_lookup": set(), "ptrsize": set(), "fill_labeled_holes_loop": ALL,
    "trace_outlines": {4, 5}, "median_filter": {2}, "masked_convolution": set(), "paeth_decoder": {0},
    "reduction_transfer": ALL, "augmenting_row_reduction": ALL, "augment": ALL,
    "convert_to_ints": set(), "propagate": {1, 3, 4}, "convex_hull_ijv": set(),
}
KERNEL_RET_ALIAS = {"index_lookup": {0, 1}}
KERNEL_MODULES = {"_cpmorphology2", "_filter", "_lapjv", "_propagate", "_convex_hull", "_fastemd"}

NP_ALIAS_FUNCS = {  # numpy functions whose result may share memory with their array argument(s)
    "asarray", "asanyarray", "ascontiguousarray", "asfortranarray", "atleast_1d", "atleast_2d", "atleast_3d",
    "ravel", "reshape", "squeeze", "transpose", "swapaxes", "moveaxis", "rollaxis", "broadcast_to",
    "broadcast_arrays", "expand_dims", "real", "imag", "diagonal", "require", "rot90", "flipud", "fliplr", "flip",
    "split", "array_split", "hsplit", "vsplit", "dsplit", "asmatrix", "asfarray", "frombuffer", "nditer",
    "lib.stride_tricks.as_strided", "ndarray", "matrix", "trim_zeros", "diag", "triu_indices_from", "nan_to_num",
}
NP_INPLACE_FUNCS = {  # numpy functions that write their first argument
    "put", "place", "putmask", "copyto", "fill_diagonal", "put_along_axis", "random.shuffle",
    "add.at", "subtract.at", "maximum.at", "minimum.at", "multiply.at", "logical_or.at", "logical_and.at",
}
ALIAS_METHODS = {  # methods whose result may share memory with the receiver
    "ravel", "reshape", "view", "transpose", "squeeze", "swapaxes", "diagonal", "newbyteorder", "getfield",
    "get", "pop", "values", "items", "keys", "setdefault", "__getitem__", "item", "getA", "getA1", "tolist_view",
}
ALIAS_ATTRS = {"T", "flat", "real", "imag", "base", "data", "A", "A1", "H"}
MUTATING_METHODS = {  # methods that modify the receiver
    "sort", "fill", "resize", "put", "itemset", "partition", "setfield", "setflags", "byteswap",
    "append", "extend", "insert", "remove", "clear", "reverse", "update", "add", "discard", "popitem",
    "pop", "setdefault", "__setitem__", "__iadd__",
}
ARRAY_EVIDENCE_ATTRS = {"shape", "dtype", "astype", "copy", "ndim", "flat", "ravel", "T", "size", "reshape", "sum",
                        "max", "min", "any", "all", "mean", "flatten", "nonzero", "transpose", "tolist", "view",
                        "sort", "fill", "strides", "data", "itemsize", "nbytes"}
RNG_NON_DRAWS = {"seed", "RandomState", "get_state", "set_state", "default_rng", "Generator", "SeedSequence",
                 "mtrand", "bit_generator", "PCG64", "MT19937"}
PASSTHROUGH_BUILTINS = {"zip", "enumerate", "reversed", "list", "tuple", "iter", "sorted_view", "next", "dict", "map",
                        "filter"}
NONDETERMINISTIC_NAMES = {"time", "datetime", "random", "uuid", "secrets", "os.urandom", "os.environ", "os.getpid",
                          "id", "hash", "input", "open"}


def dotted(node):
    """a.b.c as 'a.b.c' for Name/Attribute chains, else None"""
    parts = []
    while isinstance(node, ast.Attribute):
        parts.append(node.attr)
        node = node.value
    if isinstance(node, ast.Name):
        parts.append(node.id)
        return ".".join(reversed(parts))
    return None


def names_in(node):
    return {n.id for n in ast.walk(node) if isinstance(n, ast.Name)}


def is_const_literal(node):
    try:
        ast.literal_eval(node)
        return True
    except Exception:
        return False


# ------------------------------------------------------------------ module tables

class ModuleInfo:
    def __init__(self, name, text):
        self.name = name
        self.tree = ast.parse(text)
        self.np_names = set()          # local names bound to numpy
        self.ext_names = set()         # other external modules (scipy, math, logging ...)
        self.func_imports = {}         # local name -> (module, function)
        self.kernel_imports = {}       # local name -> kernel name
        self.kernel_mods = {}          # local name -> kernel module
        self.pkg_mods = {}             # local name -> package module (from . import x)
        self.globals_init = {}         # global name -> ast expr (module-level value)
        self.lazy = set()              # globals initialised to None
        self.memo_dicts = set()        # globals initialised to an empty dict
        self.functions = {}            # qualified name -> ast.FunctionDef
        self.classes = {}              # class name -> [method names]
        self.helper_mods = set()
        self._scan()

    def _import(self, n):
        if isinstance(n, ast.Import):
            for a in n.names:
                local = a.asname or a.name.split(".")[0]
                if a.name == "numpy":
                    self.np_names.add(local)
                else:
                    self.ext_names.add(local)
        else:
            if n.module == "__future__":
                return
            if n.level >= 1:
                if n.module is None:            # from . import _filter
                    for a in n.names:
                        local = a.asname or a.name
                        if a.name in KERNEL_MODULES:
                            self.kernel_mods[local] = a.name
                        else:
                            self.pkg_mods[local] = a.name
                            self.helper_mods.add(a.name)
                    return
                mod = n.module
                for a in n.names:
                    local = a.asname or a.name
                    if mod in KERNEL_MODULES:
                        self.kernel_imports[local] = a.name
                    else:
                        self.func_imports[local] = (mod, a.name)
                        self.helper_mods.add(mod)
                return
            for a in n.names:                   # from scipy.ndimage import label ...; from six.moves import range
                self.ext_names.add(a.asname or a.name)

    def _scan(self):
        for n in self.tree.body:
            if isinstance(n, (ast.Import, ast.ImportFrom)):
                self._import(n)
            elif isinstance(n, ast.Try):
                for s in n.body + [x for h in n.handlers for x in h.body] + n.orelse + n.finalbody:
                    if isinstance(s, (ast.Import, ast.ImportFrom)):
                        self._import(s)
                    elif not isinstance(s, ast.Pass):
                        raise Unrecognised("%s: module-level try with %s" % (self.name, type(s).__name__))
            elif isinstance(n, ast.FunctionDef):
                self.functions[n.name] = n
            elif isinstance(n, ast.ClassDef):
                ms = []
                for m in n.body:
                    if isinstance(m, ast.FunctionDef):
                        self.functions[n.name + "." + m.name] = m
                        ms.append(m.name)
                    elif isinstance(m, ast.Expr) and isinstance(m.value, ast.Constant):
                        pass
                    elif isinstance(m, (ast.Assign, ast.Pass)):
                        if isinstance(m, ast.Assign):
                            for t in m.targets:
                                self.globals_init[n.name + "." + (dotted(t) or "?")] = m.value
                    else:
                        raise Unrecognised("%s: class body %s" % (self.name, type(m).__name__))
                self.classes[n.name] = ms
            elif isinstance(n, ast.Assign):
                for t in n.targets:
                    d = dotted(t)
                    if d is None:
                        if isinstance(t, ast.Tuple) and all(isinstance(e, ast.Name) for e in t.elts):
                            for e in t.elts:
                                self.globals_init[e.id] = n.value
                            continue
                        raise Unrecognised("%s: module-level assignment target %s" % (self.name, ast.unparse(t)))
                    self.globals_init[d] = n.value
                    if isinstance(n.value, ast.Constant) and n.value.value is None:
                        self.lazy.add(d)
                    else:
                        self.lazy.discard(d)
                    if (isinstance(n.value, ast.Dict) and not n.value.keys) or (
                            isinstance(n.value, ast.Call) and isinstance(n.value.func, ast.Name)
                            and n.value.func.id == "dict" and not n.value.args and not n.value.keywords):
                        self.memo_dicts.add(d)
                    else:
                        self.memo_dicts.discard(d)
            elif isinstance(n, ast.Expr) and isinstance(n.value, ast.Constant):
                pass                                    # docstring
            elif isinstance(n, ast.If) and ast.unparse(n.test).startswith("__name__"):
                pass                                    # script entry, not executed on import
            else:
                raise Unrecognised("%s: module-level %s at line %d" % (self.name, type(n).__name__, n.lineno))
        # module-level values must not touch nondeterministic sources or the RNG
        for g, e in self.globals_init.items():
            for sub in ast.walk(e):
                d = dotted(sub) if isinstance(sub, (ast.Attribute, ast.Name)) else None
                if d and (d.split(".")[0] in {"time", "datetime", "random", "uuid", "secrets"}
                          or ".random." in "." + d + "." and d.split(".")[0] in self.np_names):
                    raise Unrecognised("%s: module-level value of %s uses %s" % (self.name, g, d))


# ------------------------------------------------------------------ per-function analysis

class FnResult:
    def __init__(self, qname, params, lineno):
        self.qname = qname
        self.params = params
        self.lineno = lineno
        self.gwrites = []          # (module.global, kind, form, line)
        self.greads = set()        # module.global (lazy ones only)
        self.unguarded_reads = []  # (module.global, line)
        self.draws = []            # (line, dominated)
        self.seed_lits = []        # literals of np.random.seed(<const>)
        self.bad_seeds = []        # lines of np.random.seed(<non-literal>) / seed()
        self.entropy = []          # lines
        self.inplace = []          # (param index, line, form)
        self.calls = []            # dict(callee, args=[set(roots)], kwargs, line, seeded, filled, ctl)
        self.ret_alias = set()     # param indices the result may alias
        self.ret_galias = set()    # module-level objects the result may alias
        self.mutable_defaults = {}  # param index -> default text
        self.memo_globals = set()
        self.mutates_self = False
        self.scalar_aug = 0
        self.user_callable_alias = 0


class State:
    def __init__(self):
        self.alias = {}            # local name (possibly dotted self.x) -> frozenset(roots)
        self.seeded = None         # literal of the dominating seed, or None
        self.filled = frozenset()  # lazy globals known to be filled here
        self.localrng = {}         # local RandomState name -> seeded?
        self.exited = False        # an argument-dependent exit happened earlier
        self.taint = set()         # local names whose value may depend on a parameter (flow-sensitive)
        self.facts = {}            # local name -> True (known to be None here) / False (known not None)
        self.keys = {}             # local name -> parameters it is a tuple of (dict keys)

    def copy(self):
        s = State()
        s.alias = dict(self.alias)
        s.seeded = self.seeded
        s.filled = self.filled
        s.localrng = dict(self.localrng)
        s.exited = self.exited
        s.taint = set(self.taint)
        s.facts = dict(self.facts)
        s.keys = dict(self.keys)
        return s

    @staticmethod
    def join(a, b):
        s = State()
        for k in set(a.alias) | set(b.alias):
            s.alias[k] = a.alias.get(k, frozenset()) | b.alias.get(k, frozenset())
        s.seeded = a.seeded if (a.seeded is not None and b.seeded is not None) else None
        s.filled = a.filled & b.filled
        for k in set(a.localrng) | set(b.localrng):
            s.localrng[k] = a.localrng.get(k, False) and b.localrng.get(k, False)
        s.exited = a.exited or b.exited
        s.taint = a.taint | b.taint
        s.facts = {k: v for k, v in a.facts.items() if b.facts.get(k) is v}
        s.keys = {k: v for k, v in a.keys.items() if b.keys.get(k) == v}
        return s


class FnAnalysis:
    def __init__(self, prog, mod, qname, fdef, taint_sources=None):
        self.taint_sources = taint_sources          # None: every parameter (memo probe: the non-key ones)
        self.memo_probe = {}                        # line -> stored value and control free of the sources
        self.memo_cands = []                        # (global, key parameters, line)
        self.prog = prog
        self.mod = mod
        self.qname = qname
        self.f = fdef
        a = fdef.args
        if a.posonlyargs:
            raise Unrecognised("%s: positional-only parameters" % qname)
        self.params = [x.arg for x in a.args] + ([a.vararg.arg] if a.vararg else []) + \
                      [x.arg for x in a.kwonlyargs] + ([a.kwarg.arg] if a.kwarg else [])
        self.res = FnResult(mod.name + "." + qname, self.params, fdef.lineno)
        self.declared_global = set()
        self.local_names = set(self.params)
        self.scalar_params = set()
        self.array_evidence = set()
        defaults = [None] * (len(a.args) - len(a.defaults)) + list(a.defaults)
        for k, d in enumerate(defaults):
            if d is None:
                continue
            if isinstance(d, ast.Constant) and isinstance(d.value, (int, float, bool, str)) and d.value is not None:
                self.scalar_params.add(a.args[k].arg)
            if isinstance(d, (ast.List, ast.Dict, ast.Set, ast.ListComp, ast.DictComp, ast.SetComp, ast.Call)):
                self.res.mutable_defaults[k] = ast.unparse(d)
        for k, d in zip(a.kwonlyargs, a.kw_defaults):
            if d is not None and isinstance(d, (ast.List, ast.Dict, ast.Set, ast.Call)):
                self.res.mutable_defaults[self.params.index(k.arg)] = ast.unparse(d)
        self._collect_names()

    # -- name collection, taint closure -------------------------------------------------------
    def _collect_names(self):
        for n in ast.walk(self.f):
            if isinstance(n, ast.Global):
                self.declared_global.update(n.names)
            elif isinstance(n, ast.Nonlocal):
                raise Unrecognised("%s: nonlocal" % self.qname)
            elif isinstance(n, (ast.NamedExpr, ast.Await, ast.AsyncFor, ast.AsyncWith, ast.AsyncFunctionDef)):
                raise Unrecognised("%s: %s" % (self.qname, type(n).__name__))
            elif isinstance(n, ast.Name) and isinstance(n.ctx, (ast.Store, ast.Del)):
                self.local_names.add(n.id)
            elif isinstance(n, (ast.FunctionDef, ast.ClassDef)) and n is not self.f:
                if isinstance(n, ast.ClassDef):
                    raise Unrecognised("%s: nested class" % self.qname)
                self.local_names.add(n.name)
                for x in n.args.args + n.args.kwonlyargs + [y for y in (n.args.vararg, n.args.kwarg) if y]:
                    self.local_names.add(x.arg)
            elif isinstance(n, ast.Lambda):
                for x in n.args.args:
                    self.local_names.add(x.arg)
            elif isinstance(n, ast.ExceptHandler) and n.name:
                self.local_names.add(n.name)
            elif isinstance(n, ast.alias):
                self.local_names.add((n.asname or n.name).split(".")[0])
            if isinstance(n, ast.Subscript) and isinstance(n.value, ast.Name):
                self.array_evidence.add(n.value.id)
            if isinstance(n, ast.Attribute) and isinstance(n.value, ast.Name) and n.attr in ARRAY_EVIDENCE_ATTRS:
                self.array_evidence.add(n.value.id)
        self.local_names -= self.declared_global

    def is_global_name(self, name):
        """a bare name that refers to module-level *data* (not a function/class/import)"""
        if name in self.local_names:
            return False
        m = self.mod
        if name in m.functions or name in m.classes or name in m.np_names or name in m.ext_names \
                or name in m.func_imports or name in m.kernel_imports or name in m.kernel_mods or name in m.pkg_mods:
            return False
        return name in m.globals_init or name in self.declared_global

    def expr_tainted(self, e, st, bound=frozenset()):
        """does e mention a free name whose value may depend on a parameter (or a non-constant global, or
        a draw from the global random stream)?"""
        if e is None:
            return False
        if isinstance(e, ast.Name):
            if e.id in bound:
                return False
            if e.id in st.taint:
                return True
            if self.is_global_name(e.id) and e.id not in self.mod.memo_dicts \
                    and (self.mod.name + "." + e.id) in self.prog.nonconst_globals:
                return True          # (a dict initialised empty is judged where it is written: memo entry or not)
            return False
        if isinstance(e, (ast.ListComp, ast.SetComp, ast.GeneratorExp, ast.DictComp)):
            b = set(bound)
            for g in e.generators:
                if self.expr_tainted(g.iter, st, frozenset(b)):
                    return True
                b |= {n.id for n in ast.walk(g.target) if isinstance(n, ast.Name)}
                if any(self.expr_tainted(c, st, frozenset(b)) for c in g.ifs):
                    return True
            parts = [e.key, e.value] if isinstance(e, ast.DictComp) else [e.elt]
            return any(self.expr_tainted(x, st, frozenset(b)) for x in parts)
        if isinstance(e, ast.Lambda):
            b = set(bound) | {x.arg for x in e.args.args}
            return self.expr_tainted(e.body, st, frozenset(b))
        if isinstance(e, ast.Attribute):
            d = dotted(e)
            if d and d.split(".")[0] in self.mod.np_names and ".random." in "." + d + "." \
                    and d.split(".")[-1] not in RNG_NON_DRAWS:
                return True          # value drawn from the global stream
            if d and d in st.taint:
                return True
        return any(self.expr_tainted(ch, st, bound) for ch in ast.iter_child_nodes(e))

    def has_tainted_exit(self, stmts, st, ctl_tainted=False):
        """a break/continue/return/raise under argument-dependent control inside a loop body: the
        number of iterations executed (hence everything the loop binds) depends on the arguments"""
        for s in stmts:
            if isinstance(s, (ast.Break, ast.Continue, ast.Return, ast.Raise)) and ctl_tainted:
                return True
            if isinstance(s, ast.If):
                t = ctl_tainted or self.expr_tainted(s.test, st)
                if self.has_tainted_exit(s.body, st, t) or self.has_tainted_exit(s.orelse, st, t):
                    return True
            elif isinstance(s, (ast.For, ast.While)):
                t = ctl_tainted or self.expr_tainted(s.iter if isinstance(s, ast.For) else s.test, st)
                if self.has_tainted_exit(s.body, st, t):
                    return True
            elif isinstance(s, ast.With):
                if self.has_tainted_exit(s.body, st, ctl_tainted):
                    return True
            elif isinstance(s, ast.Try):
                if any(self.has_tainted_exit(b, st, ctl_tainted) for b in
                       [s.body, s.orelse, s.finalbody] + [h.body for h in s.handlers]):
                    return True
        return False

    @staticmethod
    def ctl_tainted(ctl):
        return any(tn for (_, tn, g) in ctl if g is None)

    def ctl_entry(self, test, st, force=False):
        g = self._guard_global(test)
        return (test, bool(force or (g is None and self.expr_tainted(test, st))), g)

    def _none_fact(self, test):
        """(name, v): the test being true means local `name` is None (v True) / is not None (v False)"""
        neg = False
        while isinstance(test, ast.UnaryOp) and isinstance(test.op, ast.Not):
            neg = not neg
            test = test.operand
        if isinstance(test, ast.Compare) and len(test.ops) == 1 and isinstance(test.left, ast.Name) \
                and isinstance(test.comparators[0], ast.Constant) and test.comparators[0].value is None \
                and test.left.id in self.local_names:
            op = test.ops[0]
            if isinstance(op, (ast.Is, ast.Eq)):
                return test.left.id, (not neg)
            if isinstance(op, (ast.IsNot, ast.NotEq)):
                return test.left.id, neg
        return None

    @staticmethod
    def tag(roots, name, v):
        return frozenset(r if "?" in r else "%s?%s=%d" % (r, name, 1 if v else 0) for r in roots)

    def live_roots(self, roots, st):
        """drop roots recorded only under a `x is None` / `x is not None` fact that contradicts what is
        known at this point"""
        out = set()
        for r in roots:
            if "?" in r:
                base, cond = r.split("?", 1)
                name, v = cond.rsplit("=", 1)
                if name in st.facts and st.facts[name] != (v == "1"):
                    continue
            out.add(r)
        return frozenset(out)

    def _is_guard_test(self, test):
        """`g is None` / `g == None` for a lazy global g"""
        return self._guard_global(test) is not None

    def _guard_global(self, test):
        if isinstance(test, ast.Compare) and len(test.ops) == 1 and isinstance(test.ops[0], (ast.Is, ast.Eq)) \
                and isinstance(test.left, ast.Name) and isinstance(test.comparators[0], ast.Constant) \
                and test.comparators[0].value is None and self.is_global_name(test.left.id):
            return test.left.id
        return None

    # -- alias evaluation ---------------------------------------------------------------------
    def roots(self, e, st):
        """set of roots ('P:<idx>' parameter, 'G:<module.global>') expression e may share memory with"""
        if e is None:
            return frozenset()
        if isinstance(e, ast.Name):
            if e.id in st.alias:
                return st.alias[e.id]
            if self.is_global_name(e.id):
                return frozenset(["G:%s.%s" % (self.mod.name, e.id)])
            return frozenset()
        if isinstance(e, ast.Attribute):
            d = dotted(e)
            if d and d in st.alias:
                return st.alias[d]
            if e.attr in ALIAS_ATTRS:
                return self.roots(e.value, st)
            if isinstance(e.value, ast.Name) and e.value.id == "self" and "self" in self.params:
                return self.roots(e.value, st)         # a field of self: belongs to the object passed in
            return frozenset()
        if isinstance(e, ast.Subscript):
            base = self.roots(e.value, st)
            if not base:
                return base
            if isinstance(e.value, ast.Name) and self.is_global_name(e.value.id) and e.value.id in self.mod.memo_dicts:
                return base                  # an entry of a module-level dict: the stored object itself
            return base if self._index_is_view(e.slice, st) else frozenset()
        if isinstance(e, ast.Starred):
            return self.roots(e.value, st)
        if isinstance(e, (ast.Tuple, ast.List, ast.Set)):
            r = frozenset()
            for x in e.elts:
                r |= self.roots(x, st)
            return r
        if isinstance(e, ast.Dict):
            r = frozenset()
            for x in e.values:
                r |= self.roots(x, st)
            return r
        if isinstance(e, ast.IfExp):
            return self.roots(e.body, st) | self.roots(e.orelse, st)
        if isinstance(e, ast.BoolOp):           # `a or b` returns one of the operands
            r = frozenset()
            for x in e.values:
                r |= self.roots(x, st)
            return r
        if isinstance(e, ast.Call):
            return self.call_roots(e, st)
        if isinstance(e, (ast.BinOp, ast.UnaryOp, ast.Compare, ast.Constant, ast.JoinedStr, ast.ListComp,
                          ast.SetComp, ast.DictComp, ast.GeneratorExp, ast.Lambda, ast.Slice, ast.FormattedValue)):
            return frozenset()
        raise Unrecognised("%s: expression %s at line %d" % (self.qname, type(e).__name__, getattr(e, "lineno", 0)))

    def _index_is_view(self, sl, st):
        """basic indexing (slices, integers, Ellipsis, None) gives a view; a boolean or integer array
        index gives a fresh array"""
        if isinstance(sl, ast.Tuple):
            # a name of unknown type next to a slice / Ellipsis (`w[node, :]`) is read as an integer: basic
            # indexing, a view (conservative: an index array there would give a copy)
            has_slice = any(isinstance(x, ast.Slice) or (isinstance(x, ast.Constant) and x.value is Ellipsis)
                            for x in sl.elts)
            return all((has_slice and isinstance(x, ast.Name) and x.id not in self.array_evidence)
                       or self._index_is_view(x, st) for x in sl.elts)
        if isinstance(sl, ast.Slice):
            return True
        if isinstance(sl, ast.Constant):
            return sl.value is None or sl.value is Ellipsis or isinstance(sl.value, (int, str))
        if isinstance(sl, ast.Name):
            return sl.id in self.int_names or sl.id in {"Ellipsis"}
        if isinstance(sl, ast.UnaryOp) and isinstance(sl.op, ast.USub):
            return self._index_is_view(sl.operand, st)
        if isinstance(sl, ast.BinOp):
            return all(isinstance(x, (ast.Constant,)) or (isinstance(x, ast.Name) and x.id in self.int_names)
                       for x in (sl.left, sl.right))
        if isinstance(sl, ast.Attribute) and dotted(sl) and dotted(sl).endswith("newaxis"):
            return True
        return False

    def call_roots(self, c, st):
        kind, target = self.resolve(c.func, st)
        argr = [self.roots(a, st) for a in c.args]
        allr = frozenset().union(*argr) if argr else frozenset()
        for k in c.keywords:
            allr |= self.roots(k.value, st)
        if kind == "np":
            if target in ("array", "asarray", "asanyarray") or target in NP_ALIAS_FUNCS:
                if target == "array":
                    cp = [k for k in c.keywords if k.arg == "copy"]
                    if not cp or not (isinstance(cp[0].value, ast.Constant) and cp[0].value.value is False):
                        return frozenset()
                if target == "nan_to_num":
                    cp = [k for k in c.keywords if k.arg == "copy"]
                    if not cp or not (isinstance(cp[0].value, ast.Constant) and cp[0].value.value is False):
                        return frozenset()
                return allr
            r = frozenset()
            for k in c.keywords:
                if k.arg in ("out", "output"):
                    r |= self.roots(k.value, st)
            return r
        if kind == "builtin":
            return allr if target in PASSTHROUGH_BUILTINS else frozenset()
        if kind == "method":
            recv, meth = target
            rr = self.roots(recv, st)
            if meth == "astype":
                cp = [k for k in c.keywords if k.arg == "copy"]
                if cp and isinstance(cp[0].value, ast.Constant) and cp[0].value.value is False:
                    return rr
                return frozenset()
            if meth in ALIAS_METHODS:
                return rr
            return frozenset()
        if kind == "kernel":
            pos = KERNEL_RET_ALIAS.get(target, set())
            r = frozenset()
            for p in pos:
                if p < len(argr):
                    r |= argr[p]
            return r
        if kind == "fn":
            summ = self.prog.summary.get(target)
            r = frozenset()
            if summ is not None:
                for p in summ["ret_alias"]:
                    r |= self.arg_roots_for_param(c, target, p, st)
                r |= frozenset("G:" + g for g in summ.get("ret_galias", ()))
            return r
        if kind == "class":
            return allr                      # the object keeps references to its constructor arguments
        if kind == "selfmethod":
            summ = self.prog.summary.get(target)
            r = frozenset()
            if summ is not None:
                for p in summ["ret_alias"]:
                    r |= self.arg_roots_for_param(c, target, p, st, bound=True)
            return r
        return frozenset()                   # external / user callable: result assumed fresh

    def arg_roots_for_param(self, c, target, p, st, bound=False):
        """roots of the actual argument that lands in parameter position p of the callee"""
        params = self.prog.params[target]
        off = 0
        if bound:
            if p == 0:
                return self.roots(c.func.value, st) if isinstance(c.func, ast.Attribute) else frozenset()
            off = 1
        r = frozenset()
        if any(isinstance(a, ast.Starred) for a in c.args) or any(k.arg is None for k in c.keywords):
            for a in c.args:
                r |= self.roots(a, st)
            for k in c.keywords:
                r |= self.roots(k.value, st)
            return r
        if p - off < len(c.args) and p - off >= 0:
            r |= self.roots(c.args[p - off], st)
        if p < len(params):
            for k in c.keywords:
                if k.arg == params[p]:
                    r |= self.roots(k.value, st)
        return r

    def resolve(self, func, st):
        m = self.mod
        if isinstance(func, ast.Name):
            n = func.id
            if n in self.local_names:
                return "local", n
            if n in m.functions:
                return "fn", m.name + "." + n
            if n in m.classes:
                return "class", m.name + "." + n
            if n in m.func_imports:
                mod, fn = m.func_imports[n]
                pm = self.prog.modules.get(mod)
                if pm is not None and fn in pm.classes:
                    return "class", mod + "." + fn
                return "fn", mod + "." + fn
            if n in m.kernel_imports:
                return "kernel", m.kernel_imports[n]
            if n in m.ext_names:
                return "ext", n
            return "builtin", n
        if isinstance(func, ast.Attribute):
            d = dotted(func)
            if d:
                head = d.split(".")[0]
                if head not in self.local_names:
                    rest = d[len(head) + 1:]
                    if head in m.np_names:
                        return "np", rest
                    if head in m.kernel_mods:
                        return "kernel", rest
                    if head in m.pkg_mods:
                        return "fn", m.pkg_mods[head] + "." + rest
                    if head in m.ext_names:
                        return "ext", d
                    if head in m.functions or head in m.classes:
                        return "ext", d        # attribute of a function object
                if head == "self" and "self" in self.params and "." in self.qname and d.count(".") == 1:
                    cls = self.qname.split(".")[0]
                    if func.attr in m.classes.get(cls, []):
                        return "selfmethod", "%s.%s.%s" % (m.name, cls, func.attr)
            return "method", (func.value, func.attr)
        return "expr", None

    # -- effects of calls ---------------------------------------------------------------------
    def param_roots(self, roots):
        return sorted({int(r.split("?")[0][2:]) for r in roots if r.startswith("P:")})

    def global_roots(self, roots):
        return sorted({r.split("?")[0][2:] for r in roots if r.startswith("G:")})

    def note_write(self, roots, line, form, st, value_exprs=(), ctl=()):
        """an in-place write to something that may share memory with `roots`"""
        roots = self.live_roots(roots, st)
        for p in self.param_roots(roots):
            if p in self.res.mutable_defaults:
                self._gwrite("%s.%s#default:%s" % (self.mod.name, self.qname, self.params[p]), "KAccum",
                             "mutable default argument " + form, line)
            self.res.inplace.append((p, line, form))
        for g in self.global_roots(roots):
            self.global_update(g, line, form, st, value_exprs, ctl)

    def _gwrite(self, g, kind, form, line):
        self.res.gwrites.append((g, kind, form, line))

    def global_update(self, g, line, form, st, value_exprs, ctl):
        """in-place update of module-level data"""
        modname, name = g.split(".", 1)
        pm = self.prog.modules[modname]
        lazy = name in pm.lazy
        if not lazy:
            self._gwrite(g, "KAccum", "in-place update of an initialised module table: " + form, line)
            return
        kind = self.value_kind(value_exprs, ctl, st, inplace=True, gname=name)
        self._gwrite(g, kind, form, line)

    def value_kind(self, value_exprs, ctl, st, inplace, gname):
        guard_ok = any(g is not None for (_, _, g) in ctl)
        if not guard_ok:
            return "KAccum"
        if any(self.expr_tainted(v, st) for v in value_exprs) or self.ctl_tainted(ctl):
            return "KArg"
        if any(self._has_rng(c) for (c, _, g) in ctl if g is None) or any(self._has_rng(v) for v in value_exprs):
            return "KArg"
        if inplace and st.exited:
            return "KArg"
        return "KConst"

    def _has_rng(self, e):
        for n in ast.walk(e):
            d = dotted(n) if isinstance(n, ast.Attribute) else None
            if d and d.split(".")[0] in self.mod.np_names and ".random." in "." + d + ".":
                return True
        return False

    def do_call(self, c, st, ctl):
        kind, target = self.resolve(c.func, st)
        line = c.lineno
        argr = [self.roots(a, st) for a in c.args]
        # out= / output= keywords write their value
        for k in c.keywords:
            if k.arg in ("out", "output"):
                r = self.roots(k.value, st)
                if r:
                    self.note_write(r, line, "%s=%s" % (k.arg, ast.unparse(k.value)), st,
                                    list(c.args), ctl)
        if kind == "np":
            if target.startswith("random.") or target == "random":
                self.do_rng(c, target[len("random."):], st, ctl)
            if target in NP_INPLACE_FUNCS and argr:
                self.note_write(argr[0], line, "np.%s(%s, ...)" % (target, ast.unparse(c.args[0])), st,
                                list(c.args[1:]), ctl)
            if target == "random.default_rng" or target == "random.Generator":
                if not c.args:
                    self.res.entropy.append(line)
            return
        if kind == "ext":
            d = target
            if d.split(".")[0] in ("random", "time", "datetime", "uuid", "secrets") or d in ("os.urandom",):
                self.res.entropy.append(line)
            return
        if kind == "method":
            recv, meth = target
            rd = dotted(recv)
            if rd in st.localrng or (isinstance(recv, ast.Name) and recv.id in st.localrng):
                nm = rd
                if meth == "seed":
                    if c.args or c.keywords:
                        st.localrng[nm] = True
                    else:
                        st.localrng[nm] = False
                elif meth not in RNG_NON_DRAWS and not st.localrng[nm]:
                    self.res.entropy.append(line)
                return
            # a method of a class of the analysed modules that re-binds / writes attributes of its receiver
            # (KalmanState.map_frames, add_features ...): called on an object that is still the caller's
            muts = [qq for qq, ss in self.prog.summary.items()
                    if qq.count(".") == 2 and qq.rsplit(".", 1)[1] == meth and ss.get("mutates_self")]
            if muts:
                r = self.roots(recv, st)
                if r:
                    self.note_write(r, line, "%s.%s() changes the attributes of its receiver (%s)" % (
                        ast.unparse(recv), meth, muts[0]), st, list(c.args), ctl)
                return
            if meth in MUTATING_METHODS:
                if meth == "byteswap" and not (c.args or c.keywords):
                    return
                bn = self._base_name(recv)
                if bn is not None and bn in self.local_names and (
                        self.ctl_tainted(ctl) or any(self.expr_tainted(a, st) for a in c.args)
                        or any(self.expr_tainted(k.value, st) for k in c.keywords)):
                    st.taint.add(bn)
                r = self.roots(recv, st)
                if r:
                    self.note_write(r, line, "%s.%s()" % (ast.unparse(recv), meth), st,
                                    list(c.args) + [k.value for k in c.keywords], ctl)
            return
        if kind == "kernel":
            w = KERNEL_WRITES.get(target, ALL)
            for k, r in enumerate(argr):
                if r and (w == ALL or k in w):
                    self.note_write(r, line, "compiled kernel %s writes argument %d" % (target, k), st, list(c.args), ctl)
            if target not in KERNEL_WRITES:
                for k in c.keywords:
                    r = self.roots(k.value, st)
                    if r:
                        self.note_write(r, line, "unknown compiled kernel %s" % target, st, list(c.args), ctl)
            return
        if kind in ("fn", "selfmethod", "class"):
            tgt = target
            if kind == "class":
                tgt = target + ".__init__"
            self.res.calls.append({"callee": tgt, "node": c, "line": line, "seeded": st.seeded,
                                   "filled": st.filled, "ctl_tainted": self.ctl_tainted(ctl),
                                   "bound": kind in ("selfmethod", "class"), "state": st.copy(), "is_ctor": kind == "class",
                                   "ctl": list(ctl)})
            return
        if kind == "local":
            if target in self.params:
                if any(self.param_roots(r) for r in argr):
                    self.res.user_callable_alias += 1
            return
        return

    def do_rng(self, c, name, st, ctl):
        line = c.lineno
        if name == "seed":
            if len(c.args) == 1 and not c.keywords and is_const_literal(c.args[0]) \
                    and ast.literal_eval(c.args[0]) is not None and not self.ctl_tainted(ctl):
                v = ast.literal_eval(c.args[0])
                if isinstance(v, int) and not isinstance(v, bool):
                    if st.seeded is None:
                        st.seeded = v
                    self.res.seed_lits.append(v)
                    return
            if len(c.args) == 1 and is_const_literal(c.args[0]) and isinstance(ast.literal_eval(c.args[0]), int):
                # literal seed under argument-dependent control: still a seed on this path
                v = ast.literal_eval(c.args[0])
                if st.seeded is None:
                    st.seeded = v
                self.res.seed_lits.append(v)
                return
            self.res.bad_seeds.append(line)
            # reseeding from an argument makes the stream a function of the arguments; from nothing: entropy
            if not c.args:
                self.res.entropy.append(line)
            else:
                if st.seeded is None:
                    st.seeded = -1
            return
        if name == "RandomState":
            return
        if name in RNG_NON_DRAWS:
            if name in ("get_state",):
                self.res.draws.append((line, st.seeded is not None))
            if name == "set_state":
                self.res.bad_seeds.append(line)
            return
        self.res.draws.append((line, st.seeded is not None))

    # -- statements ---------------------------------------------------------------------------
    def visit_exprs(self, e, st, ctl):
        """effects of evaluating expression e (calls, in evaluation order approximately)"""
        if e is None:
            return
        for n in self._calls_in_order(e):
            self.do_call(n, st, ctl)
        # reads of lazy globals
        for n in ast.walk(e):
            if isinstance(n, ast.Name) and isinstance(n.ctx, ast.Load) and self.is_global_name(n.id) \
                    and n.id in self.mod.lazy:
                g = self.mod.name + "." + n.id
                self.res.greads.add(g)
                if g not in st.filled:
                    self.res.unguarded_reads.append((g, n.lineno))
            if isinstance(n, ast.Attribute):
                d = dotted(n)
                if d and d.count(".") == 1 and d.split(".")[0] in self.mod.pkg_mods:
                    pm = self.prog.modules.get(self.mod.pkg_mods[d.split(".")[0]])
                    if pm is not None and n.attr in pm.lazy:
                        g = pm.name + "." + n.attr
                        self.res.greads.add(g)
                        self.res.unguarded_reads.append((g, n.lineno))
            if isinstance(n, (ast.Yield, ast.YieldFrom)) and n.value is not None:
                # a generator hands out its yielded values like results
                for p in self.param_roots(self.roots(n.value, st)):
                    self.res.ret_alias.add(p)

    def _calls_in_order(self, e):
        out = []

        def rec(n):
            for ch in ast.iter_child_nodes(n):
                rec(ch)
            if isinstance(n, ast.Call):
                out.append(n)
        rec(e)
        return out

    NDARRAY_META = {"shape", "dtype", "strides", "data", "real", "imag", "flat", "writeable"}

    def _base_name(self, t):
        while isinstance(t, (ast.Subscript, ast.Attribute, ast.Starred)):
            t = t.value
        return t.id if isinstance(t, ast.Name) else None

    def bind(self, target, roots, st, value=None, ctl=(), line=0, vt=None):
        """target := value.  roots: what the value may share memory with; vt: is the value tainted"""
        if vt is None:
            vt = self.expr_tainted(value, st) if value is not None else False
        vt = bool(vt or self.ctl_tainted(ctl))
        if isinstance(target, ast.Name):
            if target.id in self.declared_global or (target.id not in self.local_names):
                self.global_rebind(target.id, value, st, ctl, line, vt)
                return
            n = target.id
            st.alias[n] = roots
            st.keys.pop(n, None)
            for kk in [kk for kk, vv in st.keys.items() if n in vv]:
                del st.keys[kk]                 # a key parameter was rebound: the tuple no longer names it
            if value is not None and isinstance(value, (ast.Tuple, ast.Name)) and n not in self.params:
                kp = self._key_params(value, st)
                if kp:
                    st.keys[n] = kp
            if vt:
                st.taint.add(n)
            else:
                st.taint.discard(n)
            # a rebinding invalidates what was known about the old value
            if n in st.facts:
                del st.facts[n]
            suffix0, suffix1 = "?%s=0" % n, "?%s=1" % n
            for k, rs in list(st.alias.items()):
                if any(r.endswith(suffix0) or r.endswith(suffix1) for r in rs):
                    st.alias[k] = frozenset(r.split("?")[0] if (r.endswith(suffix0) or r.endswith(suffix1)) else r
                                            for r in rs)
            for k in [k for k in st.alias if k.startswith(n + ".")]:
                del st.alias[k]
            st.localrng.pop(n, None)
            if value is not None and isinstance(value, ast.Call):
                k, tg = self.resolve(value.func, st)
                if k == "np" and tg == "random.RandomState":
                    st.localrng[n] = bool(value.args or value.keywords)
            return
        if isinstance(target, (ast.Tuple, ast.List)):
            if value is not None and isinstance(value, (ast.Tuple, ast.List)) and len(value.elts) == len(target.elts) \
                    and not any(isinstance(x, ast.Starred) for x in list(target.elts) + list(value.elts)):
                rs = [self.roots(v, st) for v in value.elts]
                vts = [self.expr_tainted(v, st) for v in value.elts]
                for tt, v, r, x in zip(target.elts, value.elts, rs, vts):
                    self.bind(tt, r, st, v, ctl, line, x)
            else:
                for tt in target.elts:
                    self.bind(tt, roots, st, None, ctl, line, vt)
            return
        if isinstance(target, ast.Starred):
            self.bind(target.value, roots, st, None, ctl, line, vt)
            return
        b = self._base_name(target)
        if isinstance(target, ast.Attribute):
            d = dotted(target)
            base = self.roots(target.value, st)
            if b is not None and vt and b in self.local_names:
                st.taint.add(b)
            if target.attr in self.NDARRAY_META:
                if base:
                    self.note_write(base, line, "%s = ..." % ast.unparse(target), st,
                                    [value] if value is not None else [], ctl)
                return
            if d and b in self.local_names:
                if b == "self" and "self" in self.params and "." in self.qname \
                        and not self.qname.endswith(".__init__") and st.alias.get("self") == frozenset(["P:0"]):
                    self.res.mutates_self = True    # the method re-binds an attribute of the object it is called on
                st.alias[d] = roots               # field of a local object now refers to the value
                if vt:
                    st.taint.add(d)
                return
            if d and self.is_global_name(d.split(".")[0]):
                self.global_update("%s.%s" % (self.mod.name, d.split(".")[0]), line, ast.unparse(target) + " = ...", st,
                                   [value] if value is not None else [], ctl)
            return
        if isinstance(target, ast.Subscript):
            base = self.roots(target.value, st)
            self.visit_exprs(target.slice, st, ctl)
            if b is not None and b in self.local_names and (vt or self.expr_tainted(target.slice, st)):
                st.taint.add(b)
            if base and self._memo_store(target, value, st, ctl, line):
                return
            if base:
                self.note_write(base, line, "%s = ..." % ast.unparse(target)[:60], st,
                                ([value] if value is not None else []) + [target.slice], ctl)
            return
        raise Unrecognised("%s: assignment target %s" % (self.qname, type(target).__name__))

    # -- memo tables keyed by the arguments ------------------------------------------------------
    def _key_params(self, e, st):
        """parameters a dict key is made of: a parameter still bound to the caller's value, a tuple of such,
        or a local bound to such a tuple; None when the key is anything else"""
        if isinstance(e, ast.Name):
            if e.id in self.params and st.alias.get(e.id) == frozenset(["P:%d" % self.params.index(e.id)]):
                return (e.id,)
            return st.keys.get(e.id) if hasattr(st, "keys") else None
        if isinstance(e, ast.Tuple):
            out = ()
            for x in e.elts:
                k = self._key_params(x, st) if isinstance(x, ast.Name) and x.id in self.params else None
                if k is None:
                    return None
                out += k
            return out
        return None

    def _memo_store(self, target, value, st, ctl, line):
        """`G[key] = value` on a module-level dict G initialised empty, key made of parameters only.  The
        store is a memo entry if the value (and the control around it) depends on nothing but the key
        parameters - decided by a second pass in which only the OTHER parameters are taint sources."""
        if not (isinstance(target.value, ast.Name) and self.is_global_name(target.value.id)
                and target.value.id in self.mod.memo_dicts):
            return False
        kp = self._key_params(target.slice, st)
        if not kp or value is None:
            return False
        g = self.mod.name + "." + target.value.id
        if self.taint_sources is not None:
            ok = not self.expr_tainted(value, st) and not self.ctl_tainted(ctl) and not self._has_rng(value) \
                and not self.param_roots(self.roots(value, st))
            self.memo_probe[line] = self.memo_probe.get(line, True) and ok
            return True
        self.memo_cands.append((g, tuple(kp), line, ast.unparse(target.slice)))
        return True

    def _settle_memo(self):
        by_g = {}
        for g, kp, line, ktxt in self.memo_cands:
            by_g.setdefault(g, []).append((kp, line, ktxt))
        for g, stores in by_g.items():
            why = None
            for kp, line, ktxt in stores:
                probe = FnAnalysis(self.prog, self.mod, self.qname, self.f,
                                   taint_sources=set(self.params) - set(kp))
                probe.run()
                if not probe.memo_probe.get(line, False):
                    why = "the stored value depends on more than the key (%s)" % ktxt
            name = g.split(".", 1)[1]
            why = why or self._memo_uses_ok(name, {s[2] for s in stores})
            if why is None:
                self._gwrite(g, "KMemo", "memo entry %s[%s] = f(key)" % (name, stores[0][2]), stores[0][1])
                self.res.greads.add(g)
                self.res.memo_globals.add(g)
            else:
                self._gwrite(g, "KAccum", "in-place update of an initialised module table: %s[...] = ... (%s)" % (
                    name, why), stores[0][1])

    def _memo_uses_ok(self, name, key_texts):
        """every other mention of the table in its module is a lookup / membership test by the same key, inside
        this function"""
        parents = {}
        for fq, fd in self.mod.functions.items():
            for n in ast.walk(fd):
                for ch in ast.iter_child_nodes(n):
                    parents[ch] = n
            for n in ast.walk(fd):
                if isinstance(n, ast.Name) and n.id == name:
                    if fd is not self.f:
                        if name in {x.id for x in ast.walk(fd) if isinstance(x, ast.Name)
                                    and isinstance(x.ctx, ast.Store)} or name in {a.arg for a in fd.args.args}:
                            continue         # a local of that name
                        return "the table is also used in %s" % fq
                    par = parents.get(n)
                    if isinstance(par, ast.Subscript) and par.value is n and ast.unparse(par.slice) in key_texts:
                        continue
                    if isinstance(par, ast.Compare) and len(par.ops) == 1 and isinstance(par.ops[0], (ast.In, ast.NotIn)) \
                            and par.comparators[0] is n and ast.unparse(par.left) in key_texts:
                        continue
                    if isinstance(par, ast.Global):
                        continue
                    return "the table is used other than by its key at line %d" % n.lineno
        for other in self.prog.modules.values():
            if other is self.mod:
                continue
            for n in ast.walk(other.tree):
                if isinstance(n, ast.Attribute) and n.attr == name:
                    return "the table is reached from module %s" % other.name
        return None

    def global_rebind(self, name, value, st, ctl, line, vt=False):
        g = self.mod.name + "." + name
        lazy = name in self.mod.lazy
        if not lazy:
            kind = "KAccum" if name in self.mod.globals_init else "KAccum"
            self._gwrite(g, kind, "rebinding of module-level %s" % name, line)
            return
        kind = self.value_kind([value] if value is not None else [], ctl, st, inplace=False, gname=name)
        if kind == "KConst" and vt:
            kind = "KArg"
        self._gwrite(g, kind, "%s = %s" % (name, (ast.unparse(value) if value is not None else "?")[:50].replace("\n", " ")), line)
        if kind == "KConst":
            st.filled = st.filled | {g}

    def run_block(self, stmts, st, ctl):
        for s in stmts:
            st = self.run_stmt(s, st, ctl)
        return st

    def run_stmt(self, s, st, ctl):
        if isinstance(s, (ast.Pass, ast.Global, ast.Import, ast.ImportFrom)):
            if isinstance(s, (ast.Import, ast.ImportFrom)):
                for a in s.names:
                    st.alias[(a.asname or a.name).split(".")[0]] = frozenset()
            return st
        if isinstance(s, ast.Expr):
            self.visit_exprs(s.value, st, ctl)
            return st
        if isinstance(s, ast.Assign):
            self.visit_exprs(s.value, st, ctl)
            r = self.roots(s.value, st)
            for t in s.targets:
                self.bind(t, r, st, s.value, ctl, s.lineno)
            return st
        if isinstance(s, ast.AnnAssign):
            if s.value is not None:
                self.visit_exprs(s.value, st, ctl)
                self.bind(s.target, self.roots(s.value, st), st, s.value, ctl, s.lineno)
            return st
        if isinstance(s, ast.AugAssign):
            self.visit_exprs(s.value, st, ctl)
            t = s.target
            bn = self._base_name(t)
            if bn is not None and bn in self.local_names and (self.ctl_tainted(ctl) or self.expr_tainted(s.value, st)
                                                              or (isinstance(t, ast.Subscript)
                                                                  and self.expr_tainted(t.slice, st))):
                st.taint.add(bn)
            if isinstance(t, ast.Name):
                if t.id in self.declared_global or t.id not in self.local_names:
                    g = self.mod.name + "." + t.id
                    self.global_update(g, s.lineno, "%s %s= ..." % (t.id, type(s.op).__name__), st, [s.value], ctl)
                    return st
                r = st.alias.get(t.id, frozenset())
                if r:
                    ps = self.param_roots(r)
                    scalarish = all(self.params[p] in self.scalar_params or
                                    (self.params[p] not in self.array_evidence and t.id not in self.array_evidence)
                                    for p in ps) and not self.global_roots(r)
                    if scalarish:
                        self.res.scalar_aug += 1
                        st.alias[t.id] = frozenset()
                    else:
                        self.note_write(r, s.lineno, "%s %s= ..." % (t.id, type(s.op).__name__), st, [s.value], ctl)
                return st
            base = self.roots(t.value, st) if isinstance(t, (ast.Subscript, ast.Attribute)) else frozenset()
            if isinstance(t, ast.Subscript):
                self.visit_exprs(t.slice, st, ctl)
            if base:
                self.note_write(base, s.lineno, "%s %s= ..." % (ast.unparse(t)[:50], type(s.op).__name__), st,
                                [s.value] + ([t.slice] if isinstance(t, ast.Subscript) else []), ctl)
            return st
        if isinstance(s, ast.Return):
            self.visit_exprs(s.value, st, ctl)
            if s.value is not None:
                rr = self.roots(s.value, st)
                for p in self.param_roots(rr):
                    self.res.ret_alias.add(p)
                for g in self.global_roots(rr):
                    self.res.ret_galias.add(g)
            if self.ctl_tainted(ctl):
                st.exited = True
            return st
        if isinstance(s, ast.Raise):
            self.visit_exprs(s.exc, st, ctl)
            if self.ctl_tainted(ctl):
                st.exited = True
            return st
        if isinstance(s, (ast.Break, ast.Continue)):
            return st
        if isinstance(s, ast.Assert):
            self.visit_exprs(s.test, st, ctl)
            if self.expr_tainted(s.test, st):
                st.exited = True
            return st
        if isinstance(s, ast.Delete):
            for t in s.targets:
                if isinstance(t, ast.Name):
                    st.alias.pop(t.id, None)
                elif isinstance(t, ast.Subscript):
                    base = self.roots(t.value, st)
                    if base:
                        self.note_write(base, s.lineno, "del %s" % ast.unparse(t)[:50], st, [], ctl)
            return st
        if isinstance(s, ast.If):
            g0 = self._guard_global(s.test)
            if g0 is None:
                self.visit_exprs(s.test, st, ctl)
            else:
                self.res.greads.add(self.mod.name + "." + g0)
            ce = self.ctl_entry(s.test, st)
            fact = self._none_fact(s.test)
            sa, sb = st.copy(), st.copy()
            if fact is not None:
                if st.facts.get(fact[0]) is (not fact[1]):
                    sa = None                       # the test is known to be false here
                elif st.facts.get(fact[0]) is fact[1]:
                    sb = None                       # known to be true
                if sa is not None:
                    sa.facts[fact[0]] = fact[1]
                if sb is not None:
                    sb.facts[fact[0]] = not fact[1]
            a = self.run_block(s.body, sa, ctl + [ce]) if sa is not None else None
            b = self.run_block(s.orelse, sb, ctl + [ce]) if sb is not None else None
            if a is None:
                return b
            if b is None:
                return a
            ea, eb = self._always_exits(s.body), (bool(s.orelse) and self._always_exits(s.orelse))
            if fact is not None and not ea and not eb:
                # remember under which answer of the test an alias was created
                for k in set(a.alias) | set(b.alias):
                    ra, rb = a.alias.get(k, frozenset()), b.alias.get(k, frozenset())
                    if ra != rb:
                        a.alias[k] = (ra & rb) | self.tag(ra - rb, fact[0], fact[1])
                        b.alias[k] = (ra & rb) | self.tag(rb - ra, fact[0], not fact[1])
            if ea and not eb:
                j = b
                j.exited = a.exited or b.exited
                j.taint = a.taint | b.taint if ce[1] else b.taint
            elif eb and not ea:
                j = a
                j.exited = a.exited or b.exited
                j.taint = a.taint | b.taint if ce[1] else a.taint
            else:
                j = State.join(a, b)
            if g0 is not None:
                # guard block: in the else path g0 is not None; by the group invariant (checked over the
                # whole program) every global this block must-assigns is filled as well
                must = self._must_assign(s.body)
                gq = self.mod.name + "." + g0
                if gq in must and not s.orelse:
                    ok = {g for g in must if any(w[0] == g and w[1] == "KConst" for w in self.res.gwrites)}
                    j.filled = st.filled | ok | (a.filled & b.filled)
                    self.prog.guard_groups.append((self.res.qname, gq, frozenset(must), s.lineno))
            return j
        if isinstance(s, (ast.For, ast.While)):
            c = s.iter if isinstance(s, ast.For) else s.test
            self.visit_exprs(c, st, ctl)
            entry = st.copy()
            cur = st.copy()
            force = False
            for rnd in range(4):          # repeat: loop-carried aliases and taint
                ce = self.ctl_entry(c, cur, force)
                if isinstance(s, ast.For):
                    self.bind(s.target, self.roots(s.iter, cur), cur, None, ctl + [ce], s.lineno,
                              self.expr_tainted(s.iter, cur))
                out = self.run_block(s.body, cur.copy(), ctl + [ce])
                nxt = State.join(cur, out)
                nxt.seeded, nxt.filled = entry.seeded, entry.filled
                nxt.localrng = {k: entry.localrng.get(k, False) and v for k, v in nxt.localrng.items()}
                f2 = force or self.has_tainted_exit(s.body, nxt, self.ctl_tainted(ctl + [ce]))
                stable = (nxt.taint == cur.taint and nxt.alias == cur.alias and f2 == force)
                cur, force = nxt, f2
                if stable and rnd >= 1:
                    break
            else:
                raise Unrecognised("%s: loop at line %d does not stabilise" % (self.qname, s.lineno))
            if isinstance(s, ast.While):
                self.visit_exprs(s.test, cur, ctl)
            ce = self.ctl_entry(c, cur, force)
            res = self.run_block(s.orelse, cur.copy(), ctl + [ce]) if s.orelse else cur
            res = State.join(res, entry)
            res.facts = {}
            return res
        if isinstance(s, ast.With):
            for it in s.items:
                self.visit_exprs(it.context_expr, st, ctl)
                if it.optional_vars is not None:
                    self.bind(it.optional_vars, self.roots(it.context_expr, st), st, None, ctl, s.lineno,
                              self.expr_tainted(it.context_expr, st))
            return self.run_block(s.body, st, ctl)
        if isinstance(s, ast.Try):
            a = self.run_block(s.body, st.copy(), ctl)
            j = State.join(st, a)
            for h in s.handlers:
                if h.name:
                    j.alias[h.name] = frozenset()
                hb = self.run_block(h.body, j.copy(), ctl)
                j = State.join(j, hb)
            if s.orelse:
                j = State.join(j, self.run_block(s.orelse, a.copy(), ctl))
            if s.finalbody:
                j = self.run_block(s.finalbody, j, ctl)
            return j
        if isinstance(s, ast.FunctionDef):
            inner = st.copy()
            for x in s.args.args + s.args.kwonlyargs:
                inner.alias[x.arg] = frozenset()
                inner.taint.add(x.arg)
            for d in s.args.defaults:
                self.visit_exprs(d, st, ctl)
            saved = self.res.ret_alias
            self.res.ret_alias = set()
            self.run_block(s.body, inner, ctl)
            self.res.ret_alias = saved
            st.alias[s.name] = frozenset()
            return st
        raise Unrecognised("%s: statement %s at line %d" % (self.qname, type(s).__name__, s.lineno))

    def _must_assign(self, stmts):
        r = set()
        for s in stmts:
            if isinstance(s, ast.Assign):
                for t in s.targets:
                    if isinstance(t, ast.Name) and (t.id in self.declared_global or t.id not in self.local_names):
                        r.add(self.mod.name + "." + t.id)
        return r

    def _always_exits(self, stmts):
        for s in stmts:
            if isinstance(s, (ast.Return, ast.Raise, ast.Continue, ast.Break)):
                return True
            if isinstance(s, ast.If) and s.orelse and self._always_exits(s.body) and self._always_exits(s.orelse):
                return True
        return False

    def compute_int_names(self):
        """local names bound only to integers (loop indices over range/enumerate counters, integer literals)"""
        ints = set()
        nonint = set()
        for n in ast.walk(self.f):
            if isinstance(n, (ast.For, ast.comprehension)):
                it = n.iter
                tg = n.target
                if isinstance(it, ast.Call) and isinstance(it.func, ast.Name) and it.func.id in ("range", "xrange"):
                    for x in ast.walk(tg):
                        if isinstance(x, ast.Name):
                            ints.add(x.id)
                elif isinstance(it, ast.Call) and isinstance(it.func, ast.Name) and it.func.id == "enumerate" \
                        and isinstance(tg, ast.Tuple) and isinstance(tg.elts[0], ast.Name):
                    ints.add(tg.elts[0].id)
                    for x in tg.elts[1:]:
                        for y in ast.walk(x):
                            if isinstance(y, ast.Name):
                                nonint.add(y.id)
                else:
                    for x in ast.walk(tg):
                        if isinstance(x, ast.Name):
                            nonint.add(x.id)
            elif isinstance(n, ast.Assign):
                for t in n.targets:
                    for x in ast.walk(t):
                        if isinstance(x, ast.Name) and isinstance(x.ctx, ast.Store):
                            if isinstance(t, ast.Name) and isinstance(n.value, ast.Constant) \
                                    and isinstance(n.value.value, int):
                                ints.add(x.id)
                            else:
                                nonint.add(x.id)
        return (ints - nonint) - set(self.params)

    def run(self):
        self.int_names = self.compute_int_names()
        st = State()
        for k, p in enumerate(self.params):
            st.alias[p] = frozenset(["P:%d" % k])
            if self.taint_sources is None or p in self.taint_sources:
                st.taint.add(p)
        self.run_block(self.f.body, st, [])
        if self.taint_sources is None:
            self._settle_memo()
        self.res.array_params = [p for p in self.params if p in self.array_evidence and p != "self"]
        return self.res


# ------------------------------------------------------------------ whole program

class Program:
    def __init__(self, read_source):
        self.modules = {}
        self.summary = {}
        self.params = {}
        self.nonconst_globals = set()
        self.guard_groups = []
        todo = list(PUBLIC_MODULES)
        while todo:
            m = todo.pop(0)
            if m in self.modules or m in KERNEL_MODULES:
                continue
            try:
                text = read_source("centrosome/%s.py" % m)
            except FileNotFoundError:
                raise Unrecognised("module %s imported but not found" % m)
            mi = ModuleInfo(m, text)
            self.modules[m] = mi
            for h in sorted(mi.helper_mods):
                if h not in self.modules:
                    todo.append(h)
        for m in self.modules.values():
            for q, f in m.functions.items():
                a = f.args
                self.params[m.name + "." + q] = [x.arg for x in a.args] + ([a.vararg.arg] if a.vararg else []) + \
                    [x.arg for x in a.kwonlyargs] + ([a.kwarg.arg] if a.kwarg else [])

    def analyse(self):
        results = {}
        # iterate: summaries (ret_alias, writes_params) and non-const globals feed back into the analysis
        for it in range(12):
            self.guard_groups = []
            new = {}
            for m in self.modules.values():
                for q, f in m.functions.items():
                    new[m.name + "." + q] = FnAnalysis(self, m, q, f).run()
            summ = self.close(new)
            nonconst = {w[0] for r in new.values() for w in r.gwrites if w[1] != "KConst"}
            stable = (summ == self.summary and nonconst == self.nonconst_globals)
            self.summary, self.nonconst_globals = summ, nonconst
            results = new
            if stable:
                break
        else:
            raise Unrecognised("interprocedural summaries do not converge")
        self.results = results
        self.check_groups()
        return results

    def close(self, res):
        """transitive summaries: parameter writes, returned aliases, global writes/reads, RNG use"""
        summ = {q: {"ret_galias": set(r.ret_galias), "ret_alias": set(r.ret_alias), "writes": {(p, l, f) for p, l, f in r.inplace},
                    "gwrites": set(r.gwrites), "greads": set(r.greads),
                    "unguarded": set(r.unguarded_reads),
                    "draws": bool(r.draws), "undominated": any(not d for _, d in r.draws),
                    "seed": (r.seed_lits[0] if r.seed_lits else None),
                    "bad_seed": bool(r.bad_seeds), "entropy": set(r.entropy),
                    "mutates_self": bool(r.mutates_self or any(p == 0 for p, _, _ in r.inplace)
                                         and "." in q.split(".", 1)[1])} for q, r in res.items()}
        changed = True
        n = 0
        while changed:
            n += 1
            if n > 100:
                raise Unrecognised("summary closure does not converge")
            changed = False
            for q, r in res.items():
                s = summ[q]
                an = None
                for c in r.calls:
                    t = summ.get(c["callee"])
                    if t is None:
                        continue             # e.g. class without __init__, or function of an unanalysed module
                    if c.get("bound") and not c.get("is_ctor") and t.get("mutates_self") and not s["mutates_self"] \
                            and "." in q.split(".", 1)[1]:
                        s["mutates_self"] = True
                        changed = True
                    before = (len(s["writes"]), len(s["gwrites"]), len(s["greads"]), len(s["unguarded"]), s["draws"],
                              s["undominated"], s["bad_seed"], len(s["entropy"]), s["seed"])
                    if an is None:
                        m = self.modules[q.split(".")[0]]
                        an = FnAnalysis(self, m, q.split(".", 1)[1], m.functions[q.split(".", 1)[1]])
                        an.int_names = an.compute_int_names()
                    # parameter writes of the callee land on the caller's actual arguments
                    for (p, l, f) in t["writes"]:
                        roots = an.arg_roots_for_param(c["node"], c["callee"], p, c["state"], bound=c["bound"]) \
                            if not (c["is_ctor"] and p == 0) else frozenset()
                        for pp in an.param_roots(roots):
                            w = (pp, c["line"], "passes it to %s, which writes its parameter %d (%s)" % (
                                c["callee"], p, f[:40]))
                            if not any(x[0] == pp and x[1] == c["line"] for x in s["writes"]):
                                s["writes"].add(w)
                        for g in an.global_roots(roots):
                            modname, name = g.split(".", 1)
                            lazy = name in self.modules[modname].lazy
                            kind = "KAccum" if not lazy else an.value_kind([], c["ctl"], c["state"], True, name)
                            s["gwrites"].add((g, kind, "passed to %s which writes it" % c["callee"], c["line"]))
                    for w in t["gwrites"]:
                        kind = w[1]
                        if c["ctl_tainted"] and kind == "KConst":
                            kind = "KConst"      # may-fill under argument-dependent control: the value is still constant
                        s["gwrites"].add((w[0], kind, w[2], w[3]))
                    s["greads"] |= t["greads"]
                    s["unguarded"] |= t["unguarded"]
                    s["entropy"] |= t["entropy"]
                    if t["draws"]:
                        s["draws"] = True
                        if t["undominated"] and c["seeded"] is None:
                            s["undominated"] = True
                        if s["seed"] is None and t["seed"] is not None and not t["undominated"]:
                            s["seed"] = t["seed"]
                    if t["bad_seed"]:
                        s["bad_seed"] = True
                    after = (len(s["writes"]), len(s["gwrites"]), len(s["greads"]), len(s["unguarded"]), s["draws"],
                             s["undominated"], s["bad_seed"], len(s["entropy"]), s["seed"])
                    if after != before:
                        changed = True
        return summ

    def check_groups(self):
        """group invariant of lazily filled tables: every write to a lazy global happens in a guard block
        `if g0 is None:` that assigns g0 itself; the blocks of one g0 assign the same set"""
        groups = {}
        for q, g0, must, line in self.guard_groups:
            groups.setdefault(g0, set()).add(must)
        self.group_errors = []
        for g0, sets in groups.items():
            if len(sets) > 1:
                self.group_errors.append("guard on %s fills different sets in different places" % g0)


# ------------------------------------------------------------------ output

def is_public(q):
    parts = q.split(".")
    return parts[0] in PUBLIC_MODULES and not any(p.startswith("_") for p in parts[1:])


# documented in-place helpers: the property text exempts "explicit in-place drawing helpers"
EXEMPT = {
    "cpmorphology.draw_line": "documented drawing helper (the property's own exception): draws the line into the "
                              "caller's `labels` array",
    "lapjv.slow_reduction_transfer": "documented in-place solver phase (docstring: 'u - the dual variable which "
                                     "will be updated', 'v - ... reduced in-place'); pure-Python twin of the "
                                     "compiled kernel, called by lapjv() on its own working arrays",
    "lapjv.slow_augmenting_row_reduction": "documented in-place solver phase (docstring: u 'will be updated', v "
                                           "'reduced in-place', x/y assignments, ii scratch list of free rows)",
    "lapjv.slow_augment": "documented in-place solver phase: updates the assignments x, y and the duals u, v",
}


def translate(read_source, exempt=None):
    exempt = dict(EXEMPT if exempt is None else exempt)
    prog = Program(read_source)
    prog.analyse()
    if prog.group_errors:
        raise Unrecognised("; ".join(prog.group_errors))
    fns = sorted(prog.summary)
    gset = set()
    for q in fns:
        s = prog.summary[q]
        gset |= {w[0] for w in s["gwrites"]} | s["greads"]
    for m in prog.modules.values():
        for g in m.lazy:
            gset.add(m.name + "." + g)
    gnames = sorted(gset)
    gid = {g: k for k, g in enumerate(gnames)}
    fid = {q: k for k, q in enumerate(fns)}
    kinds = {"KConst": 0, "KArg": 1, "KAccum": 2, "KMemo": 3}
    severity = {0: 0, 3: 1, 1: 2, 2: 3}
    table = []
    for q in fns:
        s = prog.summary[q]
        r = prog.results[q]
        fills = {}
        for (g, kind, form, line) in sorted(s["gwrites"]):
            fills[g] = max(fills.get(g, 0), kinds[kind], key=lambda c: severity[c])
        seed_dom = s["draws"] and not s["undominated"] and not s["bad_seed"] and s["seed"] is not None
        cand = sorted({(p, l) for (p, l, f) in s["writes"]})
        forms = {}
        for (p, l, f) in sorted(s["writes"]):
            forms.setdefault((p, l), f)
        entry = {
            "name": q, "id": fid[q], "public": is_public(q), "line": r.lineno, "params": r.params,
            "fills": [[gid[g], k] for g, k in sorted(fills.items())],
            "fill_sites": [[g, kind, form, line] for (g, kind, form, line) in sorted(s["gwrites"])],
            "reads": sorted(gid[g] for g in s["greads"]),
            "unguarded_reads": sorted([g, l] for g, l in s["unguarded"]),
            "draws_global": bool(s["draws"]), "seed_dominated": bool(seed_dom),
            "seed_lit": s["seed"] if seed_dom else None,
            "entropy": sorted(s["entropy"]),
            "inplace": [[p, l, forms[(p, l)], (r.params[p] if p < len(r.params) else "?")] for (p, l) in cand],
            "exempt": q in exempt,
            "ret_alias": sorted(s["ret_alias"]),
            "mutable_defaults": {str(k): v for k, v in r.mutable_defaults.items()},
            "scalar_aug": r.scalar_aug,
            "array_params": list(getattr(r, "array_params", [])),
        }
        table.append(entry)
    side = {"functions": table, "globals": gnames, "modules": sorted(prog.modules),
            "lazy": sorted(m.name + "." + g for m in prog.modules.values() for g in m.lazy),
            "exempt": exempt}
    return side


def coq_text(side):
    L = []
    A = L.append
    A("(* GENERATED by tools/gen_effects_c20.py from the staged centrosome sources - do not edit.")
    A("   Effect signature of every function of the modules property C20 lists (and of the helper")
    A("   modules they import): module-level state written (with the class of the stored value), lazily")
    A("   filled tables read, use of the global np.random stream and whether a literal seed dominates it,")
    A("   entropy use, candidate in-place writes to parameters. *)")
    A("From Coq Require Import ZArith List Bool.")
    A("From Centro Require Import Model.HistoryC20.")
    A("Import ListNotations.")
    A("Open Scope Z_scope.")
    A("")
    A("(* global ids:")
    for k, g in enumerate(side["globals"]):
        A("   %d = %s" % (k, g))
    A("*)")
    A("Definition n_globals : Z := %d." % len(side["globals"]))
    A("Definition lazy_globals : list Z := [%s]." % "; ".join(
        str(side["globals"].index(g)) for g in side["lazy"]))
    A("")
    A("Definition sigs : list sig := [")
    rows = []
    kn = ["KConst", "KArg", "KAccum", "KMemo"]
    for e in side["functions"]:
        fills = "; ".join("(%d, %s)" % (g, kn[k]) for g, k in e["fills"])
        reads = "; ".join(str(g) for g in e["reads"])
        ung = "; ".join(str(side["globals"].index(g)) for g, _ in e["unguarded_reads"])
        inpl = "; ".join("(%d, %d)" % (p, l) for p, l, _, _ in e["inplace"])
        seed = "(Some (%d))" % e["seed_lit"] if e["seed_lit"] is not None else "None"
        rows.append(
            "  (* %d %s%s *)\n  mk_sig %d %s [%s] [%s] [%s] %s %s %s %s [%s] %s" % (
                e["id"], e["name"], "" if e["public"] else " (helper)", e["id"],
                "true" if e["public"] else "false", fills, reads, ung,
                "true" if e["draws_global"] else "false", "true" if e["seed_dominated"] else "false", seed,
                "true" if e["entropy"] else "false", inpl, "true" if e["exempt"] else "false"))
    A(";\n".join(rows))
    A("].")
    A("")
    return "\n".join(L)


def main():
    root = sys.argv[1] if len(sys.argv) > 1 else "/repo"

    def rd(rel):
        with open(os.path.join(root, rel), encoding="utf-8") as f:
            return f.read()
    side = translate(rd)
    if "--coq" in sys.argv:
        print(coq_text(side))
        return
    pub = [e for e in side["functions"] if e["public"]]
    print("functions: %d (%d public); globals: %d" % (len(side["functions"]), len(pub), len(side["globals"])))
    for e in side["functions"]:
        flags = []
        if e["fills"]:
            flags.append("fills=" + ",".join("%s:%d" % (side["globals"][g], k) for g, k in e["fills"]))
        if e["unguarded_reads"]:
            flags.append("UNGUARDED=" + str(e["unguarded_reads"]))
        if e["draws_global"]:
            flags.append("draws(seed_dom=%s lit=%s)" % (e["seed_dominated"], e["seed_lit"]))
        if e["entropy"]:
            flags.append("ENTROPY=" + str(e["entropy"]))
        if e["inplace"]:
            flags.append("INPLACE=" + "; ".join("%s@%d[%s]" % (n, l, f) for p, l, f, n in e["inplace"]))
        if e["mutable_defaults"]:
            flags.append("mutable_defaults=" + str(e["mutable_defaults"]))
        if flags:
            print("%-55s %s" % (e["name"], " | ".join(flags)))


if __name__ == "__main__":
    main()
