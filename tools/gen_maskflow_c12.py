"""C12 translator: Python source of the listed masked operations -> terms of the mask-dataflow
language of coq/theories/Model/MaskFlow.v  (Gen/MaskProgC12.v).

Symbolic evaluation of a function body on the branch `mask is not None`: variables map to DSL
terms, NumPy/SciPy calls are classified by the fixed LOCALITY TABLE below (the trusted interface),
calls to other functions of the three anchored modules are inlined.  FAIL-CLOSED: every construct
that is not explicitly recognised raises Unsupported.  Functions outside the recognisers get a
hand-written term pinned to the sha256 of their normalised AST (docstrings removed): when the
function changes, the pin no longer matches and translation fails."""
import ast
import hashlib


class Unsupported(Exception):
    pass


# ---------------------------------------------------------------- DSL terms (tuples)
Img = ("Img",)
MaskE = ("MaskE",)
FalseC = ("FalseC",)


def Const(name): return ("Const", str(name))
def Pw(f, *es): return ("Pw", f, tuple(es))
def Loc(r, f, e): return ("Loc", int(r), f, e)
def Glob(f, *es): return ("Glob", f, tuple(es))
def Erode(r, m): return ("Erode", int(r), m)
def ErodeP(r, m): return ("ErodeP", int(r), m)
def Select(a, m, b): return ("Select", a, m, b)
def MConv(k, e, m): return ("MConv", k, e, m)
def Not(m): return ("Not", m)                    # internal: eliminated when used as a selector
def Gather(x, m): return ("Gather", x, m)        # internal: x[m]; lowered to Glob gather [where(m,x,0), m]
def Crop(key, x): return ("Crop", key, x)        # internal: x[slices]
def SetSlice(key, x, y): return ("SetSlice", key, x, y)   # internal: x with x[slices] := y


def And(m1, m2):
    """logical_and(m1, m2) as the language sees it: m2 where m1, else False"""
    return Select(m2, m1, FalseC)


def is_const(t):
    return t[0] in ("Const", "FalseC")


def fold(t):
    """a pure function of constants is a constant"""
    k = t[0]
    if k in ("Pw", "Glob") and all(is_const(x) for x in t[2]):
        return Const(t[1] + "(..)")
    if k in ("Loc",) and is_const(t[3]):
        return Const(t[2] + "(..)")
    if k in ("Erode", "ErodeP") and is_const(t[2]):
        return Const("erode(..)")
    if k == "Not" and is_const(t[1]):
        return Const("not(..)")
    if k == "Crop":
        x = t[2]
        if is_const(x):
            return Const("crop(..)")
        if x[0] == "SetSlice" and x[1] == t[1]:
            return x[3]                            # NumPy: (x with x[s] := y)[s] == y
    if k == "SetSlice":
        x = t[2]
        if x[0] == "SetSlice" and x[1] == t[1]:
            return fold(SetSlice(t[1], x[2], t[3]))  # second write to the same slice wins
        if is_const(x) and is_const(t[3]):
            return Const("setslice(..)")
    if k == "Gather" and is_const(t[1]) and is_const(t[2]):
        return Const("gather(..)")
    return t


# ---------------------------------------------------------------- locality table (TRUSTED)
# pointwise NumPy functions / methods: value at p depends on the arguments at p only
POINTWISE = {"abs", "absolute", "sqrt", "logical_not", "logical_and", "logical_or", "astype", "copy", "array",
             "asarray", "ascontiguousarray", "minimum", "maximum", "clip", "exp", "exp2", "log2", "isnan",
             "real", "floor", "float", "bool", "int"}
# pure functions with arbitrary dependence on their (array) arguments
GLOBAL = {"table_lookup", "grey_erosion", "grey_dilation", "gaussian_filter", "label", "distance_transform_edt",
          "rank_order", "lstsq", "sum", "max", "min", "any", "all", "mean", "unique", "cumsum", "lexsort",
          "convolve", "prepare_for_index_lookup", "index_lookup", "extract_from_image_lookup", "function",
          "product", "strel_disk", "strel_line", "ceil", "nonzero", "argwhere", "maximum_position", "permutation"}
# array constructors that read only shapes / literals
CONSTRUCT = {"zeros", "ones", "zeros_like", "ones_like", "generate_binary_structure", "mgrid", "arange", "range",
             "finfo", "len", "issubdtype", "tuple", "slice", "seed", "float", "int", "max", "min", "ceil"}
# modules whose attribute calls are library calls
LIBS = {"np", "numpy", "scind", "scipy", "_filter"}
# functions of the anchored modules that are inlined when called
INLINE = {"grey_erosion", "grey_dilation", "opening", "closing", "hsobel", "vsobel", "hprewitt", "vprewitt",
          "smooth_with_function_and_mask", "masked_convolution"}

SHAPE_ATTRS = {"shape", "dtype", "ndim", "size", "eps"}


def kernel_radius(node):
    """radius of a literal square odd kernel appearing anywhere in the expression, else None"""
    for n in ast.walk(node):
        if isinstance(n, ast.List) and n.elts and all(isinstance(r, ast.List) for r in n.elts):
            h = len(n.elts)
            ws = {len(r.elts) for r in n.elts}
            if len(ws) == 1 and ws.pop() == h and h % 2 == 1:
                return h // 2
            raise Unsupported("kernel literal is not square/odd")
    return None


def strip_doc(fn):
    body = fn.body
    if body and isinstance(body[0], ast.Expr) and isinstance(body[0].value, ast.Constant) \
            and isinstance(body[0].value.value, str):
        body = body[1:]
    return body


def ast_hash(fn):
    node = ast.FunctionDef(name=fn.name, args=fn.args, body=strip_doc(fn), decorator_list=[], returns=None,
                           type_comment=None, lineno=0, col_offset=0)
    return hashlib.sha256(ast.dump(node, annotate_fields=False, include_attributes=False).encode()).hexdigest()[:16]


class Module:
    def __init__(self, sources):
        """sources: {modname: text}.  Function table over all modules (later modules do not override)."""
        self.funcs = {}
        for mod, text in sources.items():
            tree = ast.parse(text)
            for n in tree.body:
                if isinstance(n, ast.FunctionDef):
                    self.funcs.setdefault(n.name, n)
                    self.funcs[mod + "." + n.name] = n


class Interp:
    """symbolic evaluation of ONE function activation"""

    def __init__(self, module, fn, args, depth=0):
        self.m = module
        self.fn = fn
        self.env = dict(args)
        self.ret = None
        self.depth = depth
        if depth > 6:
            raise Unsupported("inlining too deep")

    # -- expressions -------------------------------------------------------------------
    def call_name(self, f):
        if isinstance(f, ast.Name):
            return None, f.id
        if isinstance(f, ast.Attribute):
            v = f.value
            if isinstance(v, ast.Name) and v.id in LIBS:
                return None, f.attr
            if isinstance(v, ast.Attribute) and isinstance(v.value, ast.Name) and v.value.id in LIBS:
                return None, f.attr                          # np.random.seed, scipy.linalg.lstsq
            return v, f.attr                                 # method call on an expression
        raise Unsupported("callee " + ast.dump(f)[:80])

    def ev(self, n):
        return fold(self._ev(n))

    def _ev(self, n):
        if isinstance(n, ast.Name):
            if n.id in self.env:
                return self.env[n.id]
            return Const("$" + n.id)                         # module-level constant / table
        if isinstance(n, ast.Constant):
            if n.value is False or (isinstance(n.value, (int, float)) and not isinstance(n.value, bool)
                                    and n.value == 0):
                return FalseC
            return Const(repr(n.value))
        if isinstance(n, (ast.Tuple, ast.List)):
            parts = [self.ev(e) for e in n.elts]
            if all(is_const(p) for p in parts):
                return Const("seq")
            raise Unsupported("sequence of arrays")
        if isinstance(n, ast.UnaryOp):
            t = self.ev(n.operand)
            if isinstance(n.op, (ast.Invert, ast.Not)):
                return Not(t)
            return Pw("neg", t)
        if isinstance(n, ast.BinOp):
            ts = [self.ev(n.left), self.ev(n.right)]
            return Pw(type(n.op).__name__.lower(), *[t for t in ts if not is_const(t)]) \
                if not all(is_const(t) for t in ts) else Const("expr")
        if isinstance(n, ast.Compare):
            if len(n.ops) != 1:
                raise Unsupported("chained comparison")
            l, r = self.ev(n.left), self.ev(n.comparators[0])
            if isinstance(n.ops[0], (ast.Is, ast.IsNot)):
                if is_const(l) and is_const(r):
                    return Const("is")
                raise Unsupported("`is` on an array outside a recognised mask test")
            if isinstance(n.ops[0], ast.Eq) and r == FalseC and not is_const(l) \
                    and isinstance(n.comparators[0], ast.Constant) and n.comparators[0].value is False:
                return Not(l)                                # m == False
            ts = [t for t in (l, r) if not is_const(t)]
            return Pw(type(n.ops[0]).__name__.lower(), *ts) if ts else Const("cmp")
        if isinstance(n, ast.BoolOp):
            ts = [self.ev(v) for v in n.values]
            if all(is_const(t) for t in ts):
                return Const("boolop")
            raise Unsupported("and/or on arrays")
        if isinstance(n, ast.Attribute):
            if n.attr in SHAPE_ATTRS:
                return Const("." + n.attr)
            base = self.ev(n.value)
            if is_const(base):
                return Const("attr")
            raise Unsupported("attribute ." + n.attr)
        if isinstance(n, ast.Subscript):
            return self.subscript(n)
        if isinstance(n, ast.Call):
            return self.call(n)
        if isinstance(n, ast.Lambda):
            raise Unsupported("lambda")
        raise Unsupported(type(n).__name__)

    def slice_key(self, sl):
        """text of a pure-slice index whose bounds are constants, else None"""
        elts = sl.elts if isinstance(sl, ast.Tuple) else [sl]
        if not all(isinstance(e, ast.Slice) for e in elts):
            return None
        for e in elts:
            for b in (e.lower, e.upper, e.step):
                if b is not None and not is_const(self.ev(b)):
                    raise Unsupported("slice bound depends on an array")
        return ast.unparse(sl).replace(" ", "")

    def subscript(self, n):
        base = self.ev(n.value)
        key = self.slice_key(n.slice)
        if key is not None:
            return Const("idx") if is_const(base) else Crop(key, base)
        idx = self.ev(n.slice)
        if is_const(base) and is_const(idx):
            return Const("idx")
        if isinstance(n.slice, ast.Tuple):
            raise Unsupported("fancy index")
        return Gather(base, idx)                             # x[m] with a boolean array m

    def call(self, n):
        recv, f = self.call_name(n.func)
        args = [self.ev(a) for a in n.args]
        kws = {k.arg: self.ev(k.value) for k in n.keywords}
        if any(k.arg is None for k in n.keywords):
            raise Unsupported("**kwargs")
        if recv is not None:
            r = self.ev(recv)
            if f in ("astype", "copy") :
                return Pw(f, r)
            if is_const(r) and all(is_const(a) for a in args):
                return Const("method")
            if f in ("sum", "max", "min", "any", "all", "mean") and not args:
                return Glob(f, r)
            raise Unsupported("method ." + f)
        # `function(x)`: a parameter that is a callable (smooth_with_function_and_mask)
        if isinstance(n.func, ast.Name) and n.func.id in self.env and self.env[n.func.id] == Const("$callable"):
            return Glob("function", *args)
        if isinstance(n.func, ast.Name) and f in INLINE and f in self.m.funcs:
            return self.inline(self.m.funcs[f], n, args, kws)
        arr = [a for a in args if not is_const(a)] + [v for v in kws.values() if not is_const(v)]
        if f == "binary_erosion":
            # binary_erosion(m, generate_binary_structure(2, 2), border_value=0): 3x3 erosion, False beyond the border
            if len(n.args) != 2 or ast.unparse(n.args[1]).replace(" ", "") != "generate_binary_structure(2,2)":
                raise Unsupported("binary_erosion with an unrecognised structure")
            bv = [k for k in n.keywords if k.arg == "border_value"]
            if len(bv) != 1 or not (isinstance(bv[0].value, ast.Constant) and bv[0].value.value == 0) or len(n.keywords) != 1:
                raise Unsupported("binary_erosion without border_value=0")
            return Erode(1, args[0])
        if f == "convolve" and len(n.args) >= 2:
            if is_const(args[0]):
                return Const("convolve(..)")
            if not is_const(args[1]):
                raise Unsupported("convolve with a data-dependent kernel")
            r = kernel_radius(n.args[1])
            if r is not None:
                return Loc(r, "convolve%dx%d" % (2 * r + 1, 2 * r + 1), args[0])
            return Glob("convolve", args[0])                 # kernel of unknown size: no locality claimed
        if f == "masked_convolution" and len(args) == 3 and not kws:
            if not is_const(args[2]):
                raise Unsupported("masked_convolution with a data-dependent kernel")
            return MConv("kernel", args[0], args[1])
        if f in ("logical_and",) and len(args) == 2 and not kws:
            if is_const(args[0]) and is_const(args[1]):
                return Const("and")
            return And(args[0], args[1])
        if f == "logical_not" and len(args) == 1:
            return Not(args[0])
        if f in CONSTRUCT and not arr:
            return Const(f)
        if f in POINTWISE:
            return Pw(f, *arr) if arr else Const(f)
        if f in GLOBAL:
            return Glob(f, *arr) if arr else Const(f)
        raise Unsupported("call " + f)

    def inline(self, fn, call, args, kws):
        params = [a.arg for a in fn.args.args]
        defaults = fn.args.defaults
        bound = {}
        for p, d in zip(params[len(params) - len(defaults):], defaults):
            bound[p] = Const("None") if (isinstance(d, ast.Constant) and d.value is None) else self.ev(d)
        for p, a in zip(params, args):
            bound[p] = a
        for k, v in kws.items():
            if k not in params:
                raise Unsupported("unknown keyword " + k)
            bound[k] = v
        if set(params) - set(bound):
            raise Unsupported("missing arguments in call to " + fn.name)
        sub = Interp(self.m, fn, bound, self.depth + 1)
        sub.run(strip_doc(fn))
        if sub.ret is None:
            raise Unsupported("inlined function without return")
        return sub.ret

    # -- statements --------------------------------------------------------------------
    def mask_test(self, test):
        """`if` tests of the form `X is None` / `not X is None` / `X is not None` where X is bound to an
        array (test decided: the array is present) or to the literal None (decided: absent).
        Returns True (run the body), False (run the else part) or None (not such a test)."""
        t = ast.unparse(test).replace(" ", "").replace("(", "").replace(")", "")
        for name, val in self.env.items():
            if val == Const("None"):
                absent = True
            elif not is_const(val):
                absent = False
            else:
                continue
            if t == name + "isNone":
                return absent
            if t in ("not" + name + "isNone", name + "isnotNone"):
                return not absent
        return None

    def store(self, name, value):
        self.env[name] = fold(value)

    def assign_sub(self, target, value_node, aug=None):
        v = self.ev(value_node)
        inner = target.value
        # x[slices][sel] = v   (write through a view)
        if isinstance(inner, ast.Subscript) and isinstance(inner.value, ast.Name):
            name = inner.value.id
            key = self.slice_key(inner.slice)
            if key is None or name not in self.env:
                raise Unsupported("store through an unrecognised view")
            cur = self.env[name]
            view = fold(Crop(key, cur))
            self.store(name, SetSlice(key, cur, self.masked_write(view, self.ev(target.slice), v, aug)))
            return
        if not isinstance(inner, ast.Name) or inner.id not in self.env:
            raise Unsupported("store into an unknown array")
        name = inner.id
        cur = self.env[name]
        key = self.slice_key(target.slice)
        if key is not None:                                   # x[slices] = v
            if aug:
                raise Unsupported("augmented slice store")
            self.store(name, SetSlice(key, cur, v))
            return
        if isinstance(target.slice, ast.Tuple):
            raise Unsupported("fancy-index store")
        self.store(name, self.masked_write(cur, self.ev(target.slice), v, aug))

    def masked_write(self, cur, sel, v, aug):
        """cur[sel] = v  /  cur[sel] op= v   for a boolean selector array"""
        if is_const(sel) and is_const(cur) and is_const(v):
            return Const("store")
        neg = False
        while sel[0] == "Not":
            sel, neg = sel[1], not neg
        if v[0] == "Gather":
            vs, vn = v[2], False
            while vs[0] == "Not":
                vs, vn = vs[1], not vn
            if vs == sel and vn == neg:
                v = v[1]                                      # x[sel] = y[sel]
            else:
                raise Unsupported("x[a] = y[b] with different selectors")
        elif not is_const(v):
            v = Glob("scatter", v, sel)                       # values in gathered order: needs clean v
        if aug:
            v = Pw(aug, cur, v)
        return Select(cur, sel, v) if neg else Select(v, sel, cur)

    def run(self, body):
        for st in body:
            if self.ret is not None:
                raise Unsupported("statement after return")
            if isinstance(st, ast.Expr) and isinstance(st.value, ast.Constant):
                continue
            if isinstance(st, ast.Global):
                continue
            if isinstance(st, ast.Assign):
                if len(st.targets) != 1:
                    raise Unsupported("multiple targets")
                t = st.targets[0]
                if isinstance(t, ast.Name):
                    self.store(t.id, self.ev(st.value))
                elif isinstance(t, ast.Tuple) and all(isinstance(e, ast.Name) for e in t.elts):
                    v = self.ev(st.value)
                    if not is_const(v):
                        raise Unsupported("tuple assignment of arrays")
                    for e in t.elts:
                        self.store(e.id, Const("unpacked"))
                elif isinstance(t, ast.Subscript):
                    self.assign_sub(t, st.value)
                else:
                    raise Unsupported("assignment target")
                continue
            if isinstance(st, ast.AugAssign):
                op = type(st.op).__name__.lower()
                if isinstance(st.target, ast.Name):
                    cur = self.ev(st.target)
                    v = self.ev(st.value)
                    ts = [t for t in (cur, v) if not is_const(t)]
                    self.store(st.target.id, Pw(op, *ts) if ts else Const("expr"))
                elif isinstance(st.target, ast.Subscript):
                    self.assign_sub(st.target, st.value, aug=op)
                else:
                    raise Unsupported("augmented target")
                continue
            if isinstance(st, ast.If):
                k = self.mask_test(st.test)
                if k is True:
                    self.run(st.body)
                elif k is False:
                    self.run(st.orelse)
                else:
                    self.config_if(st)
                continue
            if isinstance(st, ast.Return):
                if st.value is None:
                    raise Unsupported("bare return")
                self.ret = self.ev(st.value)
                continue
            if isinstance(st, (ast.Delete, ast.Pass)):
                continue
            raise Unsupported(type(st).__name__)

    def config_if(self, st):
        """`if` on configuration only (radius / footprint / iterations): both branches are run and
        must agree on every array; scalars that differ become one opaque constant."""
        if not is_const(self.ev(st.test)):
            raise Unsupported("branch on array data: " + ast.unparse(st.test)[:60])
        envs = []
        for body in (st.body, st.orelse):
            sub = Interp(self.m, self.fn, self.env, self.depth)
            sub.run(body)
            if sub.ret is not None:
                raise Unsupported("return inside a configuration branch")
            envs.append(sub.env)
        for name in set(envs[0]) | set(envs[1]):
            a, b = envs[0].get(name), envs[1].get(name)
            if a == b:
                self.env[name] = a
            elif a is not None and b is not None and is_const(a) and is_const(b):
                self.env[name] = Const("cfg:" + name)
            elif (a is None or is_const(a)) and (b is None or is_const(b)):
                self.env[name] = Const("cfg:" + name)
            else:
                raise Unsupported("configuration branches disagree on array " + name)


def translate(module, name, image_param=None, callables=()):
    fn = module.funcs[name]
    params = [a.arg for a in fn.args.args]
    env = {}
    for p in params:
        env[p] = Const("$" + p)
    for c in callables:
        env[c] = Const("$callable")
    env[image_param or params[0]] = Img
    if "mask" not in params:
        raise Unsupported("no mask parameter")
    env["mask"] = MaskE
    it = Interp(module, fn, env)
    it.run(strip_doc(fn))
    if it.ret is None:
        raise Unsupported("no return value")
    return it.ret


# ---------------------------------------------------------------- lowering + Coq emission
def lower(t):
    """eliminate the internal nodes"""
    k = t[0]
    if k in ("Img", "MaskE", "FalseC", "Const"):
        return t
    if k == "Not":
        return Pw("not", lower(t[1]))
    if k == "Gather":
        x, m = lower(t[1]), lower_sel(t[2])
        return Glob("gather", Select(x, m[0], FalseC) if not m[1] else Select(FalseC, m[0], x), m[0])
    if k == "Crop":
        return Glob("crop" + t[1], lower(t[2]))
    if k == "SetSlice":
        return Glob("setslice" + t[1], lower(t[2]), lower(t[3]))
    if k in ("Erode", "ErodeP"):
        return (k, t[1], lower(t[2]))
    if k in ("Pw", "Glob"):
        return (k, t[1], tuple(lower(x) for x in t[2]))
    if k == "Loc":
        return ("Loc", t[1], t[2], lower(t[3]))
    if k == "Select":
        m, neg = lower_sel(t[2])
        a, b = lower(t[1]), lower(t[3])
        return Select(b, m, a) if neg else Select(a, m, b)
    if k == "MConv":
        return ("MConv", t[1], lower(t[2]), lower(t[3]))
    raise Unsupported("lower " + k)


def lower_sel(m):
    neg = False
    while m[0] == "Not":
        m, neg = m[1], not neg
    return lower(m), neg


class Emitter:
    def __init__(self):
        self.syms = {}
        self.consts = {}

    def sym(self, name):
        return self.syms.setdefault(name, len(self.syms))

    def const(self, name):
        return self.consts.setdefault(name, len(self.consts))

    def coq(self, t):
        k = t[0]
        if k in ("Img", "MaskE", "FalseC"):
            return k
        if k == "Const":
            return "(Const %d)" % self.const(t[1])
        if k in ("Erode", "ErodeP"):
            return "(%s %d %s)" % (k, t[1], self.coq(t[2]))
        if k in ("Pw", "Glob"):
            return "(%s %d [%s])" % (k, self.sym(t[1]), "; ".join(self.coq(x) for x in t[2]))
        if k == "Loc":
            return "(Loc %d %d %s)" % (t[1], self.sym(t[2]), self.coq(t[3]))
        if k == "Select":
            return "(Select %s %s %s)" % (self.coq(t[1]), self.coq(t[2]), self.coq(t[3]))
        if k == "MConv":
            return "(MConv %d %s %s)" % (self.sym(t[1]), self.coq(t[2]), self.coq(t[3]))
        raise Unsupported("emit " + k)


def show(t):
    """compact text of a lowered term, for comments and reports"""
    k = t[0]
    if k in ("Img", "MaskE", "FalseC"):
        return k
    if k == "Const":
        return "Const<%s>" % t[1]
    if k in ("Erode", "ErodeP"):
        return "%s %d (%s)" % (k, t[1], show(t[2]))
    if k in ("Pw", "Glob"):
        return "%s %s [%s]" % (k, t[1], "; ".join(show(x) for x in t[2]))
    if k == "Loc":
        return "Loc %d %s (%s)" % (t[1], t[2], show(t[3]))
    if k == "Select":
        return "Select (%s) (%s) (%s)" % (show(t[1]), show(t[2]), show(t[3]))
    if k == "MConv":
        return "MConv %s (%s) (%s)" % (t[1], show(t[2]), show(t[3]))
    return str(t)
