"""C12 translator: Python source of the listed masked operations -> terms of the mask-dataflow
language of coq/theories/Model/MaskFlow.v  (Gen/MaskProgC12.v).

Symbolic evaluation of a function body with an environment (locals -> DSL terms, tuples of slices,
hoisted sub-expressions), on the branch where the mask argument is present:
  * `X is None` / `not X is None` / `X is not None` on an argument are decided (array given / literal None);
  * `if` on configuration or on array data splits the evaluation, each branch is continued with the REST of
    the body (so early return == if/else) and the two results are joined by Select(then, cond, else);
    branches that do not return and agree on every array are merged without splitting;
  * stores that are never read simply vanish (only the returned term matters);
  * loops are abstracted: every variable written in the loop becomes an opaque pure function
    (Glob) of the entry values of every variable read in it;
  * NumPy/SciPy calls are classified by the LOCALITY TABLE below (the trusted interface), calls to the
    functions in INLINE are inlined, any call whose arguments are all image-independent is a constant.
FAIL-CLOSED: every construct that is not explicitly recognised raises Unsupported.  Functions outside the
reach of the evaluator get a hand-written term (maskflow_hand_c12.py) pinned to the hash of their NORMALISED
AST (norm_hash: docstrings dropped, locals alpha-renamed, `not a is b` -> `a is not b`, never-read stores
and `pass` removed)."""
import ast
import copy
import hashlib
import re


class Unsupported(Exception):
    pass


# ---------------------------------------------------------------- DSL terms (tuples)
class T(tuple):
    """term node: a tuple with a cached hash (terms are DAGs with heavy sharing; plain tuple hashing would walk the
    whole tree at every dictionary lookup)"""

    def __new__(cls, *fields):
        return tuple.__new__(cls, fields)

    def __hash__(self):
        h = self.__dict__.get("_h")
        if h is None:
            h = self.__dict__["_h"] = tuple.__hash__(self)
        return h


Img = T("Img")
MaskE = T("MaskE")
FalseC = T("FalseC")
# the mask argument read as an array of INTEGER dtype with values 0 / non-zero (the "integer mask" interpretation used to
# document finding F24): not a boolean array, so x[mask] is integer fancy indexing and ~mask is a bitwise complement;
# only operations that look at truthiness (logical_not/and, == 0, binary_erosion, casts to bool, the C kernel's != 0)
# turn it into the mask proper
MaskRaw = T("MaskRaw")


def Const(name): return T("Const", str(name))
def Pw(f, *es): return T("Pw", f, tuple(es))
def Loc(r, f, e): return T("Loc", int(r), f, e)
def Glob(f, *es): return T("Glob", f, tuple(es))
def Erode(r, m): return T("Erode", int(r), m)
def ErodeP(r, m): return T("ErodeP", int(r), m)
def ErodeS(s, m): return T("ErodeS", int(s), m)     # punctured erosion by the abstract structure s
def LocS(s, f, e): return T("LocS", int(s), f, e)   # reads e at p and at p + d, d in structure s
def Select(a, m, b): return T("Select", a, m, b)
def MConv(k, e, m): return T("MConv", k, e, m)
def Not(m): return T("Not", m)                    # internal: eliminated when used as a selector
def Gather(x, m): return T("Gather", x, m)        # internal: x[m], m boolean; lowered to Glob gather [where(m,x,0), m]
def Crop(key, x): return T("Crop", key, x)        # internal: x[slices]
def SetSlice(key, x, y): return T("SetSlice", key, x, y)   # internal: x with x[slices] := y
def Seq(*ts): return T("Seq", tuple(ts))          # internal: python tuple/list of arrays
def Slices(key): return T("Slices", key)
def Carry(name): return T("Carry", name)          # internal: value of a loop-carried variable at the start of an iteration
def Stack(*ts): return T("Stack", tuple(ts))      # internal: a 3-d stack whose planes are image-shaped (pointwise in p)          # internal: a tuple of slice objects with constant bounds


def And(m1, m2):
    """logical_and(m1, m2) as the language sees it: m2 where m1, else False"""
    return Select(m2, m1, FalseC)


def truth(t):
    """the boolean array of the truthiness of t"""
    return MaskE if t == MaskRaw else t


def is_const(t):
    return t[0] in ("Const", "FalseC", "Slices")


def is_masklike(t):
    """terms that denote a mask (only their truthiness matters)"""
    k = t[0]
    if k == "MaskE":
        return True
    if k in ("Erode", "ErodeP", "ErodeS", "Not"):
        return is_masklike(t[-1])
    if k == "Select" and t[3] == FalseC:
        return is_masklike(t[1]) or is_masklike(t[2])
    return False


CMP = {"lt", "gt", "lte", "gte", "eq", "noteq", "greater", "less", "greater_equal", "less_equal", "equal", "not_equal",
       "logical_xor", "isfinite", "isinf"}


def is_boolish(t):
    """terms known to be boolean arrays (so that x[t] is boolean-mask indexing, not integer fancy indexing)"""
    k = t[0]
    if is_masklike(t):
        return True
    if k == "Not":
        return is_boolish(t[1])
    if k == "Pw" and (t[1] in CMP or t[1] in ("or", "logical_or", "isnan")):
        return True
    if k == "Select" and t[3] == FalseC:
        return is_boolish(t[1]) and is_boolish(t[2])
    if k == "Crop":
        return is_boolish(t[2])
    return False


def parse_key(key):
    """offsets (start of each dimension) of a literal slice key like '1:,:-1', else None"""
    offs = []
    for part in key.split(","):
        m = re.fullmatch(r"(-?\d*):(-?\d*)", part)
        if not m:
            return None
        a, b = m.group(1), m.group(2)
        if a.startswith("-") or (b and not b.startswith("-") and b != ""):
            return None                                   # negative starts / positive stops: not a pure shift
        offs.append(int(a) if a else 0)
    return offs


def fold(t):
    """local simplifications; a pure function of constants is a constant"""
    k = t[0]
    if k in ("Pw", "Glob") and all(is_const(x) for x in t[2]):
        return Const(t[1] + "(..)")
    if k == "Loc" and is_const(t[3]):
        return Const(t[2] + "(..)")
    if k in ("Erode", "ErodeP", "ErodeS") and is_const(t[2]):
        return Const("erode(..)")
    if k == "LocS" and is_const(t[3]):
        return Const(t[2] + "(..)")
    if k == "Not":
        if t[1] == Const("True"):
            return FalseC
        if t[1] == FalseC:
            return Const("True")
        if is_const(t[1]):
            return Const("not(..)")
        if t[1][0] == "Not":
            return t[1][1]
    if k == "Seq" and all(is_const(x) for x in t[1]):
        return Const("seq")
    if k == "Crop":
        x = t[2]
        if is_const(x):
            return Const("crop(..)")
        if set(t[1].split(",")) == {":"}:
            return x                                      # x[:, :]
        if x[0] == "SetSlice" and x[1] == t[1]:
            return x[3]                                    # NumPy: (x with x[s] := y)[s] == y
    if k == "SetSlice":
        x = t[2]
        if x[0] == "SetSlice" and x[1] == t[1]:
            return fold(SetSlice(t[1], x[2], t[3]))        # second write to the same slice wins
        if is_const(x) and is_const(t[3]):
            return Const("setslice(..)")
    if k == "Gather":
        x, m = t[1], t[2]
        if is_const(x) and is_const(m):
            return Const("gather(..)")
        # x[s1][m[s2]] with literal slices: the true pixels p of m (none is cut off, otherwise NumPy raises when the
        # vector is combined with one gathered by m itself) in the same order, reading x at p + start(s1) - start(s2)
        if m[0] == "Crop" and parse_key(m[1]) is not None:
            o2 = parse_key(m[1])
            if x[0] == "Crop" and parse_key(x[1]) is not None and len(parse_key(x[1])) == len(o2):
                o1, base = parse_key(x[1]), x[2]
            elif x[0] != "Crop":
                o1, base = [0] * len(o2), x
            else:
                return t
            off = [a - b for a, b in zip(o1, o2)]
            r = max(abs(v) for v in off)
            sh = base if r == 0 else (Const("shift(..)") if is_const(base) else
                                      Loc(r, "shift(%s)" % ",".join("%+d" % v for v in off), base))
            return fold(Gather(sh, m[2]))
        if x[0] == "Crop" and parse_key(x[1]) is not None and m[0] != "Crop" and not is_const(m):
            off = parse_key(x[1])
            r = max(abs(v) for v in off)
            sh = x[2] if r == 0 else Loc(r, "shift(%s)" % ",".join("%+d" % v for v in off), x[2])
            return fold(Gather(sh, m))
    return t


# ---------------------------------------------------------------- locality table (TRUSTED)
# pointwise NumPy functions / methods: value at p depends on the arguments at p only
POINTWISE = {"fabs", "square", "multiply", "add", "subtract", "divide", "true_divide", "power", "negative", "sign", "greater",
             "less", "greater_equal", "less_equal", "equal", "not_equal", "logical_xor", "isfinite", "isinf", "rint", "ceil",
             "trunc", "log", "log10", "sin", "cos", "arctan2", "hypot", "float32", "float64", "uint8", "nan_to_num",
             "abs", "absolute", "sqrt", "astype", "copy", "array", "asarray", "ascontiguousarray", "minimum",
             "maximum", "clip", "exp", "exp2", "log2", "isnan", "real", "floor", "float", "bool", "int", "logical_or"}
# pure functions with arbitrary dependence on their (array) arguments
GLOBAL = {"table_lookup", "grey_erosion", "grey_dilation", "gaussian_filter", "label", "distance_transform_edt",
          "rank_order", "lstsq", "sum", "max", "min", "any", "all", "mean", "unique", "cumsum", "lexsort",
          "convolve", "prepare_for_index_lookup", "index_lookup", "function", "product", "nonzero", "argwhere",
          "maximum_position", "permutation", "fix", "fixup_scipy_ndimage_result", "hstack", "vstack", "column_stack",
          "searchsorted", "convex_hull_ijv", "get_line_pts", "convex_hull_transform", "transpose", "len", "tuple",
          "zeros_like", "ones_like", "zeros", "ones", "float", "int", "range", "arange"}
# calls that write into one of their arguments (position): the argument becomes a pure function of all arguments
MUTATES = {"skeletonize_loop": 0, "_filter.median_filter": 2}
# calls evaluated for an effect that does not concern arrays
NO_EFFECT = {"seed"}
# modules whose attribute calls are library calls
LIBS = {"np", "numpy", "scind", "scipy", "_filter"}
# functions of the anchored modules that are inlined when called
INLINE = {"grey_erosion", "grey_dilation", "opening", "closing", "hsobel", "vsobel", "hprewitt", "vprewitt",
          "smooth_with_function_and_mask", "masked_convolution", "regional_maximum"}
# truthiness-preserving conversions (identity on mask-like terms)
CONVERSIONS = {"astype", "asarray", "array", "ascontiguousarray", "copy"}
SHAPE_ATTRS = {"shape", "dtype", "ndim", "size", "eps"}
BINARY_STRUCTURE = "generate_binary_structure(2,2)"


def kernel_shape(t):
    """(h, w) of an image-independent constant known to be a literal h x w array (named locals keep this), else None"""
    if t[0] == "Const" and t[1].startswith("kernel:"):
        h, w = t[1][7:].split("x")
        return int(h), int(w)
    return None


def is_number(t):
    if t == FalseC:
        return True
    if t[0] != "Const":
        return False
    try:
        float(t[1])
        return True
    except ValueError:
        return False


def literal_kernel(n):
    """h, w of a literal rectangular list of lists of numbers, else None"""
    if not (isinstance(n, (ast.List, ast.Tuple)) and n.elts and all(isinstance(r, (ast.List, ast.Tuple)) for r in n.elts)):
        return None
    ws = {len(r.elts) for r in n.elts}
    if len(ws) != 1:
        return None
    for r in n.elts:
        for e in r.elts:
            if isinstance(e, ast.UnaryOp) and isinstance(e.op, (ast.USub, ast.UAdd)):
                e = e.operand
            if not (isinstance(e, ast.Constant) and isinstance(e.value, (int, float)) and not isinstance(e.value, bool)):
                return None
    return len(n.elts), ws.pop()


def kernel_radius(node):
    """radius of a literal square odd kernel appearing anywhere in the expression, else None"""
    for n in ast.walk(node):
        if isinstance(n, ast.List) and n.elts and all(isinstance(r, ast.List) for r in n.elts):
            h = len(n.elts)
            ws = {len(r.elts) for r in n.elts}
            if len(ws) == 1 and ws.pop() == h and h % 2 == 1:
                return h // 2
            raise Unsupported("kernel literal is not square/odd")
    return None


def strip_doc(fn):
    body = fn.body
    if body and isinstance(body[0], ast.Expr) and isinstance(body[0].value, ast.Constant) \
            and isinstance(body[0].value.value, str):
        body = body[1:]
    return body


# ---------------------------------------------------------------- normalised hash for the hand-written terms
class _Norm(ast.NodeTransformer):
    def __init__(self, rename, dead):
        self.rename, self.dead = rename, dead

    def visit_Name(self, n):
        return ast.copy_location(ast.Name(id=self.rename.get(n.id, n.id), ctx=n.ctx), n)

    def visit_arg(self, n):
        return n                                            # parameter names are interface: kept

    def visit_UnaryOp(self, n):
        self.generic_visit(n)
        if isinstance(n.op, ast.Not) and isinstance(n.operand, ast.Compare) and len(n.operand.ops) == 1:
            op = n.operand.ops[0]
            flip = {ast.Is: ast.IsNot, ast.IsNot: ast.Is, ast.In: ast.NotIn, ast.NotIn: ast.In}.get(type(op))
            if flip:
                return ast.Compare(left=n.operand.left, ops=[flip()], comparators=n.operand.comparators)
        return n

    def visit_Assign(self, n):
        if len(n.targets) == 1 and isinstance(n.targets[0], ast.Name) and n.targets[0].id in self.dead \
                and not any(isinstance(c, ast.Call) and not _pure_call(c) for c in ast.walk(n.value)):
            return None
        self.generic_visit(n)
        return n

    def visit_Pass(self, n):
        return None

    def visit_Expr(self, n):
        if isinstance(n.value, ast.Constant):
            return None
        self.generic_visit(n)
        return n


def _pure_call(c):
    f = c.func
    return isinstance(f, ast.Attribute) and f.attr in ("copy", "astype") or \
        (isinstance(f, ast.Attribute) and isinstance(f.value, ast.Name) and f.value.id in ("np", "numpy"))


def norm_hash(fn):
    fn = copy.deepcopy(fn)
    params = {a.arg for a in fn.args.args + fn.args.kwonlyargs}
    stores, loads = [], set()
    for n in ast.walk(fn):
        if isinstance(n, ast.Name):
            if isinstance(n.ctx, ast.Store):
                if n.id not in params and n.id not in stores:
                    stores.append(n.id)
            else:
                loads.add(n.id)
    globs = {g for n in ast.walk(fn) if isinstance(n, ast.Global) for g in n.names}
    # never-read locals (plain dead stores); augmented / subscript stores load the name, so they are kept
    dead = {s for s in stores if s not in loads and s not in globs}
    # alpha-renaming in order of first binding (source order)
    order = []
    for n in sorted((n for n in ast.walk(fn) if isinstance(n, ast.Name) and isinstance(n.ctx, ast.Store)),
                    key=lambda n: (n.lineno, n.col_offset)):
        if n.id not in params and n.id not in globs and n.id not in dead and n.id not in order:
            order.append(n.id)
    rename = {name: "_v%d" % k for k, name in enumerate(order)}
    fn.body = strip_doc(fn)
    fn = _Norm(rename, dead).visit(fn)
    fn.decorator_list = []
    fn.returns = None
    # an `if` whose body became empty keeps a Pass so that the tree stays well formed
    for n in ast.walk(fn):
        for field in ("body", "orelse"):
            if isinstance(n, (ast.If, ast.For, ast.While, ast.FunctionDef)) and field == "body" and not n.body:
                n.body = [ast.Pass()]
    return hashlib.sha256(ast.dump(fn, annotate_fields=False, include_attributes=False).encode()).hexdigest()[:16]


ast_hash = norm_hash          # (name kept for mk_pins_c12.py)


def loop_hash(fn, st):
    """normalised hash of ONE loop statement of fn: the loop wrapped in a function with fn's parameters; locals of fn that
    the loop only reads are renamed by first occurrence, the rest as in norm_hash"""
    params = {a.arg for a in fn.args.args + fn.args.kwonlyargs}
    fn_stores = {n.id for n in ast.walk(fn) if isinstance(n, ast.Name) and isinstance(n.ctx, ast.Store)}
    st = copy.deepcopy(st)
    loop_stores = {n.id for n in ast.walk(st) if isinstance(n, ast.Name) and isinstance(n.ctx, ast.Store)}
    free, ren = [], {}
    for n in sorted((n for n in ast.walk(st) if isinstance(n, ast.Name)), key=lambda n: (n.lineno, n.col_offset)):
        if n.id in fn_stores and n.id not in loop_stores and n.id not in params and n.id not in free:
            free.append(n.id)
    ren = {name: "_f%d" % k for k, name in enumerate(free)}
    for n in ast.walk(st):
        if isinstance(n, ast.Name) and n.id in ren:
            n.id = ren[n.id]
    wrapper = ast.FunctionDef(name="_loop", args=copy.deepcopy(fn.args), body=[st], decorator_list=[], returns=None,
                              type_comment=None, lineno=0, col_offset=0)
    return norm_hash(wrapper)


class Module:
    def __init__(self, sources):
        """sources: {modname: text}.  Function table over all modules (later modules do not override)."""
        self.funcs = {}
        for mod, text in sources.items():
            tree = ast.parse(text)
            for n in tree.body:
                if isinstance(n, ast.FunctionDef):
                    self.funcs.setdefault(n.name, n)
                    self.funcs[mod + "." + n.name] = n


class _Return(Exception):
    pass


class Interp:
    """symbolic evaluation of ONE function activation"""

    def __init__(self, module, fn, args, depth=0):
        self.m = module
        self.fn = fn
        self.env = dict(args)
        self.depth = depth
        self.budget = [400]            # number of branch splits allowed in this activation
        self.loop_conds = []           # stack: exit conditions met while a loop body is evaluated symbolically
        if depth > 6:
            raise Unsupported("inlining too deep")

    # -- expressions -------------------------------------------------------------------
    def call_name(self, f):
        if isinstance(f, ast.Name):
            return None, f.id
        if isinstance(f, ast.Attribute):
            v = f.value
            if isinstance(v, ast.Name) and v.id in LIBS:
                return None, ("_filter." + f.attr) if v.id == "_filter" else f.attr
            if isinstance(v, ast.Attribute) and isinstance(v.value, ast.Name) and v.value.id in LIBS:
                return None, f.attr                          # np.random.seed, scipy.linalg.lstsq
            return v, f.attr                                 # method call on an expression
        raise Unsupported("callee " + ast.dump(f)[:80])

    def ev(self, n, env):
        return fold(self._ev(n, env))

    def free_deps(self, n, env):
        """non-constant terms bound to the names an expression reads (for opaque sub-expressions)"""
        bound = set()
        for c in ast.walk(n):
            if isinstance(c, ast.comprehension):
                for t in ast.walk(c.target):
                    if isinstance(t, ast.Name):
                        bound.add(t.id)
            if isinstance(c, ast.Lambda):
                bound.update(a.arg for a in c.args.args)
        deps = []
        for c in ast.walk(n):
            if isinstance(c, ast.Name) and isinstance(c.ctx, ast.Load) and c.id not in bound and c.id in env:
                t = env[c.id]
                if not is_const(t) and t not in deps:
                    deps.append(t)
        return deps

    def _ev(self, n, env):
        if isinstance(n, ast.Name):
            if n.id in env:
                return env[n.id]
            return Const("$" + n.id)                         # module-level constant / table / function
        if isinstance(n, ast.Constant):
            if n.value is False or (isinstance(n.value, (int, float)) and not isinstance(n.value, bool)
                                    and n.value == 0):
                return FalseC
            return Const(repr(n.value))
        if isinstance(n, (ast.Tuple, ast.List)):
            hw = literal_kernel(n)
            if hw:
                return Const("kernel:%dx%d" % hw)
            parts = [self.ev(e, env) for e in n.elts]
            if parts and all(isinstance(e, ast.Call) and isinstance(e.func, ast.Name) and e.func.id == "slice"
                             and len(e.args) == 2 and not e.keywords for e in n.elts) and all(is_const(p) for p in parts):
                return Slices(",".join(self.slice_call_text(e) for e in n.elts))
            return Seq(*parts)
        if isinstance(n, ast.UnaryOp):
            t = self.ev(n.operand, env)
            if isinstance(n.op, ast.Invert) and t == MaskRaw:
                return Pw("bitwise_invert", t)              # ~mask on an integer mask: -1 / -2 (254 / 255), not a complement
            if isinstance(n.op, (ast.Invert, ast.Not)):
                return Not(t)
            return t if kernel_shape(t) else Pw("neg", t)
        if isinstance(n, ast.BinOp):
            ts = [self.ev(n.left, env), self.ev(n.right, env)]
            if any(t[0] == "Seq" for t in ts):
                raise Unsupported("arithmetic on a python sequence of arrays")
            if all(is_const(t) for t in ts):
                ks = [t for t in ts if kernel_shape(t)]
                if ks and all(kernel_shape(t) == kernel_shape(ks[0]) or is_number(t) for t in ts):
                    return ks[0]                            # a literal array scaled / shifted by numbers keeps its shape
                return Const("expr")
            return Pw(type(n.op).__name__.lower(), *[t for t in ts if not is_const(t)])
        if isinstance(n, ast.Compare):
            if len(n.ops) != 1:
                raise Unsupported("chained comparison")
            l, r = self.ev(n.left, env), self.ev(n.comparators[0], env)
            op = n.ops[0]
            if isinstance(op, (ast.Is, ast.IsNot, ast.In, ast.NotIn)):
                if is_const(l) and is_const(r):
                    return Const("is")
                raise Unsupported("`is`/`in` on an array outside a recognised mask test")
            if isinstance(op, ast.Eq) and r == FalseC and (is_boolish(l) or l == MaskRaw):
                return Not(truth(l))                         # m == False, m == 0
            if isinstance(op, ast.NotEq) and r == FalseC and (is_boolish(l) or l == MaskRaw):
                return truth(l)                              # m != 0
            ts = [t for t in (l, r) if not is_const(t)]
            return Pw(type(op).__name__.lower(), *ts) if ts else Const("cmp")
        if isinstance(n, ast.BoolOp):
            ts = [self.ev(v, env) for v in n.values]
            arr = [t for t in ts if not is_const(t)]
            return Pw("or" if isinstance(n.op, ast.Or) else "and", *arr) if arr else Const("boolop")
        if isinstance(n, ast.Attribute):
            base = self.ev(n.value, env)
            if is_const(base):
                return Const("." + n.attr)
            if n.attr in SHAPE_ATTRS:
                return self.shape_of(base)
            raise Unsupported("attribute ." + n.attr)
        if isinstance(n, ast.Subscript):
            return self.subscript(n, env)
        if isinstance(n, ast.Call):
            return self.call(n, env)
        if isinstance(n, ast.Lambda):
            if self.free_deps(n.body, env):
                raise Unsupported("lambda closing over array data")
            return Const("$callable")
        if isinstance(n, ast.IfExp):
            k = self.mask_test(n.test, env)
            if k is True:
                return self.ev(n.body, env)
            if k is False:
                return self.ev(n.orelse, env)
        if isinstance(n, (ast.ListComp, ast.GeneratorExp, ast.IfExp)):
            for c in ast.walk(n):
                if isinstance(c, ast.Call):
                    _, f = self.call_name(c.func)
                    if f in MUTATES or (isinstance(c.func, ast.Name) and c.func.id in env
                                        and env[c.func.id] == Const("$callable")):
                        raise Unsupported("effectful call inside an opaque expression")
            deps = self.free_deps(n, env)
            return Glob("opaque_expression", *deps) if deps else Const("expr")
        raise Unsupported(type(n).__name__)

    def shape_of(self, t):
        """shape/size/dtype of a term: image-shaped terms have the (constant) image shape; the length of a gathered
        vector depends on its selector; anything else is an opaque function of the term"""
        k = t[0]
        if k in ("Img", "MaskE", "Pw", "Loc", "LocS", "Erode", "ErodeP", "ErodeS", "Select", "Not", "MConv"):
            if k == "Pw" and any(x[0] in ("Gather", "Glob") for x in t[2]):
                return Glob("shape_of", t)
            return Const(".shape")
        if k == "Gather":
            return Glob("count_nonzero", t[2])
        return Glob("shape_of", t)

    def slice_call_text(self, e):
        return ":".join("" if (isinstance(a, ast.Constant) and a.value is None) else ast.unparse(a).replace(" ", "")
                        for a in e.args[:2]) if len(e.args) == 2 else None

    def slice_key(self, sl, env):
        """canonical text of a pure-slice index whose bounds are constants (also through a local bound to a tuple
        of slice objects), else None"""
        if isinstance(sl, ast.Name) and sl.id in env and env[sl.id][0] == "Slices":
            return env[sl.id][1]
        elts = sl.elts if isinstance(sl, ast.Tuple) else [sl]
        if not all(isinstance(e, ast.Slice) for e in elts):
            return None
        for e in elts:
            for b in (e.lower, e.upper, e.step):
                if b is not None and not is_const(self.ev(b, env)):
                    return None                               # handled by index_terms (bounds become dependencies)
            if e.step is not None:
                return None
        return ",".join(("" if e.lower is None else ast.unparse(e.lower).replace(" ", "")) + ":" +
                        ("" if e.upper is None else ast.unparse(e.upper).replace(" ", "")) for e in elts)

    def subscript(self, n, env):
        base = self.ev(n.value, env)
        key = self.slice_key(n.slice, env)
        if key is not None:
            return Const("idx") if is_const(base) else Crop(key, base)
        elts = n.slice.elts if isinstance(n.slice, ast.Tuple) else [n.slice]
        idx = self.index_terms(elts, env)
        if base[0] == "Seq" and len(idx) == 1 and isinstance(n.slice, ast.Constant) and isinstance(n.slice.value, int):
            return base[1][n.slice.value]
        arr = [t for t in idx if not is_const(t)]
        if is_const(base) and not arr:
            return Const("idx")
        if not arr:
            return Glob("index", base)                        # x[0], x[k, :, :]: constant position
        if len(idx) == 1 and is_boolish(idx[0]):
            return Gather(base, idx[0])                      # boolean-mask indexing
        return Glob("index", *([base] if not is_const(base) else []) + arr)      # integer / fancy indexing

    def index_terms(self, elts, env):
        out = []
        for e in elts:
            if isinstance(e, ast.Slice):
                deps = [self.ev(b, env) for b in (e.lower, e.upper, e.step) if b is not None]
                deps = [d for d in deps if not is_const(d)]
                if any(d[0] == "Seq" for d in deps):
                    raise Unsupported("sequence as a slice bound")
                out.append(Glob("slice", *deps) if deps else Const("slice"))
            else:
                t = self.ev(e, env)
                if t[0] == "Seq":
                    t = fold(Glob("array_of", *[x for x in t[1] if not is_const(x)])) if any(
                        not is_const(x) for x in t[1]) else Const("seq")
                out.append(t)
        return out

    def call(self, n, env):
        recv, f = self.call_name(n.func)
        if any(k.arg is None for k in n.keywords) or any(isinstance(a, ast.Starred) for a in n.args):
            raise Unsupported("*args/**kwargs")
        args = [self.ev(a, env) for a in n.args]
        kws = {k.arg: self.ev(k.value, env) for k in n.keywords}
        flat = []
        for a in args + list(kws.values()):
            flat.extend(a[1] if a[0] == "Seq" else [a])
        arr = [a for a in flat if not is_const(a)]
        if recv is not None:
            r = self.ev(recv, env)
            if r[0] == "Seq":
                raise Unsupported("method on a python sequence")
            if f in ("astype", "copy"):
                if is_const(r):
                    return r if kernel_shape(r) else Const("method")
                if r == MaskRaw:
                    tobool = any(a in (Const("$bool"), Const(".bool_"), Const("'bool'")) for a in args + list(kws.values()))
                    return MaskE if (f == "astype" and tobool) else r          # other dtypes keep the values
                return r if (f == "astype" and is_masklike(r)) else Pw(f, r)
            if is_const(r) and not arr:
                return Const("method")
            if f in ("sum", "max", "min", "any", "all", "mean", "transpose", "ravel", "flatten", "tolist") and not is_const(r):
                return Glob(f, r, *arr)
            raise Unsupported("method ." + f)
        if f in MUTATES or f in NO_EFFECT:
            raise Unsupported("effectful call %s used as an expression" % f)
        # a parameter / local that is a callable (smooth_with_function_and_mask, canny's lambda)
        if isinstance(n.func, ast.Name) and n.func.id in env:
            if env[n.func.id] == Const("$callable"):
                return Glob("function", *arr) if arr else Const("function(..)")
            raise Unsupported("call of a local value")
        if isinstance(n.func, ast.Name) and f in INLINE and f in self.m.funcs:
            return self.inline(self.m.funcs[f], args, kws)
        if f in ("zeros_like", "ones_like", "empty_like", "full_like") and args and not any(
                not is_const(a) for a in args[1:] + list(kws.values())):
            return Const(f + "(..)")                          # shape and dtype of the first argument only
        if f == "slice":
            return Const("slice") if not arr else self._unsupported("slice of arrays")
        if f in ("binary_erosion", "convolve", "correlate"):
            # keyword spellings of the positional arguments: structure= / weights=
            kwname = "structure" if f == "binary_erosion" else "weights"
            if len(n.args) == 1 and kwname in kws:
                n = ast.Call(func=n.func, args=[n.args[0], [k.value for k in n.keywords if k.arg == kwname][0]],
                             keywords=[k for k in n.keywords if k.arg != kwname])
                args = args + [kws.pop(kwname)]
        if f == "binary_erosion":
            # binary_erosion(m, generate_binary_structure(2, 2), border_value=0): 3x3 erosion, False beyond the border
            if len(args) != 2 or args[1] != Const(BINARY_STRUCTURE):
                raise Unsupported("binary_erosion with an unrecognised structure")
            bv = [k for k in n.keywords if k.arg == "border_value"]
            if len(bv) != 1 or not (isinstance(bv[0].value, ast.Constant) and bv[0].value.value == 0) or len(n.keywords) != 1:
                raise Unsupported("binary_erosion without border_value=0")
            return Erode(1, truth(args[0])) if not is_const(args[0]) else Const("erode(..)")
        if not arr:
            if f == "generate_binary_structure":
                return Const(ast.unparse(n).replace(" ", "").split(".")[-1])
            if f in ("array", "asarray", "ascontiguousarray", "float32", "float64") and args and kernel_shape(args[0]):
                return args[0]                               # np.array(literal kernel, dtype): same shape
            return Const(f + "(..)")                          # a function of image-independent values
        if f == "convolve" and len(n.args) >= 2:
            if not is_const(args[1]):
                raise Unsupported("convolve with a data-dependent kernel")
            hw = kernel_shape(args[1])
            r = (hw[0] // 2) if (hw and hw[0] == hw[1] and hw[0] % 2 == 1) else None
            if r is not None and len(arr) == 1:
                return Loc(r, "convolve%dx%d" % (2 * r + 1, 2 * r + 1), args[0])
            return Glob("convolve", *arr)                    # kernel of unknown size: no locality claimed
        if f == "_filter.masked_convolution" and len(args) == 3 and not kws:
            if not is_const(args[2]):
                raise Unsupported("masked_convolution with a data-dependent kernel")
            return MConv("kernel", args[0], truth(args[1]))          # the C kernel tests mask != 0
        if f == "extract_from_image_lookup" and len(args) == 3 and not kws:
            # _cpmorphology2.pyx: output = zeros; output[i-1, j-1] = orig_image[i-1, j-1]
            idx = [a for a in args[1:] if not is_const(a)]
            return Select(args[0], Glob("index_set", *idx), Const("zeros"))
        if f in ("max", "min", "sum", "mean") and len(args) == 1 and args[0][0] == "Stack" and list(kws) == ["axis"] \
                and isinstance(n.keywords[0].value, ast.Constant) and n.keywords[0].value.value == 0:
            return Pw(f + "_axis0", *args[0][1])              # reduction over the planes: pointwise in p
        if f == "where" and len(args) == 3 and not kws and not any(a[0] == "Seq" for a in args):
            if is_const(args[0]):
                raise Unsupported("np.where on an image-independent condition")
            return Select(args[1], args[0], args[2])           # np.where(c, a, b): a where c else b
        if f == "logical_and" and len(args) == 2 and not kws:
            return And(truth(args[0]), truth(args[1]))
        if f == "logical_not" and len(args) == 1:
            return Not(truth(args[0]))
        if f in CONVERSIONS and args and args[0] == MaskRaw and len(arr) == 1:
            tobool = any(a in (Const("$bool"), Const(".bool_"), Const("'bool'")) for a in args[1:] + list(kws.values()))
            return MaskE if tobool else MaskRaw              # np.asarray(mask, bool) / np.array(mask, np.uint8)
        if f in ("invert", "bitwise_not") and len(args) == 1 and not kws and is_boolish(args[0]):
            return Not(args[0])
        if f in CONVERSIONS and len(arr) == 1 and is_masklike(args[0]) and f != "copy":
            return args[0]                                   # np.asarray(mask, bool), np.array(mask, np.uint8): truthiness kept
        if f in POINTWISE:
            return Pw(f, *arr)
        if f in GLOBAL:
            return Glob(f, *arr)
        raise Unsupported("call " + f)

    def _unsupported(self, msg):
        raise Unsupported(msg)

    def inline(self, fn, args, kws):
        params = [a.arg for a in fn.args.args]
        defaults = fn.args.defaults
        bound = {}
        for p, d in zip(params[len(params) - len(defaults):], defaults):
            bound[p] = Const("None") if (isinstance(d, ast.Constant) and d.value is None) else self.ev(d, {})
        for p, a in zip(params, args):
            bound[p] = a
        for k, v in kws.items():
            if k not in params:
                raise Unsupported("unknown keyword " + k)
            bound[k] = v
        if set(params) - set(bound):
            raise Unsupported("missing arguments in call to " + fn.name)
        sub = Interp(self.m, fn, bound, self.depth + 1)
        return sub.run_function()

    # -- statements --------------------------------------------------------------------
    def mask_test(self, test, env):
        """`if` tests of the form `X is None` / `not X is None` / `X is not None` where X is bound to an array (decided:
        present) or to the literal None (decided: absent).  True = run the body, False = the else part, None = other."""
        neg = False
        while isinstance(test, ast.UnaryOp) and isinstance(test.op, ast.Not):
            test, neg = test.operand, not neg
        if not (isinstance(test, ast.Compare) and len(test.ops) == 1 and isinstance(test.left, ast.Name)
                and isinstance(test.comparators[0], ast.Constant) and test.comparators[0].value is None
                and isinstance(test.ops[0], (ast.Is, ast.IsNot))):
            return None
        val = env.get(test.left.id)
        if val is None:
            return None
        if val == Const("None"):
            absent = True
        elif not is_const(val):
            absent = False
        else:
            return None
        res = absent if isinstance(test.ops[0], ast.Is) else not absent
        return (not res) if neg else res

    def run_function(self):
        ret = self.block(strip_doc(self.fn), self.env)
        if ret is None:
            raise Unsupported("a path of %s ends without return" % self.fn.name)
        return ret

    def block(self, stmts, env):
        """execute stmts in env (mutated); returns the returned term or None when control falls off the end"""
        for k, st in enumerate(stmts):
            rest = stmts[k + 1:]
            if isinstance(st, ast.Expr) and isinstance(st.value, ast.Constant):
                continue
            if isinstance(st, (ast.Global, ast.Pass, ast.Delete)):
                continue
            if isinstance(st, ast.Return):
                if st.value is None:
                    raise Unsupported("bare return")
                r = self.ev(st.value, env)
                if r[0] in ("Seq", "Slices"):
                    raise Unsupported("function returns a python sequence")
                return r
            if isinstance(st, ast.Assign):
                if len(st.targets) != 1:
                    raise Unsupported("multiple targets")
                self.assign(st.targets[0], st.value, env)
                continue
            if isinstance(st, ast.AugAssign):
                op = type(st.op).__name__.lower()
                if isinstance(st.target, ast.Name):
                    cur, v = self.ev(st.target, env), self.ev(st.value, env)
                    ts = [t for t in (cur, v) if not is_const(t)]
                    env[st.target.id] = fold(Pw(op, *ts)) if ts else Const("expr")
                elif isinstance(st.target, ast.Subscript):
                    self.assign_sub(st.target, st.value, env, aug=op)
                elif isinstance(st.target, ast.Attribute) and st.target.attr == "flat" and isinstance(st.target.value, ast.Name):
                    # x.flat op= v : in-place update of x in flattened order, a pure function of x and v
                    name = st.target.value.id
                    parts = [t for t in (self.ev(st.target.value, env), self.ev(st.value, env)) if not is_const(t)]
                    if any(t[0] == "Seq" for t in parts):
                        raise Unsupported("sequence in a flat update")
                    env[name] = Glob("flat_" + op, *parts) if parts else Const("expr")
                else:
                    raise Unsupported("augmented target")
                continue
            if isinstance(st, ast.Expr) and isinstance(st.value, ast.Call):
                self.effect_call(st.value, env)
                continue
            if isinstance(st, (ast.For, ast.While)):
                self.loop(st, env)
                continue
            if isinstance(st, ast.If):
                k2 = self.mask_test(st.test, env)
                if k2 is True:
                    return self.block(st.body + rest, env)
                if k2 is False:
                    return self.block(st.orelse + rest, env)
                cond = self.ev(st.test, env)
                if cond == Const("True"):
                    return self.block(st.body + rest, env)
                if cond == FalseC:
                    return self.block(st.orelse + rest, env)
                if cond[0] == "Seq":
                    raise Unsupported("truth value of a sequence")
                if self.loop_exit(st):
                    # `if c: break` / `if c: continue` inside a loop evaluated symbolically: the iteration may be cut short;
                    # the condition is recorded (a data-dependent one makes the loop's result a global function)
                    if not is_const(cond):
                        self.loop_conds[-1].append(cond)
                    continue
                merged = self.try_merge(st, env, cond)
                if merged is not None:
                    env.clear(); env.update(merged)
                    continue
                # split: each branch is continued with the rest of the body
                self.budget[0] -= 1
                if self.budget[0] < 0:
                    raise Unsupported("too many branch splits")
                e1, e2 = dict(env), dict(env)
                r1 = self.block(st.body + rest, e1)
                r2 = self.block(st.orelse + rest, e2)
                if r1 is None or r2 is None:
                    if r1 is None and r2 is None:
                        raise Unsupported("branches fall off the end of the function")
                    raise Unsupported("one branch returns, the other falls off the end")
                return r1 if r1 == r2 else fold(Select(r1, cond, r2))
            raise Unsupported(type(st).__name__)
        return None

    def loop_exit(self, st):
        return bool(self.loop_conds) and not st.orelse and len(st.body) == 1 and isinstance(st.body[0], (ast.Break, ast.Continue))

    def try_merge(self, st, env, cond):
        """`if` whose branches do not return: one merged environment; a variable on which the branches disagree becomes
        Select(then-value, cond, else-value) (cond is a scalar, so the select is the same at every index); image-
        independent values that differ become one opaque constant when the condition is image-independent too"""
        envs = []
        for body in (st.body, st.orelse):
            e = dict(env)
            if any(isinstance(c, ast.Return) for b in body for c in ast.walk(b)):
                return None
            if self.block(body, e) is not None:
                return None
            envs.append(e)
        out = {}
        for name in set(envs[0]) | set(envs[1]):
            a, b = envs[0].get(name), envs[1].get(name)
            if a == b:
                out[name] = a
            elif (a is None or is_const(a)) and (b is None or is_const(b)) and is_const(cond):
                out[name] = Const("cfg:" + name)
            else:
                a = Const("undefined") if a is None else a
                b = Const("undefined") if b is None else b
                if a[0] in ("Seq", "Slices") or b[0] in ("Seq", "Slices"):
                    return None
                out[name] = fold(Select(a, cond, b))
        return out

    def assign(self, t, value, env):
        if isinstance(t, ast.Name):
            v = self.ev(value, env)
            env[t.id] = v
        elif isinstance(t, (ast.Tuple, ast.List)) and all(isinstance(e, ast.Name) for e in t.elts):
            v = self.ev(value, env)
            if v[0] == "Seq" and len(v[1]) == len(t.elts):
                for e, x in zip(t.elts, v[1]):
                    env[e.id] = x
            elif is_const(v):
                for e in t.elts:
                    env[e.id] = Const("unpacked")
            elif v[0] == "Seq":
                raise Unsupported("unpacking a sequence of different length")
            else:
                for k, e in enumerate(t.elts):
                    env[e.id] = Glob("unpack%d" % k, v)
        elif isinstance(t, ast.Subscript):
            self.assign_sub(t, value, env)
        elif isinstance(t, ast.Attribute) and isinstance(t.value, ast.Name):
            # x.shape = ..., x.flat = ...: only on image-independent values
            if not (is_const(env.get(t.value.id, Const("g"))) and is_const(self.ev(value, env))):
                raise Unsupported("attribute store on array data")
        else:
            raise Unsupported("assignment target")

    def assign_sub(self, target, value_node, env, aug=None):
        v = self.ev(value_node, env)
        if v[0] == "Seq":
            v = Glob("array_of", *[x for x in v[1] if not is_const(x)]) if any(not is_const(x) for x in v[1]) else Const("seq")
        inner = target.value
        # x[slices][sel] = v   (write through a view)
        if isinstance(inner, ast.Subscript) and isinstance(inner.value, ast.Name):
            name = inner.value.id
            key = self.slice_key(inner.slice, env)
            if key is None or name not in env:
                raise Unsupported("store through an unrecognised view")
            cur = env[name]
            view = fold(Crop(key, cur))
            env[name] = fold(SetSlice(key, cur, self.indexed_write(view, target.slice, v, aug, env)))
            return
        if not isinstance(inner, ast.Name) or inner.id not in env:
            raise Unsupported("store into an unknown array")
        name = inner.id
        cur = env[name]
        key = self.slice_key(target.slice, env)
        if key is not None:                                   # x[slices] = v
            if aug:
                v = Pw(aug, Crop(key, cur), v)
            env[name] = fold(SetSlice(key, cur, fold(v)))
            return
        env[name] = self.indexed_write(cur, target.slice, v, aug, env)

    def indexed_write(self, cur, sl, v, aug, env):
        elts = sl.elts if isinstance(sl, ast.Tuple) else [sl]
        idx = self.index_terms(elts, env)
        arr = [t for t in idx if not is_const(t)]
        if len(idx) == 1 and arr and is_boolish(idx[0]):
            return fold(self.masked_write(cur, idx[0], v, aug))
        if (len(elts) == 3 and not arr and aug is None and not isinstance(elts[0], ast.Slice)
                and all(isinstance(e, ast.Slice) and e.lower is None and e.upper is None and e.step is None
                        for e in elts[1:]) and self.image_shaped(v)):
            return Stack(*[t for t in (cur, v) if not is_const(t)])      # x[k, :, :] = image-shaped v: one plane of a stack
        parts = [t for t in [cur] + arr + [v] if not is_const(t)]
        return Glob("indexed_store", *parts) if parts else Const("store")

    @staticmethod
    def image_shaped(t):
        return t[0] in ("Img", "MaskE", "Pw", "Loc", "LocS", "Erode", "ErodeP", "ErodeS", "Select", "Not", "MConv", "Crop") \
            and not (t[0] == "Pw" and any(x[0] in ("Gather", "Glob", "Stack") for x in t[2]))

    def masked_write(self, cur, sel, v, aug):
        """cur[sel] = v  /  cur[sel] op= v   for a boolean selector array"""
        neg = False
        while sel[0] == "Not":
            sel, neg = sel[1], not neg
        if v[0] == "Gather":
            vs, vn = v[2], False
            while vs[0] == "Not":
                vs, vn = vs[1], not vn
            if vs == sel and vn == neg:
                v = v[1]                                      # x[sel] = y[sel]
                if not neg and sel[0] == "Crop" and v[0] == "Crop" and v[1] == sel[1] and not is_const(v[2]):
                    # y[k][m[k]] is used only where m[k] holds: there y[k] == where(m, y, 0)[k]
                    v = Crop(v[1], Select(v[2], sel[2], FalseC))
            else:
                v = Glob("scatter", v, sel)
        elif v[0] == "Pw" and aug is None and all(x[0] == "Gather" and self._same_sel(x[2], sel, neg) or is_const(x)
                                                   for x in v[2]) and any(x[0] == "Gather" for x in v[2]):
            v = Pw(v[1], *[x[1] if x[0] == "Gather" else x for x in v[2]])      # x[sel] = f(y[sel], z[sel]) pointwise
        elif not is_const(v):
            v = Glob("scatter", v, sel)                       # values in gathered order: needs clean v
        if aug:
            v = Pw(aug, cur, v)
        return Select(cur, sel, v) if neg else Select(v, sel, cur)

    @staticmethod
    def _same_sel(vs, sel, neg):
        vn = False
        while vs[0] == "Not":
            vs, vn = vs[1], not vn
        return vs == sel and vn == neg

    def effect_call(self, c, env):
        recv, f = self.call_name(c.func)
        if recv is None and f in NO_EFFECT:
            return
        if recv is None and f in MUTATES:
            pos = MUTATES[f]
            if pos >= len(c.args) or not isinstance(c.args[pos], ast.Name):
                raise Unsupported("mutated argument of %s is not a plain name" % f)
            args = [self.ev(a, env) for a in c.args]
            arr = [a for a in args if not is_const(a) and a[0] != "Seq"]
            if any(a[0] == "Seq" for a in args):
                raise Unsupported("sequence argument to " + f)
            env[c.args[pos].id] = Glob(f, *arr) if arr else Const(f + "(..)")
            return
        raise Unsupported("call evaluated for its effect: " + f)

    def loop(self, st, env):
        """for/while: every variable written in the loop becomes an opaque pure function of the entry values of every
        variable read in the loop (loop-carried or not)."""
        for sm in getattr(self.m, "summaries", {}).get(self.fn.name, []):
            # a hand-written summary of this very loop (pinned to the loop's normalised hash)
            if sm["pin"] is not None and sm["pin"] == loop_hash(self.fn, st):
                sm["apply"](self, env)
                return
        written, read = [], []
        for c in ast.walk(st):
            if isinstance(c, ast.Return):
                raise Unsupported("return inside a loop")
            if isinstance(c, (ast.Yield, ast.YieldFrom, ast.Lambda, ast.FunctionDef, ast.Try, ast.With)):
                raise Unsupported("construct inside a loop")
            if isinstance(c, ast.Name):
                if isinstance(c.ctx, ast.Store):
                    if c.id not in written:
                        written.append(c.id)
                elif c.id not in read:
                    read.append(c.id)
            if isinstance(c, (ast.Assign, ast.AugAssign)):
                for t in (c.targets if isinstance(c, ast.Assign) else [c.target]):
                    while isinstance(t, (ast.Subscript, ast.Attribute)):
                        t = t.value
                    if isinstance(t, ast.Name) and t.id not in written:
                        written.append(t.id)
            if isinstance(c, ast.Call):
                recv, f = self.call_name(c.func)
                if recv is None and f in MUTATES:
                    a = c.args[MUTATES[f]]
                    if not isinstance(a, ast.Name):
                        raise Unsupported("mutated argument is not a plain name")
                    if a.id not in written:
                        written.append(a.id)
                elif recv is None and isinstance(c.func, ast.Name) and c.func.id in env \
                        and env[c.func.id] == Const("$callable"):
                    pass
                elif isinstance(c, ast.Call) and isinstance(c.func, ast.Name) and f not in INLINE and f not in GLOBAL \
                        and f not in self.m.funcs and f not in POINTWISE and f not in ("range", "len", "int", "float", "min", "max", "zip",
                                                            "enumerate", "slice", "extract_from_image_lookup"):
                    raise Unsupported("unknown call %s inside a loop" % f)
        if self.refined_loop(st, env, written):
            return
        deps = []
        for r in read:
            t = env.get(r)
            if t is not None and not is_const(t):
                for x in (t[1] if t[0] == "Seq" else [t]):
                    if not is_const(x) and x not in deps:
                        deps.append(x)
        for w in written:
            env[w] = Glob("loop:" + w, *deps) if deps else Const("loop:" + w)

    def refined_loop(self, st, env, written):
        """One symbolic iteration with the loop-carried variables as placeholders.  The final value of every written
        variable is a pure function of (a) the entry values of the carried variables and (b) the values, over all
        iterations, of the maximal carry-free sub-terms E_j of the iteration's terms (their instances differ only in
        image-independent constants, which the checker ignores).  When every path from a carried placeholder to the
        root is pointwise (Pw / Select / plane of a stack) the function is pointwise in p as well.
        Returns False (caller falls back to the coarse abstraction) when the body cannot be evaluated this way."""
        if st.orelse:
            return False
        exits = [c for c in ast.walk(st) if isinstance(c, (ast.Break, ast.Continue))]
        guarded = [c.body[0] for c in ast.walk(st) if isinstance(c, ast.If) and not c.orelse and len(c.body) == 1
                   and isinstance(c.body[0], (ast.Break, ast.Continue))]
        if any(x not in guarded for x in exits):
            return False
        e2 = dict(env)
        targets = []
        if isinstance(st, ast.For):
            if not is_const(self.ev(st.iter, env)):
                return False
            for c in ast.walk(st.target):
                if isinstance(c, ast.Name):
                    targets.append(c.id)
        carried = [w for w in written if w not in targets]
        for w in carried:
            e2[w] = Carry(w)
        for t in targets:
            e2[t] = Const("loopvar:" + t)
        self.loop_conds.append([])
        try:
            extra = [self.ev(st.test, e2)] if isinstance(st, ast.While) else []
            if self.block(st.body, e2) is not None:
                return False
            extra = extra + self.loop_conds[-1]
        except Unsupported:
            return False
        finally:
            self.loop_conds.pop()
        terms = {w: e2[w] for w in carried if e2.get(w) is not None and e2[w] != Carry(w)}
        memo = {}

        def kids(t):
            out = []
            for x in t[1:]:
                if isinstance(x, T):
                    out.append(x)
                elif isinstance(x, tuple):
                    out.extend(y for y in x if isinstance(y, T))
            return out

        def has_carry(t):
            r = memo.get(t)
            if r is None:
                r = memo[t] = (t[0] == "Carry") or any(has_carry(c) for c in kids(t))
            return r

        E = []

        def collect(t):
            if not has_carry(t):
                if not is_const(t) and t not in E:
                    E.append(t)
                return
            for c in kids(t):
                collect(c)

        def pointwise(t):
            if not has_carry(t) or t[0] == "Carry":
                return True
            if t[0] in ("Pw", "Stack", "Select", "Not"):
                return all(pointwise(c) for c in kids(t))
            return False

        for t in list(terms.values()) + extra:
            if t[0] == "Seq":
                return False
            collect(t)
        if any(x[0] in ("Seq", "Slices") for x in E):
            return False
        entries = [env[w] for w in carried if w in env and not is_const(env[w]) and env[w][0] != "Seq"]
        pw_all = all(pointwise(t) for t in terms.values()) and not extra
        for w in carried:
            if w not in terms:
                if w not in env:
                    env[w] = Const("loop:" + w)
                continue
            parts = entries + E
            if not parts:
                env[w] = Const("loop:" + w)
            elif pw_all and all(self.image_shaped(x) or x[0] == "Stack" for x in parts):
                env[w] = Stack(*parts) if terms[w][0] == "Stack" else Pw("loop:" + w, *parts)
            else:
                env[w] = Glob("loop:" + w, *[x for y in parts for x in (y[1] if y[0] == "Stack" else [y])])
        for t in targets:
            env[t] = Const("loopvar:" + t)
        return True


def translate(module, name, image_param=None, callables=(), struct_id=0, int_mask=False):
    module.struct_id = struct_id          # index of the abstract structure used by loop summaries
    fn = module.funcs[name]
    params = [a.arg for a in fn.args.args]
    env = {}
    for p in params:
        env[p] = Const("$" + p)
    for c in callables:
        env[c] = Const("$callable")
    env[image_param or params[0]] = Img
    if "mask" not in params:
        raise Unsupported("no mask parameter")
    env["mask"] = MaskRaw if int_mask else MaskE
    return Interp(module, fn, env).run_function()


# ---------------------------------------------------------------- lowering + Coq emission
_LOW = {}


def lower(t):
    """eliminate the internal nodes (memoised: terms are DAGs with heavy sharing)"""
    r = _LOW.get(t)
    if r is None:
        r = _LOW[t] = _lower(t)
    return r


def _lower(t):
    k = t[0]
    if k in ("Img", "MaskE", "FalseC", "Const"):
        return t
    if k == "MaskRaw":
        return MaskE                                      # same data; what differed is how the code may use it
    if k == "Not":
        return Pw("not", lower(t[1]))
    if k == "Stack":
        return Pw("stack_planes", *[lower(x) for x in t[1]])
    if k == "Carry":
        raise Unsupported("loop-carried placeholder escaped")
    if k == "Gather":
        x, m = lower(t[1]), lower_sel(t[2])
        return Glob("gather", Select(x, m[0], FalseC) if not m[1] else Select(FalseC, m[0], x), m[0])
    if k == "Crop":
        return Glob("crop" + t[1], lower(t[2]))
    if k == "SetSlice":
        return Glob("setslice" + t[1], lower(t[2]), lower(t[3]))
    if k in ("Erode", "ErodeP", "ErodeS"):
        return T(k, t[1], lower(t[2]))
    if k == "LocS":
        return T("LocS", t[1], t[2], lower(t[3]))
    if k in ("Pw", "Glob"):
        return T(k, t[1], tuple(lower(x) for x in t[2]))
    if k == "Loc":
        return T("Loc", t[1], t[2], lower(t[3]))
    if k == "Select":
        m, neg = lower_sel(t[2])
        a, b = lower(t[1]), lower(t[3])
        return Select(b, m, a) if neg else Select(a, m, b)
    if k == "MConv":
        return T("MConv", t[1], lower(t[2]), lower(t[3]))
    raise Unsupported("lower " + k)


def lower_sel(m):
    neg = False
    while m[0] == "Not":
        m, neg = m[1], not neg
    return lower(m), neg


class Emitter:
    """Coq text of programs.  A term is a DAG; every node that has more than one parent becomes a shared definition of
    the program (`Ref k`), except on the spine of the main term (the Select nodes reached from the root through
    then/else branches), which the restore checker inspects."""

    def __init__(self):
        self.syms = {}
        self.consts = {}
        self.size = {}

    def sym(self, name):
        return self.syms.setdefault(name, len(self.syms))

    def const(self, name):
        return self.consts.setdefault(name, len(self.consts))

    def tsize(self, t):
        r = self.size.get(t)
        if r is None:
            r = 1 + sum(self.tsize(x) for x in self.children(t))
            self.size[t] = r
        return r

    @staticmethod
    def children(t):
        k = t[0]
        if k in ("Img", "MaskE", "FalseC", "Const"):
            return ()
        if k in ("Pw", "Glob"):
            return t[2]
        return tuple(x for x in t[1:] if isinstance(x, tuple))

    def dag_size(self, t):
        seen = set()
        stack = [t]
        while stack:
            x = stack.pop()
            if x in seen:
                continue
            seen.add(x)
            stack.extend(self.children(x))
        return len(seen)

    def prog(self, t, psym=None):
        """Coq text `([d0; d1; ...], main)`; psym = (value, name): radii/structures equal to value print as name"""
        import sys
        sys.setrecursionlimit(max(sys.getrecursionlimit(), 20000))
        parents = {}
        seen = set()
        stack = [t]
        while stack:
            x = stack.pop()
            if x in seen:
                continue
            seen.add(x)
            for c in self.children(x):
                parents[c] = parents.get(c, 0) + 1
                stack.append(c)
        defs, memo = [], {}
        num = (lambda v: psym[1] if (psym and v == psym[0]) else str(v))

        def node(x, children_text):
            k = x[0]
            if k in ("Img", "MaskE", "FalseC"):
                return k
            if k == "Const":
                return "(Const %d)" % self.const(x[1])
            if k in ("Erode", "ErodeP", "ErodeS"):
                return "(%s %s %s)" % (k, num(x[1]), children_text[0])
            if k in ("Pw", "Glob"):
                return "(%s %d [%s])" % (k, self.sym(x[1]), "; ".join(children_text))
            if k in ("Loc", "LocS"):
                return "(%s %s %d %s)" % (k, num(x[1]), self.sym(x[2]), children_text[0])
            if k == "Select":
                return "(Select %s %s %s)" % tuple(children_text)
            if k == "MConv":
                return "(MConv %d %s %s)" % (self.sym(x[1]), children_text[0], children_text[1])
            raise Unsupported("emit " + k)

        def emit(x):
            r = memo.get(x)
            if r is not None:
                return r
            if x[0] in ("Pw", "Glob", "Loc", "LocS", "MConv"):
                self.sym(x[1] if x[0] in ("Pw", "Glob", "MConv") else x[2])      # symbol numbers in pre-order
            text = node(x, [emit(c) for c in self.children(x)])
            if parents.get(x, 0) > 1 and self.children(x):
                defs.append(text)
                text = "(Ref %d)" % (len(defs) - 1)
            memo[x] = text
            return text

        def spine(x):
            if x[0] == "Select":
                m = emit(x[2])
                return "(Select %s %s %s)" % (spine(x[1]), m, spine(x[3]))
            return emit(x)

        main = spine(t)
        return "([%s],\n   %s)" % (";\n    ".join(defs), main)


def show(t, limit=600):
    s = _show(t, [limit * 3])
    return s if len(s) <= limit else s[:limit] + " ..."


def _show(t, budget):
    """compact text of a lowered term, for comments and reports"""
    if budget[0] <= 0:
        return ".."
    budget[0] -= 1
    k = t[0]
    if k in ("Img", "MaskE", "FalseC"):
        return k
    if k == "Const":
        return "Const<%s>" % t[1]
    if k in ("Erode", "ErodeP", "ErodeS"):
        return "%s %d (%s)" % (k, t[1], _show(t[2], budget))
    if k == "LocS":
        return "LocS %d %s (%s)" % (t[1], t[2], _show(t[3], budget))
    if k in ("Pw", "Glob"):
        return "%s %s [%s]" % (k, t[1], "; ".join(_show(x, budget) for x in t[2]))
    if k == "Loc":
        return "Loc %d %s (%s)" % (t[1], t[2], _show(t[3], budget))
    if k == "Select":
        return "Select (%s) (%s) (%s)" % (_show(t[1], budget), _show(t[2], budget), _show(t[3], budget))
    if k == "MConv":
        return "MConv %s (%s) (%s)" % (t[1], _show(t[2], budget), _show(t[3], budget))
    return str(t)
