"""C11 translator (fail-closed, Python `ast`): centrosome/threshold.py -> coq/theories/Gen/ThresholdC11.v

(1) the body of get_threshold as a term of Model.ThresholdLang.stmt (order of the correction
    factor, range clamp, dispatch, second correction factor, band computation with the literal
    constants as source text AND exact rational of the double, element-wise clamps, sentinel);
(2) the band literals on their own;
(3) for every function that receives (image, mask): how it reads `image` (access classes).
Anything outside the recognised shapes raises Untranslatable (=> broken obligation)."""
import ast
from fractions import Fraction


class Untranslatable(Exception):
    pass


def bail(node, why):
    raise Untranslatable("threshold.py line %s: %s" % (getattr(node, "lineno", "?"), why))


REGS = {"global_threshold": "RG", "threshold_range_min": "RLo", "threshold_range_max": "RHi",
        "local_threshold": "RL"}
MODS = {"TM_GLOBAL": 0, "TM_ADAPTIVE": 1, "TM_PER_OBJECT": 2}


def qlit(fr):
    n, d = fr.numerator, fr.denominator
    return "(Qmake %s %d)" % (("%d" % n) if n >= 0 else "(%d)" % n, d)


def coq_string(s):
    return '"' + s.replace('"', '""') + '"'


class GT:
    """get_threshold body -> stmt"""

    def __init__(self, src):
        self.src = src
        self.consts = []

    def seg(self, node):
        return ast.get_source_segment(self.src, node)

    def expr(self, e):
        if isinstance(e, ast.Name) and isinstance(e.ctx, ast.Load):
            if e.id in REGS:
                return "EReg %s" % REGS[e.id]
            if e.id == "threshold_correction_factor":
                return "ECf"
            bail(e, "unexpected name %s in clamp expression" % e.id)
        if isinstance(e, ast.Constant) and type(e.value) is float:
            text = self.seg(e)
            fr = Fraction(e.value)        # exact value of the double the literal denotes
            self.consts.append((text, fr))
            return "EConst %s" % qlit(fr)
        if isinstance(e, ast.BinOp) and isinstance(e.op, ast.Mult):
            return "EMul (%s) (%s)" % (self.expr(e.left), self.expr(e.right))
        if (isinstance(e, ast.Call) and isinstance(e.func, ast.Name) and e.func.id in ("max", "min")
                and len(e.args) == 2 and not e.keywords
                and not any(isinstance(a, ast.Starred) for a in e.args)):
            return "%s (%s) (%s)" % ("EMax" if e.func.id == "max" else "EMin",
                                     self.expr(e.args[0]), self.expr(e.args[1]))
        bail(e, "unrecognised expression %r" % self.seg(e))

    @staticmethod
    def not_none(test):
        """`not X is None` / `X is not None` -> X's name"""
        if (isinstance(test, ast.UnaryOp) and isinstance(test.op, ast.Not)
                and isinstance(test.operand, ast.Compare) and len(test.operand.ops) == 1
                and isinstance(test.operand.ops[0], ast.Is)
                and isinstance(test.operand.comparators[0], ast.Constant)
                and test.operand.comparators[0].value is None
                and isinstance(test.operand.left, ast.Name)):
            return test.operand.left.id
        if (isinstance(test, ast.Compare) and len(test.ops) == 1 and isinstance(test.ops[0], ast.IsNot)
                and isinstance(test.comparators[0], ast.Constant) and test.comparators[0].value is None
                and isinstance(test.left, ast.Name)):
            return test.left.id
        return None

    @staticmethod
    def mod_eq(test):
        if (isinstance(test, ast.Compare) and len(test.ops) == 1 and isinstance(test.ops[0], ast.Eq)
                and isinstance(test.left, ast.Name) and test.left.id == "threshold_modifier"
                and isinstance(test.comparators[0], ast.Name) and test.comparators[0].id in MODS):
            return MODS[test.comparators[0].id]
        return None

    def call_shape(self, call, fname, pos, kws):
        if not (isinstance(call, ast.Call) and isinstance(call.func, ast.Name) and call.func.id == fname):
            return False
        args = [a.id if isinstance(a, ast.Name) else None for a in call.args]
        if args != pos:
            bail(call, "%s called with positional arguments %s, expected %s" % (fname, args, pos))
        got = []
        for k in call.keywords:
            if not isinstance(k.value, ast.Name):
                bail(call, "%s keyword %s is not a plain name" % (fname, k.arg))
            got.append((k.arg, k.value.id))
        if got != kws:
            bail(call, "%s called with keywords %s, expected %s" % (fname, got, kws))
        return True

    def seq(self, stmts):
        out = [self.stmt(s) for s in stmts]
        out = [o for o in out if o is not None]
        if not out:
            return "SSkip"
        r = out[-1]
        for o in reversed(out[:-1]):
            r = "SSeq (%s) (%s)" % (o, r)
        return r

    def stmt(self, s):
        if isinstance(s, ast.Expr) and isinstance(s.value, ast.Constant) and isinstance(s.value.value, str):
            return None                                             # docstring
        if isinstance(s, ast.AugAssign):
            if isinstance(s.op, ast.Mult) and isinstance(s.target, ast.Name) and s.target.id in REGS:
                r = REGS[s.target.id]
                return "SSet %s (EMul (EReg %s) (%s))" % (r, r, self.expr(s.value))
            bail(s, "unrecognised augmented assignment")
        if isinstance(s, ast.Assign):
            if len(s.targets) != 1:
                bail(s, "multiple assignment targets")
            t = s.targets[0]
            if isinstance(t, ast.Name):
                if t.id not in REGS:
                    bail(s, "assignment to %s" % t.id)
                r = REGS[t.id]
                v = s.value
                if isinstance(v, ast.Call) and isinstance(v.func, ast.Name) and v.func.id.startswith("get_"):
                    if self.call_shape(v, "get_global_threshold", ["threshold_method", "image", "mask"],
                                       [(None, "kwargs")]):
                        return "SCallGlobal %s" % r
                    if self.call_shape(v, "get_adaptive_threshold",
                                       ["threshold_method", "image", "global_threshold", "mask"],
                                       [("adaptive_window_size", "adaptive_window_size"), (None, "kwargs")]):
                        return "SCallAdaptive %s" % r
                    if self.call_shape(v, "get_per_object_threshold",
                                       ["threshold_method", "image", "global_threshold", "mask", "labels",
                                        "threshold_range_min", "threshold_range_max"], [(None, "kwargs")]):
                        return "SCallPerObject %s" % r
                    bail(s, "unrecognised callee %s" % v.func.id)
                return "SSet %s (%s)" % (r, self.expr(v))
            if isinstance(t, ast.Subscript) and isinstance(t.value, ast.Name) and t.value.id in REGS:
                r = REGS[t.value.id]
                sl = t.slice
                if (isinstance(sl, ast.Compare) and len(sl.ops) == 1 and isinstance(sl.left, ast.Name)
                        and sl.left.id == t.value.id and isinstance(sl.comparators[0], ast.Name)
                        and isinstance(s.value, ast.Name) and s.value.id == sl.comparators[0].id
                        and s.value.id in REGS):
                    b = REGS[s.value.id]
                    if isinstance(sl.ops[0], ast.Lt):
                        return "SClampLow %s %s" % (r, b)
                    if isinstance(sl.ops[0], ast.Gt):
                        return "SClampHigh %s %s" % (r, b)
                bail(s, "unrecognised masked store %r" % self.seg(s))
            bail(s, "unrecognised assignment %r" % self.seg(s))
        if isinstance(s, ast.If):
            nn = self.not_none(s.test)
            if nn is not None:
                if s.orelse or nn not in REGS:
                    bail(s, "unrecognised None-guard")
                return "SIfNotNone %s (%s)" % (REGS[nn], self.seq(s.body))
            # isinstance(local_threshold, np.ndarray)
            t = s.test
            if (isinstance(t, ast.Call) and isinstance(t.func, ast.Name) and t.func.id == "isinstance"
                    and len(t.args) == 2 and isinstance(t.args[0], ast.Name) and t.args[0].id in REGS
                    and self.seg(t.args[1]) == "np.ndarray"):
                return "SIfArray %s (%s) (%s)" % (REGS[t.args[0].id], self.seq(s.body), self.seq(s.orelse))
            # modifier dispatch
            if self.mod_eq(t) == 0:
                branches = {0: s.body}
                cur = s
                for want in (1, 2):
                    if not (len(cur.orelse) == 1 and isinstance(cur.orelse[0], ast.If)
                            and self.mod_eq(cur.orelse[0].test) == want):
                        bail(cur, "modifier dispatch is not GLOBAL / ADAPTIVE / PER_OBJECT / else raise")
                    cur = cur.orelse[0]
                    branches[want] = cur.body
                if not (len(cur.orelse) == 1 and isinstance(cur.orelse[0], ast.Raise)):
                    bail(cur, "modifier dispatch does not end in raise")
                return "SDispatch (%s) (%s) (%s)" % tuple(self.seq(branches[k]) for k in (0, 1, 2))
            # sentinel: (threshold_modifier == TM_PER_OBJECT) and (labels is not None)
            if (isinstance(t, ast.BoolOp) and isinstance(t.op, ast.And) and len(t.values) == 2
                    and self.mod_eq(t.values[0]) == 2 and self.not_none(t.values[1]) == "labels"
                    and not s.orelse and len(s.body) == 1 and isinstance(s.body[0], ast.Assign)):
                a = s.body[0]
                tg = a.targets[0]
                if (len(a.targets) == 1 and isinstance(tg, ast.Subscript) and isinstance(tg.value, ast.Name)
                        and tg.value.id in REGS and self.seg(tg.slice) == "labels == 0"):
                    return "SSentinel %s (%s)" % (REGS[tg.value.id], self.expr(a.value))
            bail(s, "unrecognised if-statement %r" % self.seg(s.test))
        if isinstance(s, ast.Return):
            v = s.value
            if (isinstance(v, ast.Tuple) and [getattr(e, "id", None) for e in v.elts]
                    == ["local_threshold", "global_threshold"]):
                return None
            bail(s, "unexpected return value")
        bail(s, "unrecognised statement %s" % type(s).__name__)

    def translate(self, fn):
        want = ["threshold_method", "threshold_modifier", "image", "mask", "labels", "threshold_range_min",
                "threshold_range_max", "threshold_correction_factor", "adaptive_window_size"]
        if [a.arg for a in fn.args.args] != want or fn.args.kwarg is None or fn.args.vararg is not None:
            bail(fn, "get_threshold signature changed")
        if not isinstance(fn.body[-1], ast.Return) or any(
                isinstance(n, ast.Return) for s in fn.body[:-1] for n in ast.walk(s)):
            bail(fn, "get_threshold must return exactly once, at the end")
        return self.seq(fn.body)


# ------------------------------------------------------------------ access analysis

RAW, RAW_IF_NONE, DERIVED = "RAW", "RAW_IF_NONE", "DERIVED"
DOWN = {"get_global_threshold": 1, "get_adaptive_threshold": 1, "get_per_object_threshold": 1, "fn": 0}
EXPECTED_FUNCS = [
    "get_threshold", "get_global_threshold", "get_adaptive_threshold", "get_per_object_threshold",
    "get_otsu_threshold", "get_mog_threshold", "get_background_threshold",
    "get_robust_background_threshold", "get_ridler_calvard_threshold", "get_kapur_threshold",
    "get_maximum_correlation_threshold", "weighted_variance"]
# not a thresholding method and not reachable from get_threshold (a segmentation quality score that takes
# the histogram bounds from the whole smoothed image); outside the property's statement, reported as such
NOT_A_THRESHOLD = ["sum_of_entropies"]


def mask_none_test(test):
    """-> 'none' if test is `mask is None`, 'some' if `mask is not None` / `not mask is None`, else None"""
    if isinstance(test, ast.UnaryOp) and isinstance(test.op, ast.Not):
        r = mask_none_test(test.operand)
        return {"none": "some", "some": "none"}.get(r)
    if (isinstance(test, ast.Compare) and len(test.ops) == 1 and isinstance(test.left, ast.Name)
            and test.left.id == "mask" and isinstance(test.comparators[0], ast.Constant)
            and test.comparators[0].value is None):
        if isinstance(test.ops[0], ast.Is):
            return "none"
        if isinstance(test.ops[0], ast.IsNot):
            return "some"
    return None


class Access:
    def __init__(self, src, fn):
        self.src = src
        self.fn = fn
        self.out = []
        self.state = RAW
        self.parents = {}
        for n in ast.walk(fn):
            for c in ast.iter_child_nodes(n):
                self.parents[c] = n
        # no rebinding of mask, no nested scopes that could capture image
        for n in ast.walk(fn):
            if isinstance(n, ast.Name) and n.id == "mask" and isinstance(n.ctx, (ast.Store, ast.Del)):
                bail(n, "%s rebinds mask" % fn.name)
            if isinstance(n, (ast.Lambda, ast.FunctionDef, ast.ClassDef, ast.Global, ast.Nonlocal,
                              ast.Try, ast.With)) and n is not fn:
                bail(n, "%s: nested scope / try / with not supported by the access analysis" % fn.name)
        self.assigns = {}        # name -> list of value nodes assigned to it (for SliceDown)
        for n in ast.walk(fn):
            if isinstance(n, ast.Assign) and len(n.targets) == 1 and isinstance(n.targets[0], ast.Name):
                self.assigns.setdefault(n.targets[0].id, []).append(n.value)

    def seg(self, n):
        return ast.get_source_segment(self.src, n) or "?"

    def other(self, n):
        p = self.parents.get(n, n)
        pp = self.parents.get(p, p)
        return "Other %s" % coq_string(self.seg(pp if isinstance(pp, ast.expr) else p))

    def slice_down(self, sub, guard):
        """image[S] bound to a name that is only passed down as the image argument of
        get_global_threshold together with mask=<name whose definition restricts mask[S]>"""
        asg = self.parents.get(sub)
        if not (isinstance(asg, ast.Assign) and len(asg.targets) == 1 and isinstance(asg.targets[0], ast.Name)):
            return None
        var = asg.targets[0].id
        if len(self.assigns.get(var, [])) != 1:
            return None
        sdump = ast.dump(sub.slice)
        uses = [n for n in ast.walk(self.fn) if isinstance(n, ast.Name) and n.id == var
                and isinstance(n.ctx, ast.Load)]
        if not uses:
            return None
        for u in uses:
            call = self.parents.get(u)
            if not (isinstance(call, ast.Call) and isinstance(call.func, ast.Name)
                    and call.func.id == "get_global_threshold" and len(call.args) == 2 and call.args[1] is u):
                return None
            mk = [k for k in call.keywords if k.arg == "mask"]
            if len(mk) != 1 or not isinstance(mk[0].value, ast.Name):
                return None
            mvar = mk[0].value.id
            defs = self.assigns.get(mvar, [])
            ok = False
            for d in defs:
                # None if mask is None else mask[S]
                if (isinstance(d, ast.IfExp) and mask_none_test(d.test) == "none"
                        and isinstance(d.body, ast.Constant) and d.body.value is None
                        and isinstance(d.orelse, ast.Subscript) and isinstance(d.orelse.value, ast.Name)
                        and d.orelse.value.id == "mask" and ast.dump(d.orelse.slice) == sdump):
                    ok = True
                # np.logical_and(mask[S], mvar)   (under `if not mask is None`)
                if (isinstance(d, ast.Call) and self.seg(d.func) == "np.logical_and" and len(d.args) == 2
                        and isinstance(d.args[0], ast.Subscript) and isinstance(d.args[0].value, ast.Name)
                        and d.args[0].value.id == "mask" and ast.dump(d.args[0].slice) == sdump
                        and isinstance(d.args[1], ast.Name) and d.args[1].id == mvar):
                    par = self.parents.get(self.parents.get(d))
                    if isinstance(par, ast.If) and mask_none_test(par.test) == "some" and not par.orelse:
                        ok = True
            if not ok:
                return None
        return "SliceDown"

    def classify(self, n, guard):
        """n: a Load of the name `image` while it still denotes the raw parameter"""
        if self.state == RAW_IF_NONE:
            return "WholeIfNoMask"
        p = self.parents.get(n)
        if isinstance(p, ast.Attribute) and p.value is n and p.attr in ("shape", "dtype"):
            return "Meta"
        if isinstance(p, ast.Subscript) and p.value is n and isinstance(p.ctx, ast.Load):
            sl = p.slice
            if isinstance(sl, ast.Name) and sl.id == "mask":
                return "CropMask"
            if isinstance(sl, ast.BinOp) and isinstance(sl.op, ast.BitAnd) and any(
                    isinstance(x, ast.Name) and x.id == "mask" for x in (sl.left, sl.right)):
                return "CropSubMask"
            r = self.slice_down(p, guard)
            if r:
                return r
            return self.other(n)
        if isinstance(p, ast.Attribute) and p.value is n and p.attr == "flat":
            pp = self.parents.get(p)
            if (isinstance(pp, ast.Call) and self.seg(pp.func) == "np.array" and len(pp.args) == 1
                    and not pp.keywords and guard == "none"):
                return "WholeIfNoMask"
            return self.other(n)
        if isinstance(p, ast.Call) and isinstance(p.func, ast.Name) and p.func.id in DOWN:
            k = DOWN[p.func.id]
            pos = p.args
            if len(pos) > k and pos[k] is n:
                nxt = k + 1 if p.func.id in ("get_global_threshold", "fn") else k + 2
                if (len(pos) > nxt and isinstance(pos[nxt], ast.Name) and pos[nxt].id == "mask") or any(
                        kw.arg == "mask" and isinstance(kw.value, ast.Name) and kw.value.id == "mask"
                        for kw in p.keywords):
                    return "PassDown"
        return self.other(n)

    def expr_reads(self, e, guard):
        if e is None:
            return
        if isinstance(e, ast.IfExp):
            g = mask_none_test(e.test)
            self.expr_reads(e.test, guard)
            if g:
                self.expr_reads(e.body, g)
                self.expr_reads(e.orelse, "some" if g == "none" else "none")
            else:
                self.expr_reads(e.body, guard)
                self.expr_reads(e.orelse, guard)
            return
        if isinstance(e, ast.Name):
            if e.id == "image" and isinstance(e.ctx, ast.Load) and self.state != DERIVED:
                self.out.append(self.classify(e, guard))
            return
        for c in ast.iter_child_nodes(e):
            if not isinstance(c, (ast.expr_context, ast.operator, ast.unaryop, ast.boolop, ast.cmpop)):
                self.expr_reads(c, guard)

    def stores_image(self, s):
        return [n for n in ast.walk(s) if isinstance(n, ast.Name) and n.id == "image"
                and isinstance(n.ctx, ast.Store)]

    def block(self, stmts, guard):
        for s in stmts:
            self.stmt(s, guard)

    def stmt(self, s, guard):
        if isinstance(s, (ast.Assign, ast.AugAssign, ast.AnnAssign)):
            self.expr_reads(s.value, guard)
            targets = s.targets if isinstance(s, ast.Assign) else [s.target]
            for t in targets:
                if isinstance(t, ast.Name):
                    if t.id == "image":
                        if isinstance(s, ast.AugAssign) and self.state != DERIVED:
                            self.out.append("Other %s" % coq_string(self.seg(s)))
                        self.state = DERIVED
                else:
                    # store through a subscript/attribute: reads inside the target expression
                    for n in ast.walk(t):
                        if isinstance(n, ast.Name) and n.id == "image" and self.state != DERIVED:
                            if isinstance(n.ctx, ast.Load) and self.parents.get(n) is t:
                                self.out.append("Other %s" % coq_string(self.seg(s)))   # writes into the image
                            elif isinstance(n.ctx, ast.Load):
                                self.out.append(self.classify(n, guard))
                            else:
                                bail(s, "image rebound inside a compound target")
            return
        if isinstance(s, (ast.Expr, ast.Return, ast.Raise, ast.Assert)):
            for c in ast.iter_child_nodes(s):
                if isinstance(c, ast.expr):
                    self.expr_reads(c, guard)
            return
        if isinstance(s, ast.If):
            self.expr_reads(s.test, guard)
            g = mask_none_test(s.test)
            st0 = self.state
            self.block(s.body, g or guard)
            st_then = self.state
            self.state = st0
            self.block(s.orelse, ({"none": "some", "some": "none"}[g]) if g else guard)
            st_else = self.state
            if st_then == st_else:
                self.state = st_then
            elif g and {g: st_then, {"none": "some", "some": "none"}[g]: st_else} == {"some": DERIVED, "none": RAW}:
                self.state = RAW_IF_NONE
            else:
                bail(s, "%s: `image` is rebound on only one side of a test the analysis cannot follow" % self.fn.name)
            return
        if isinstance(s, (ast.For, ast.While)):
            if self.stores_image(s) and self.state != DERIVED:
                bail(s, "%s: `image` rebound inside a loop" % self.fn.name)
            if isinstance(s, ast.For):
                self.expr_reads(s.iter, guard)
            else:
                self.expr_reads(s.test, guard)
            self.block(s.body, guard)
            self.block(s.orelse, guard)
            return
        if isinstance(s, (ast.Pass, ast.Break, ast.Continue)):
            return
        bail(s, "%s: statement %s not supported by the access analysis" % (self.fn.name, type(s).__name__))

    def run(self):
        self.block(self.fn.body, None)
        return self.out


# ------------------------------------------------------------------ random streams (determinism, S4)

def _np_random_attr(n):
    """np.random.<X> -> X"""
    if (isinstance(n, ast.Attribute) and isinstance(n.value, ast.Attribute) and n.value.attr == "random"
            and isinstance(n.value.value, ast.Name) and n.value.value.id in ("np", "numpy")):
        return n.attr
    return None


def random_uses(modname, src):
    """Every use of a NumPy random stream in the module, classified: SeededGlobal (np.random.<draw> right
    after np.random.seed(<literal>) in the same block), SeededLocal (RandomState() whose next statement
    seeds it from a literal or from the data), Unseeded otherwise."""
    tree = ast.parse(src)
    for n in ast.walk(tree):
        if isinstance(n, (ast.Import, ast.ImportFrom)):
            mods = [a.name for a in n.names] + ([n.module] if isinstance(n, ast.ImportFrom) and n.module else [])
            for m in mods:
                if m.split(".")[0] in ("random", "time", "secrets", "uuid", "os", "datetime"):
                    raise Untranslatable("%s imports %s: not covered by the determinism analysis" % (modname, m))
    out = []

    def clean_seed_arg(a):
        for n in ast.walk(a):
            if isinstance(n, ast.Name) and n.id in ("time", "os", "random", "id", "hash", "object"):
                return False
            if _np_random_attr(n):
                return False
        return True

    def block(fname, stmts):
        seeded = False
        for i, st in enumerate(stmts):
            own = [st] if not isinstance(st, (ast.If, ast.For, ast.While)) else (
                [st.test] if isinstance(st, (ast.If, ast.While)) else [st.iter])
            for root in own:
                for n in ast.walk(root):
                    x = _np_random_attr(n)
                    if x is None:
                        continue
                    call = None
                    for m in ast.walk(root):
                        if isinstance(m, ast.Call) and m.func is n:
                            call = m
                    text = ast.get_source_segment(src, st) or x
                    if x == "seed":
                        if (call is not None and len(call.args) == 1 and isinstance(call.args[0], ast.Constant)
                                and isinstance(call.args[0].value, int) and isinstance(st, ast.Expr)):
                            seeded = True
                        else:
                            out.append((fname, "Unseeded %s" % coq_string(text)))
                    elif x == "RandomState":
                        ok = False
                        if (call is not None and not call.args and not call.keywords and isinstance(st, ast.Assign)
                                and len(st.targets) == 1 and isinstance(st.targets[0], ast.Name)
                                and st.value is call and i + 1 < len(stmts)):
                            nm = st.targets[0].id
                            nx = stmts[i + 1]
                            if (isinstance(nx, ast.Expr) and isinstance(nx.value, ast.Call)
                                    and isinstance(nx.value.func, ast.Attribute) and nx.value.func.attr == "seed"
                                    and isinstance(nx.value.func.value, ast.Name) and nx.value.func.value.id == nm
                                    and len(nx.value.args) == 1 and clean_seed_arg(nx.value.args[0])):
                                ok = True
                        elif (call is not None and len(call.args) == 1 and isinstance(call.args[0], ast.Constant)
                              and isinstance(call.args[0].value, int)):
                            ok = True
                        out.append((fname, "SeededLocal" if ok else "Unseeded %s" % coq_string(text)))
                    else:
                        out.append((fname, "SeededGlobal" if seeded else "Unseeded %s" % coq_string(text)))
            if isinstance(st, (ast.If, ast.For, ast.While)):
                block(fname, st.body)
                block(fname, st.orelse)
                seeded = False
            elif isinstance(st, (ast.With, ast.Try, ast.FunctionDef, ast.ClassDef)):
                for n in ast.walk(st):
                    if _np_random_attr(n):
                        out.append((fname, "Unseeded %s" % coq_string("inside " + type(st).__name__)))
            elif not (isinstance(st, ast.Expr) and seeded):
                # a draw must directly follow its seed: any other statement in between ends the guarantee
                if not any(_np_random_attr(n) == "seed" for n in ast.walk(st)):
                    seeded = False if not any(_np_random_attr(n) for n in ast.walk(st)) else seeded

    for fn in tree.body:
        if isinstance(fn, ast.FunctionDef):
            block("%s.%s" % (modname, fn.name), fn.body)
        elif not isinstance(fn, (ast.Import, ast.ImportFrom, ast.Assign, ast.Expr)):
            for n in ast.walk(fn):
                if _np_random_attr(n):
                    out.append((modname, "Unseeded %s" % coq_string("module level")))
    for st in tree.body:
        if isinstance(st, (ast.Assign, ast.Expr)):
            for n in ast.walk(st):
                if _np_random_attr(n):
                    out.append((modname, "Unseeded %s" % coq_string("module level")))
    return out


def translate(src, smooth_src=None, otsu_src=None):
    tree = ast.parse(src)
    fns = {n.name: n for n in tree.body if isinstance(n, ast.FunctionDef)}
    if "get_threshold" not in fns:
        raise Untranslatable("get_threshold not found")
    gt = GT(src)
    prog = gt.translate(fns["get_threshold"])
    consts = gt.consts
    # functions that receive (image, mask)
    cand = [n for n in tree.body if isinstance(n, ast.FunctionDef)
            and {"image", "mask"} <= {a.arg for a in n.args.args + n.args.kwonlyargs}]
    names = [n.name for n in cand]
    unknown = [n for n in names if n not in EXPECTED_FUNCS + NOT_A_THRESHOLD]
    if unknown:
        raise Untranslatable("functions taking (image, mask) that the check does not know: %s" % unknown)
    acc = []
    for n in cand:
        if n.name in NOT_A_THRESHOLD:
            continue
        acc.append((n.name, Access(src, n).run()))
    # which method functions does get_global_threshold dispatch to?
    disp = []
    for n in ast.walk(fns["get_global_threshold"]):
        if (isinstance(n, ast.Assign) and len(n.targets) == 1 and isinstance(n.targets[0], ast.Name)
                and n.targets[0].id == "fn"):
            if not isinstance(n.value, ast.Name):
                raise Untranslatable("get_global_threshold: fn bound to a non-name")
            disp.append(n.value.id)
    lines = [
        "(* GENERATED by tools/gen_threshold_c11.py from the staged centrosome/threshold.py - do not edit. *)",
        "From Coq Require Import ZArith QArith List String.",
        "From Centro Require Import Model.ThresholdLang.",
        "Import ListNotations.",
        "Open Scope string_scope.",
        "",
        "(* body of get_threshold *)",
        "Definition get_threshold_prog : stmt :=",
        "  " + prog + ".",
        "",
        "(* float literals of get_threshold, in source order: text and exact value of the double *)",
        "Definition get_threshold_consts : list (string * Q) :=",
        "  [" + "; ".join("(%s, %s)" % (coq_string(t), qlit(f)) for t, f in consts) + "].",
        "",
        "(* how each function that receives (image, mask) reads `image` *)",
        "Definition threshold_access : list (string * list access) :=",
        "  [" + ";\n   ".join("(%s, [%s])" % (coq_string(n), "; ".join(a)) for n, a in acc) + "].",
        "",
        "(* the method functions get_global_threshold dispatches to *)",
        "Definition threshold_dispatch : list string :=",
        "  [" + "; ".join(coq_string(d) for d in disp) + "].",
        "",
    ]
    if smooth_src is not None and otsu_src is not None:
        uses = random_uses("threshold", src) + random_uses("smooth", smooth_src) + random_uses("otsu", otsu_src)
        lines += [
            "(* every use of a NumPy random stream in threshold.py, smooth.py, otsu.py *)",
            "Definition threshold_random_uses : list (string * rand_use) :=",
            "  [" + ";\n   ".join("(%s, %s)" % (coq_string(f), u) for f, u in uses) + "].",
            "",
        ]
    return "\n".join(lines)


if __name__ == "__main__":
    import sys
    root = sys.argv[1] if len(sys.argv) > 1 else "/repo/centrosome"
    srcs = [open(root + "/" + n).read() for n in ("threshold.py", "smooth.py", "otsu.py")]
    sys.stdout.write(translate(*srcs))
