"""C11 translator (fail-closed, Python `ast`): centrosome/threshold.py -> coq/theories/Gen/ThresholdC11.v

(1) the body of get_threshold as a term of Model.ThresholdLang.stmt (order of the correction
    factor, range clamp, dispatch, second correction factor, band computation with the literal
    constants as source text AND exact rational of the double, element-wise clamps, sentinel);
(2) the band literals on their own;
(3) for every function that receives (image, mask): how it reads `image` (access classes).
Anything outside the recognised shapes raises Untranslatable (=> broken obligation)."""
import ast
from fractions import Fraction


class Untranslatable(Exception):
    pass


def bail(node, why):
    raise Untranslatable("threshold.py line %s: %s" % (getattr(node, "lineno", "?"), why))


MODS = {"TM_GLOBAL": "MGlobal", "TM_ADAPTIVE": "MAdaptive", "TM_PER_OBJECT": "MPerObject"}


def qlit(fr):
    n, d = fr.numerator, fr.denominator
    return "(Qmake %s %d)" % (("%d" % n) if n >= 0 else "(%d)" % n, d)


def coq_string(s):
    return '"' + s.replace('"', '""') + '"'


# terms are nested tuples: ("TRawG",) ("TConst", text, Fraction) ("TMul", a, b) ("TIf", cond, a, b) …;
# conditions ("CNotNone", t) ("CIsArray", t) ("CMod", k) ("CLabels",); opaque parameters ("P", name)
def t_if(c, a, b):
    return a if a == b else ("TIf", c, a, b)


def r_if(c, a, b):
    return a if a == b else ("RIf", c, a, b)


class GT:
    """get_threshold body -> terms of the two returned values, by symbolic evaluation.
    Environment: local name -> term.  Assignments (plain, tuple, augmented) to parameters or to fresh locals
    update it; `if` merges the environments of its branches name by name; `if c: return X` followed by code is
    if/else; `not a is b` is `a is not b`; docstrings and comments do not exist in the ast."""

    PARAMS = {"threshold_range_min": ("TLo",), "threshold_range_max": ("THi",),
              "threshold_correction_factor": ("TCf",)}
    OPAQUE = ["threshold_method", "threshold_modifier", "image", "mask", "labels", "adaptive_window_size", "kwargs"]

    def __init__(self, src):
        self.src = src

    def seg(self, node):
        return ast.get_source_segment(self.src, node)

    # ---- expressions
    def expr(self, e, env):
        if isinstance(e, ast.Name) and isinstance(e.ctx, ast.Load):
            if e.id in env:
                return env[e.id]
            bail(e, "name %s is not bound to a term" % e.id)
        if isinstance(e, ast.Constant) and type(e.value) is float:
            return ("TConst", self.seg(e), Fraction(e.value))      # exact value of the double the literal denotes
        if isinstance(e, ast.Constant) and e.value is None:
            return ("NoneLit",)
        if isinstance(e, ast.BinOp) and isinstance(e.op, ast.Mult):
            return ("TMul", self.num(e.left, env), self.num(e.right, env))
        if isinstance(e, ast.Call) and isinstance(e.func, ast.Name):
            f = e.func.id
            if f in ("max", "min") and len(e.args) == 2 and not e.keywords and not any(
                    isinstance(a, ast.Starred) for a in e.args):
                return ("TMax" if f == "max" else "TMin", self.num(e.args[0], env), self.num(e.args[1], env))
            if f.startswith("get_"):
                return self.call(e, env)
        if isinstance(e, ast.Tuple):
            return ("Tuple",) + tuple(self.expr(x, env) for x in e.elts)
        bail(e, "unrecognised expression %r" % self.seg(e))

    def num(self, e, env):
        t = self.expr(e, env)
        if t[0] in ("P", "NoneLit", "Tuple"):
            bail(e, "%r is not a threshold-valued expression" % self.seg(e))
        return t

    def call(self, call, env):
        fname = call.func.id
        args = [self.expr(a, env) for a in call.args]
        kws = [(k.arg, self.expr(k.value, env)) for k in call.keywords]
        P = lambda n: ("P", n)
        if fname == "get_global_threshold":
            if args == [P("threshold_method"), P("image"), P("mask")] and kws == [(None, P("kwargs"))]:
                return ("TRawG",)
        elif fname == "get_adaptive_threshold":
            # the third argument (the global threshold) is not used by the callee: any threshold term
            if (len(args) == 4 and args[:2] == [P("threshold_method"), P("image")] and args[3] == P("mask")
                    and args[2][0] not in ("P", "NoneLit", "Tuple")
                    and kws == [("adaptive_window_size", P("adaptive_window_size")), (None, P("kwargs"))]):
                return ("TRawAd",)
        elif fname == "get_per_object_threshold":
            # arguments 3, 6, 7 (global threshold, range limits) are not used by the callee
            if (len(args) == 7 and args[:2] == [P("threshold_method"), P("image")] and args[3] == P("mask")
                    and args[4] == P("labels") and all(a[0] not in ("P", "NoneLit", "Tuple") for a in (args[2], args[5], args[6]))
                    and kws == [(None, P("kwargs"))]):
                return ("TRawPo",)
        bail(call, "%s is not called with the expected arguments: %r" % (fname, self.seg(call)))

    # ---- conditions: (cond, positive?) pairs; `not` flips, `and` nests
    def cond(self, t, env):
        """-> function k(then, else) building the merged value for this test"""
        if isinstance(t, ast.UnaryOp) and isinstance(t.op, ast.Not):
            inner = self.cond(t.operand, env)
            return lambda a, b, mk: inner(b, a, mk)
        if isinstance(t, ast.BoolOp) and isinstance(t.op, ast.And):
            parts = [self.cond(v, env) for v in t.values]

            def k(a, b, mk, parts=parts):
                r = a
                for p in reversed(parts):
                    r = p(r, b, mk)
                return r
            return k
        if isinstance(t, ast.Compare) and len(t.ops) == 1:
            op, left, right = t.ops[0], t.left, t.comparators[0]
            if isinstance(op, (ast.Is, ast.IsNot)) and isinstance(right, ast.Constant) and right.value is None:
                v = self.expr(left, env)
                if v == ("P", "labels"):
                    c = ("CLabels",)
                elif v[0] in ("P", "NoneLit", "Tuple"):
                    bail(t, "None-test of %r" % self.seg(left))
                else:
                    c = ("CNotNone", v)
                if isinstance(op, ast.IsNot):
                    return lambda a, b, mk, c=c: mk(c, a, b)
                return lambda a, b, mk, c=c: mk(c, b, a)
            if (isinstance(op, (ast.Eq, ast.NotEq)) and isinstance(left, ast.Name) and env.get(left.id) == ("P", "threshold_modifier")
                    and isinstance(right, ast.Name) and right.id in MODS):
                c = ("CMod", MODS[right.id])
                if isinstance(op, ast.Eq):
                    return lambda a, b, mk, c=c: mk(c, a, b)
                return lambda a, b, mk, c=c: mk(c, b, a)
        if (isinstance(t, ast.Call) and isinstance(t.func, ast.Name) and t.func.id == "isinstance" and len(t.args) == 2
                and self.seg(t.args[1]) == "np.ndarray"):
            c = ("CIsArray", self.num(t.args[0], env))
            return lambda a, b, mk, c=c: mk(c, a, b)
        bail(t, "unrecognised test %r" % self.seg(t))

    # ---- statements; an environment also carries "#ret" (returned tuple or None) and "#raise" (rterm)
    def block(self, stmts, env):
        for i, s in enumerate(stmts):
            if env["#ret"] is not None or env["#raise"] == ("RAlways",):
                bail(s, "code after return / raise")
            if isinstance(s, ast.If):
                k = self.cond(s.test, env)
                rest = stmts[i + 1:]
                e1 = self.block(s.body, dict(env))
                e2 = self.block(s.orelse, dict(env))
                d1 = e1["#ret"] is not None or e1["#raise"] == ("RAlways",)
                d2 = e2["#ret"] is not None or e2["#raise"] == ("RAlways",)
                # `if c: return X` + rest  ==  if c: return X else: rest
                if rest and d1 != d2:
                    if d1:
                        e2 = self.block(rest, e2)
                    else:
                        e1 = self.block(rest, e1)
                    return self.merge(k, e1, e2, s)
                env = self.merge(k, e1, e2, s)
                continue
            env = self.stmt(s, env)
        return env

    def merge(self, k, e1, e2, node):
        dead1, dead2 = e1["#raise"] == ("RAlways",), e2["#raise"] == ("RAlways",)
        out = {}
        for name in set(e1) | set(e2):
            if name == "#raise":
                out[name] = k(e1[name], e2[name], r_if)
            elif dead1:                       # nothing is observed on a path that raises
                if name in e2:
                    out[name] = e2[name]
            elif dead2:
                if name in e1:
                    out[name] = e1[name]
            elif name in e1 and name in e2:
                a, b = e1[name], e2[name]
                if a == b:
                    out[name] = a
                elif name == "#ret":
                    if a is None or b is None or len(a) != len(b):
                        bail(node, "a branch returns and the other falls through to different code")
                    out[name] = tuple(k(x, y, t_if) for x, y in zip(a, b))
                elif a[0] in ("P", "NoneLit", "Tuple") or b[0] in ("P", "NoneLit", "Tuple"):
                    bail(node, "%s is bound to different non-threshold values in the two branches" % name)
                else:
                    out[name] = k(a, b, t_if)
            # a name bound on one side only is unusable afterwards (reading it bails)
        return out

    def assign(self, target, value, env, node):
        if isinstance(target, ast.Name):
            env[target.id] = value
            return env
        if isinstance(target, ast.Tuple) and value[0] == "Tuple" and len(target.elts) == len(value) - 1:
            for t, v in zip(target.elts, value[1:]):
                env = self.assign(t, v, env, node)
            return env
        if isinstance(target, ast.Subscript) and isinstance(target.value, ast.Name):
            name = target.value.id
            arr = env.get(name)
            if arr is None or arr[0] in ("P", "NoneLit", "Tuple"):
                bail(node, "masked store into %s" % name)
            sl = target.slice
            if isinstance(sl, ast.Compare) and len(sl.ops) == 1:
                left = self.expr(sl.left, env)
                c0 = sl.comparators[0]
                if (left == ("P", "labels") and isinstance(sl.ops[0], ast.Eq) and isinstance(c0, ast.Constant)
                        and type(c0.value) is int and c0.value == 0):
                    env[name] = ("TSentinel", arr, value)
                    return env
                if left == arr and isinstance(sl.ops[0], (ast.Lt, ast.Gt)) and self.expr(c0, env) == value:
                    env[name] = ("TClampLow" if isinstance(sl.ops[0], ast.Lt) else "TClampHigh", arr, value)
                    return env
        bail(node, "unrecognised assignment %r" % self.seg(node))

    def stmt(self, s, env):
        env = dict(env)
        if isinstance(s, ast.Expr) and isinstance(s.value, ast.Constant) and isinstance(s.value.value, str):
            return env                                              # docstring
        if isinstance(s, ast.Pass):
            return env
        if isinstance(s, ast.AugAssign):
            if isinstance(s.op, ast.Mult) and isinstance(s.target, ast.Name):
                env[s.target.id] = ("TMul", self.num(s.target, env) if False else self.num(
                    ast.copy_location(ast.Name(id=s.target.id, ctx=ast.Load()), s.target), env), self.num(s.value, env))
                return env
            bail(s, "unrecognised augmented assignment")
        if isinstance(s, ast.Assign):
            v = self.expr(s.value, env)
            for t in s.targets:
                env = self.assign(t, v, env, s)
            return env
        if isinstance(s, ast.Return):
            v = self.expr(s.value, env) if s.value is not None else None
            if v is None or v[0] != "Tuple" or len(v) != 3 or any(x[0] in ("P", "NoneLit", "Tuple") for x in v[1:]):
                bail(s, "get_threshold must return (local_threshold, global_threshold)")
            env["#ret"] = v[1:]
            return env
        if isinstance(s, ast.Raise):
            env["#raise"] = ("RAlways",)
            return env
        bail(s, "unrecognised statement %s" % type(s).__name__)

    def translate(self, fn):
        want = ["threshold_method", "threshold_modifier", "image", "mask", "labels", "threshold_range_min",
                "threshold_range_max", "threshold_correction_factor", "adaptive_window_size"]
        if [a.arg for a in fn.args.args] != want or fn.args.kwarg is None or fn.args.kwarg.arg != "kwargs" \
                or fn.args.vararg is not None or fn.args.kwonlyargs:
            bail(fn, "get_threshold signature changed")
        for n in ast.walk(fn):
            if isinstance(n, (ast.For, ast.While, ast.Try, ast.With, ast.Lambda, ast.FunctionDef, ast.Global,
                              ast.Nonlocal, ast.ListComp, ast.GeneratorExp)) and n is not fn:
                bail(n, "get_threshold: %s is outside the symbolic evaluator" % type(n).__name__)
        env = {n: ("P", n) for n in self.OPAQUE}
        env.update(self.PARAMS)
        env["#ret"] = None
        env["#raise"] = ("RNever",)
        env = self.block(fn.body, env)
        if env["#ret"] is None:
            bail(fn, "get_threshold does not return on every path")
        local, glob = env["#ret"]
        return local, glob, env["#raise"]


def term_coq(t):
    k = t[0]
    if k in ("TRawG", "TRawAd", "TRawPo", "TCf", "TLo", "THi"):
        return k
    if k == "TConst":
        return "(TConst %s)" % qlit(t[2])
    if k == "TIf":
        return "(TIf %s %s %s)" % (cond_coq(t[1]), term_coq(t[2]), term_coq(t[3]))
    if k in ("TMul", "TMax", "TMin", "TClampLow", "TClampHigh", "TSentinel"):
        return "(%s %s %s)" % (k, term_coq(t[1]), term_coq(t[2]))
    raise Untranslatable("internal: term %r" % (t,))


def cond_coq(c):
    if c[0] in ("CNotNone", "CIsArray"):
        return "(%s %s)" % (c[0], term_coq(c[1]))
    if c[0] == "CMod":
        return "(CMod %s)" % c[1]
    return "CLabels"


def rterm_coq(r):
    if r[0] == "RIf":
        return "(RIf %s %s %s)" % (cond_coq(r[1]), rterm_coq(r[2]), rterm_coq(r[3]))
    return r[0]


def term_consts(t, acc):
    """distinct literals in order of first appearance, same traversal as Model.ThresholdLang.term_consts"""
    k = t[0]
    if k == "TConst":
        if all(f != t[2] for _, f in acc):
            acc.append((t[1], t[2]))
    elif k == "TIf":
        if t[1][0] in ("CNotNone", "CIsArray"):
            term_consts(t[1][1], acc)
        term_consts(t[2], acc)
        term_consts(t[3], acc)
    elif k in ("TMul", "TMax", "TMin", "TClampLow", "TClampHigh", "TSentinel"):
        term_consts(t[1], acc)
        term_consts(t[2], acc)
    return acc


# ------------------------------------------------------------------ access analysis

RAW, RAW_IF_NONE, DERIVED = "RAW", "RAW_IF_NONE", "DERIVED"
DOWN = {"get_global_threshold": 1, "get_adaptive_threshold": 1, "get_per_object_threshold": 1, "fn": 0}
EXPECTED_FUNCS = [
    "get_threshold", "get_global_threshold", "get_adaptive_threshold", "get_per_object_threshold",
    "get_otsu_threshold", "get_mog_threshold", "get_background_threshold",
    "get_robust_background_threshold", "get_ridler_calvard_threshold", "get_kapur_threshold",
    "get_maximum_correlation_threshold", "weighted_variance"]
# not a thresholding method and not reachable from get_threshold (a segmentation quality score that takes
# the histogram bounds from the whole smoothed image); outside the property's statement, reported as such
NOT_A_THRESHOLD = ["sum_of_entropies"]


def mask_none_test(test):
    """-> 'none' if test is `mask is None`, 'some' if `mask is not None` / `not mask is None`, else None"""
    if isinstance(test, ast.UnaryOp) and isinstance(test.op, ast.Not):
        r = mask_none_test(test.operand)
        return {"none": "some", "some": "none"}.get(r)
    if (isinstance(test, ast.Compare) and len(test.ops) == 1 and isinstance(test.left, ast.Name)
            and test.left.id == "mask" and isinstance(test.comparators[0], ast.Constant)
            and test.comparators[0].value is None):
        if isinstance(test.ops[0], ast.Is):
            return "none"
        if isinstance(test.ops[0], ast.IsNot):
            return "some"
    return None


class Access:
    def __init__(self, src, fn):
        self.src = src
        self.fn = fn
        self.out = []
        self.state = RAW
        self.parents = {}
        for n in ast.walk(fn):
            for c in ast.iter_child_nodes(n):
                self.parents[c] = n
        # no rebinding of mask, no nested scopes that could capture image
        for n in ast.walk(fn):
            if isinstance(n, ast.Name) and n.id == "mask" and isinstance(n.ctx, (ast.Store, ast.Del)):
                bail(n, "%s rebinds mask" % fn.name)
            if isinstance(n, (ast.Lambda, ast.FunctionDef, ast.ClassDef, ast.Global, ast.Nonlocal,
                              ast.Try, ast.With)) and n is not fn:
                bail(n, "%s: nested scope / try / with not supported by the access analysis" % fn.name)
        # names that hold one of the module's functions taking (image, mask) (assigned, or loop targets over tables of them):
        # calling such a name with (image, mask, …) hands the pair down
        known = {n.name for n in ast.walk(ast.parse(src)) if isinstance(n, ast.FunctionDef)
                 and {"image", "mask"} <= {a.arg for a in n.args.args}}
        self.fnvars = {"fn"} if False else set()
        for n in ast.walk(fn):
            tgt, val = None, None
            if isinstance(n, ast.Assign) and len(n.targets) == 1:
                tgt, val = n.targets[0], n.value
            elif isinstance(n, ast.For):
                tgt, val = n.target, n.iter
                if isinstance(val, ast.Name):
                    defs = [m.value for m in ast.walk(fn) if isinstance(m, ast.Assign) and len(m.targets) == 1
                            and isinstance(m.targets[0], ast.Name) and m.targets[0].id == val.id]
                    val = defs[0] if len(defs) == 1 else val
            if tgt is None:
                continue
            if any(isinstance(m, ast.Name) and m.id in known for m in ast.walk(val)):
                for m in ast.walk(tgt):
                    if isinstance(m, ast.Name):
                        self.fnvars.add(m.id)
        self.img_alias = set()   # fresh locals bound to the raw parameter (`x = image`): read like `image` itself
        self.mask_names = {"mask"}
        self.assigns = {}        # name -> list of value nodes assigned to it (for SliceDown)
        for n in ast.walk(fn):
            if isinstance(n, ast.Assign) and len(n.targets) == 1 and isinstance(n.targets[0], ast.Name):
                self.assigns.setdefault(n.targets[0].id, []).append(n.value)

    def seg(self, n):
        return ast.get_source_segment(self.src, n) or "?"

    def other(self, n):
        p = self.parents.get(n, n)
        pp = self.parents.get(p, p)
        return "Other %s" % coq_string(self.seg(pp if isinstance(pp, ast.expr) else p))

    def slice_down(self, sub, guard):
        """image[S] bound to a name that is only passed down as the image argument of
        get_global_threshold together with mask=<name whose definition restricts mask[S]>"""
        asg = self.parents.get(sub)
        sdump = ast.dump(sub.slice)
        if isinstance(asg, ast.Call):
            uses = [sub]                              # image[S] written directly in the argument list
        else:
            if not (isinstance(asg, ast.Assign) and len(asg.targets) == 1 and isinstance(asg.targets[0], ast.Name)):
                return None
            var = asg.targets[0].id
            if len(self.assigns.get(var, [])) != 1:
                return None
            uses = [n for n in ast.walk(self.fn) if isinstance(n, ast.Name) and n.id == var
                    and isinstance(n.ctx, ast.Load)]
            if not uses:
                return None
        def is_submask(e):
            return (isinstance(e, ast.Subscript) and isinstance(e.value, ast.Name) and e.value.id in self.mask_names
                    and ast.dump(e.slice) == sdump)

        def guarded_some(e):
            """is e evaluated only where mask is not None (if-statement or conditional expression)?"""
            n = e
            while n in self.parents:
                p = self.parents[n]
                if isinstance(p, ast.If) and mask_none_test(p.test) == "some" and any(n is b or n in ast.walk(b) for b in p.body):
                    return True
                if isinstance(p, ast.If) and mask_none_test(p.test) == "none" and any(n is b or n in ast.walk(b) for b in p.orelse):
                    return True
                if isinstance(p, ast.IfExp) and ((mask_none_test(p.test) == "some" and p.body is n)
                                                  or (mask_none_test(p.test) == "none" and p.orelse is n)):
                    return True
                n = p
            return False

        def restricts(e, depth=0):
            """e denotes None (when mask is None) or an array contained in mask[S]"""
            if depth > 4:
                return False
            if is_submask(e):
                return True
            if isinstance(e, ast.IfExp) and mask_none_test(e.test) in ("none", "some"):
                none_side, some_side = (e.body, e.orelse) if mask_none_test(e.test) == "none" else (e.orelse, e.body)
                return (isinstance(none_side, ast.Constant) and none_side.value is None) and restricts(some_side, depth + 1)
            if isinstance(e, ast.Call) and self.seg(e.func) in ("np.logical_and", "numpy.logical_and") and len(e.args) == 2:
                return any(is_submask(a) for a in e.args) and guarded_some(e)
            if isinstance(e, ast.BinOp) and isinstance(e.op, ast.BitAnd):
                return any(is_submask(a) for a in (e.left, e.right)) and guarded_some(e)
            if isinstance(e, ast.Name):
                return any(restricts(d, depth + 1) for d in self.assigns.get(e.id, []))
            return False
        for u in uses:
            call = self.parents.get(u)
            if not (isinstance(call, ast.Call) and isinstance(call.func, ast.Name)
                    and call.func.id == "get_global_threshold" and len(call.args) >= 2 and call.args[1] is u):
                return None
            mk = [k.value for k in call.keywords if k.arg == "mask"] + list(call.args[2:3])
            if len(mk) != 1 or not restricts(mk[0]):
                return None
        return "SliceDown"

    def classify(self, n, guard):
        """n: a Load of the name `image` while it still denotes the raw parameter"""
        if self.state == RAW_IF_NONE and n.id == "image":
            return "WholeIfNoMask"
        p = self.parents.get(n)
        if isinstance(p, ast.Attribute) and p.value is n and p.attr in ("shape", "dtype"):
            return "Meta"
        if isinstance(p, ast.Subscript) and p.value is n and isinstance(p.ctx, ast.Load):
            sl = p.slice
            if isinstance(sl, ast.Name) and sl.id in self.mask_names:
                return "CropMask"
            if isinstance(sl, ast.BinOp) and isinstance(sl.op, ast.BitAnd) and any(
                    isinstance(x, ast.Name) and x.id in self.mask_names for x in (sl.left, sl.right)):
                return "CropSubMask"
            r = self.slice_down(p, guard)
            if r:
                return r
            return self.other(n)
        if isinstance(p, ast.Attribute) and p.value is n and p.attr == "flat":
            pp = self.parents.get(p)
            if (isinstance(pp, ast.Call) and self.seg(pp.func) == "np.array" and len(pp.args) == 1
                    and not pp.keywords and guard == "none"):
                return "WholeIfNoMask"
            return self.other(n)
        if isinstance(p, ast.Call) and isinstance(p.func, ast.Name) and (p.func.id in DOWN or p.func.id in self.fnvars):
            k = DOWN.get(p.func.id, 0)
            pos = p.args
            if len(pos) > k and pos[k] is n:
                nxt = k + 2 if p.func.id in ("get_adaptive_threshold", "get_per_object_threshold") else k + 1
                if (len(pos) > nxt and isinstance(pos[nxt], ast.Name) and pos[nxt].id in self.mask_names) or any(
                        kw.arg == "mask" and isinstance(kw.value, ast.Name) and kw.value.id in self.mask_names
                        for kw in p.keywords):
                    return "PassDown"
        return self.other(n)

    def expr_reads(self, e, guard):
        if e is None:
            return
        if isinstance(e, ast.IfExp):
            g = mask_none_test(e.test)
            self.expr_reads(e.test, guard)
            if g:
                self.expr_reads(e.body, g)
                self.expr_reads(e.orelse, "some" if g == "none" else "none")
            else:
                self.expr_reads(e.body, guard)
                self.expr_reads(e.orelse, guard)
            return
        if isinstance(e, ast.Name):
            if isinstance(e.ctx, ast.Load) and ((e.id == "image" and self.state != DERIVED) or e.id in self.img_alias):
                self.out.append(self.classify(e, guard))
            return
        for c in ast.iter_child_nodes(e):
            if not isinstance(c, (ast.expr_context, ast.operator, ast.unaryop, ast.boolop, ast.cmpop)):
                self.expr_reads(c, guard)

    def stores_image(self, s):
        return [n for n in ast.walk(s) if isinstance(n, ast.Name) and n.id == "image"
                and isinstance(n.ctx, ast.Store)]

    def block(self, stmts, guard):
        for s in stmts:
            self.stmt(s, guard)

    def stmt(self, s, guard):
        if (isinstance(s, ast.Assign) and len(s.targets) == 1 and isinstance(s.targets[0], ast.Name)
                and isinstance(s.value, ast.Name) and s.targets[0].id not in ("image", "mask")):
            # plain aliasing of a parameter by a fresh local is not an access
            v, t = s.value.id, s.targets[0].id
            if (v == "image" and self.state == RAW) or v in self.img_alias:
                if any(isinstance(n, ast.Name) and n.id == t and isinstance(n.ctx, ast.Store) and n is not s.targets[0]
                       for n in ast.walk(self.fn)):
                    bail(s, "%s: alias %s of image is rebound" % (self.fn.name, t))
                self.img_alias.add(t)
                return
            if v in self.mask_names:
                self.mask_names.add(t)
                return
        if isinstance(s, (ast.Assign, ast.AugAssign, ast.AnnAssign)):
            self.expr_reads(s.value, guard)
            targets = s.targets if isinstance(s, ast.Assign) else [s.target]
            for t in targets:
                if isinstance(t, ast.Name):
                    if t.id == "image":
                        if isinstance(s, ast.AugAssign) and self.state != DERIVED:
                            self.out.append("Other %s" % coq_string(self.seg(s)))
                        self.state = DERIVED
                else:
                    # store through a subscript/attribute: reads inside the target expression
                    for n in ast.walk(t):
                        if isinstance(n, ast.Name) and n.id == "image" and self.state != DERIVED:
                            if isinstance(n.ctx, ast.Load) and self.parents.get(n) is t:
                                self.out.append("Other %s" % coq_string(self.seg(s)))   # writes into the image
                            elif isinstance(n.ctx, ast.Load):
                                self.out.append(self.classify(n, guard))
                            else:
                                bail(s, "image rebound inside a compound target")
            return
        if isinstance(s, (ast.Expr, ast.Return, ast.Raise, ast.Assert)):
            for c in ast.iter_child_nodes(s):
                if isinstance(c, ast.expr):
                    self.expr_reads(c, guard)
            return
        if isinstance(s, ast.If):
            self.expr_reads(s.test, guard)
            g = mask_none_test(s.test)
            st0 = self.state
            self.block(s.body, g or guard)
            st_then = self.state
            self.state = st0
            self.block(s.orelse, ({"none": "some", "some": "none"}[g]) if g else guard)
            st_else = self.state
            if st_then == st_else:
                self.state = st_then
            elif g and {g: st_then, {"none": "some", "some": "none"}[g]: st_else} == {"some": DERIVED, "none": RAW}:
                self.state = RAW_IF_NONE
            else:
                bail(s, "%s: `image` is rebound on only one side of a test the analysis cannot follow" % self.fn.name)
            return
        if isinstance(s, (ast.For, ast.While)):
            if self.stores_image(s) and self.state != DERIVED:
                bail(s, "%s: `image` rebound inside a loop" % self.fn.name)
            if isinstance(s, ast.For):
                self.expr_reads(s.iter, guard)
            else:
                self.expr_reads(s.test, guard)
            self.block(s.body, guard)
            self.block(s.orelse, guard)
            return
        if isinstance(s, (ast.Pass, ast.Break, ast.Continue)):
            return
        bail(s, "%s: statement %s not supported by the access analysis" % (self.fn.name, type(s).__name__))

    def run(self):
        self.block(self.fn.body, None)
        return self.out


# ------------------------------------------------------------------ random streams (determinism, S4)

def _np_random_attr(n):
    """np.random.<X> -> X"""
    if (isinstance(n, ast.Attribute) and isinstance(n.value, ast.Attribute) and n.value.attr == "random"
            and isinstance(n.value.value, ast.Name) and n.value.value.id in ("np", "numpy")):
        return n.attr
    return None


def random_uses(modname, src):
    """Every use of a NumPy random stream in the module, classified: SeededGlobal (np.random.<draw> right
    after np.random.seed(<literal>) in the same block), SeededLocal (RandomState() whose next statement
    seeds it from a literal or from the data), Unseeded otherwise."""
    tree = ast.parse(src)
    for n in ast.walk(tree):
        if isinstance(n, (ast.Import, ast.ImportFrom)):
            mods = [a.name for a in n.names] + ([n.module] if isinstance(n, ast.ImportFrom) and n.module else [])
            for m in mods:
                if m.split(".")[0] in ("random", "time", "secrets", "uuid", "os", "datetime"):
                    raise Untranslatable("%s imports %s: not covered by the determinism analysis" % (modname, m))
    out = []

    def clean_seed_arg(a):
        for n in ast.walk(a):
            if isinstance(n, ast.Name) and n.id in ("time", "os", "random", "id", "hash", "object"):
                return False
            if _np_random_attr(n):
                return False
        return True

    def block(fname, stmts):
        seeded = False
        for i, st in enumerate(stmts):
            own = [st] if not isinstance(st, (ast.If, ast.For, ast.While)) else (
                [st.test] if isinstance(st, (ast.If, ast.While)) else [st.iter])
            for root in own:
                for n in ast.walk(root):
                    x = _np_random_attr(n)
                    if x is None:
                        continue
                    call = None
                    for m in ast.walk(root):
                        if isinstance(m, ast.Call) and m.func is n:
                            call = m
                    text = ast.get_source_segment(src, st) or x
                    if x == "seed":
                        if (call is not None and len(call.args) == 1 and isinstance(call.args[0], ast.Constant)
                                and isinstance(call.args[0].value, int) and isinstance(st, ast.Expr)):
                            seeded = True
                        else:
                            out.append((fname, "Unseeded %s" % coq_string(text)))
                    elif x == "RandomState":
                        ok = False
                        if (call is not None and not call.args and not call.keywords and isinstance(st, ast.Assign)
                                and len(st.targets) == 1 and isinstance(st.targets[0], ast.Name)
                                and st.value is call and i + 1 < len(stmts)):
                            nm = st.targets[0].id
                            nx = stmts[i + 1]
                            if (isinstance(nx, ast.Expr) and isinstance(nx.value, ast.Call)
                                    and isinstance(nx.value.func, ast.Attribute) and nx.value.func.attr == "seed"
                                    and isinstance(nx.value.func.value, ast.Name) and nx.value.func.value.id == nm
                                    and len(nx.value.args) == 1 and clean_seed_arg(nx.value.args[0])):
                                ok = True
                        elif (call is not None and len(call.args) == 1 and isinstance(call.args[0], ast.Constant)
                              and isinstance(call.args[0].value, int)):
                            ok = True
                        out.append((fname, "SeededLocal" if ok else "Unseeded %s" % coq_string(text)))
                    else:
                        out.append((fname, "SeededGlobal" if seeded else "Unseeded %s" % coq_string(text)))
            if isinstance(st, (ast.If, ast.For, ast.While)):
                block(fname, st.body)
                block(fname, st.orelse)
                seeded = False
            elif isinstance(st, (ast.With, ast.Try, ast.FunctionDef, ast.ClassDef)):
                for n in ast.walk(st):
                    if _np_random_attr(n):
                        out.append((fname, "Unseeded %s" % coq_string("inside " + type(st).__name__)))
            elif not (isinstance(st, ast.Expr) and seeded):
                # a draw must directly follow its seed: any other statement in between ends the guarantee
                if not any(_np_random_attr(n) == "seed" for n in ast.walk(st)):
                    seeded = False if not any(_np_random_attr(n) for n in ast.walk(st)) else seeded

    for fn in tree.body:
        if isinstance(fn, ast.FunctionDef):
            block("%s.%s" % (modname, fn.name), fn.body)
        elif not isinstance(fn, (ast.Import, ast.ImportFrom, ast.Assign, ast.Expr)):
            for n in ast.walk(fn):
                if _np_random_attr(n):
                    out.append((modname, "Unseeded %s" % coq_string("module level")))
    for st in tree.body:
        if isinstance(st, (ast.Assign, ast.Expr)):
            for n in ast.walk(st):
                if _np_random_attr(n):
                    out.append((modname, "Unseeded %s" % coq_string("module level")))
    return out


# ------------------------------------------------------------------ size thresholds (branch coverage of the search)

def _fold_int(e, env):
    """integer value of a constant expression (literals, + - * ** //, names bound once to such), else None"""
    if isinstance(e, ast.Constant) and type(e.value) is int:
        return e.value
    if isinstance(e, ast.Name) and e.id in env:
        return env[e.id]
    if isinstance(e, ast.BinOp):
        a, b = _fold_int(e.left, env), _fold_int(e.right, env)
        if a is None or b is None:
            return None
        try:
            if isinstance(e.op, ast.Pow) and 0 <= b <= 64:
                return a ** b
            if isinstance(e.op, ast.Mult):
                return a * b
            if isinstance(e.op, ast.Add):
                return a + b
            if isinstance(e.op, ast.Sub):
                return a - b
            if isinstance(e.op, ast.FloorDiv) and b:
                return a // b
        except Exception:
            return None
    return None


def size_thresholds(src):
    """{function name: sorted integer constants that some comparison of the function tests a non-constant
    quantity against} - the sizes at which the function changes branch (e.g. get_mog_threshold: 262144 from
    `max_count = 512 ** 2; if pixel_count > max_count`)"""
    tree = ast.parse(src)
    out = {}
    for fn in tree.body:
        if not isinstance(fn, ast.FunctionDef):
            continue
        env = {}
        stores = {}
        for n in ast.walk(fn):
            if isinstance(n, ast.Name) and isinstance(n.ctx, ast.Store):
                stores[n.id] = stores.get(n.id, 0) + 1
        defaults = fn.args.defaults
        for a, d in zip(fn.args.args[len(fn.args.args) - len(defaults):], defaults):
            v = _fold_int(d, {})
            if v is not None:
                env[a.arg] = v
        for _ in range(3):
            for n in ast.walk(fn):
                if (isinstance(n, ast.Assign) and len(n.targets) == 1 and isinstance(n.targets[0], ast.Name)
                        and stores.get(n.targets[0].id) == 1):
                    v = _fold_int(n.value, env)
                    if v is not None:
                        env[n.targets[0].id] = v
        cs = set()
        for n in ast.walk(fn):
            if isinstance(n, ast.Compare):
                sides = [n.left] + list(n.comparators)
                vals = [_fold_int(x, env) for x in sides]
                if any(v is None for v in vals):
                    cs.update(v for v in vals if v is not None and v >= 2)
        if cs:
            out[fn.name] = sorted(cs)
    return out


# ------------------------------------------------------------------ closed formulas of method bodies

class Formula:
    """arithmetic expression (names, int / float literals, + - * /, float(x), np.arange(N, dtype=float) as the level
    variable) -> Coq text over Q; literals become the exact rational of the value the code computes with"""

    def __init__(self, src, env, fname):
        self.src, self.env, self.fname = src, dict(env), fname
        self.levels = None

    def q(self, e):
        if isinstance(e, ast.Constant) and type(e.value) in (int, float):
            return qlit(Fraction(e.value))
        if isinstance(e, ast.Name):
            if e.id in self.env:
                return self.env[e.id]
            bail(e, "%s: name %s is not part of the formula" % (self.fname, e.id))
        if isinstance(e, ast.BinOp) and isinstance(e.op, (ast.Add, ast.Sub, ast.Mult, ast.Div)):
            op = {ast.Add: "+", ast.Sub: "-", ast.Mult: "*", ast.Div: "/"}[type(e.op)]
            return "(%s %s %s)" % (self.q(e.left), op, self.q(e.right))
        if isinstance(e, ast.Call) and isinstance(e.func, ast.Name) and e.func.id == "float" and len(e.args) == 1:
            return self.q(e.args[0])
        if (isinstance(e, ast.Call) and ast.get_source_segment(self.src, e.func) == "np.arange" and len(e.args) == 1
                and isinstance(e.args[0], ast.Constant) and type(e.args[0].value) is int
                and [(k.arg, ast.get_source_segment(self.src, k.value)) for k in e.keywords] == [("dtype", "float")]):
            if self.levels not in (None, e.args[0].value):
                bail(e, "%s: two different level counts" % self.fname)
            self.levels = e.args[0].value
            return "i"
        bail(e, "%s: unrecognised formula %r" % (self.fname, ast.get_source_segment(self.src, e)))


def body_formulas(src):
    tree = ast.parse(src)
    fns = {n.name: n for n in tree.body if isinstance(n, ast.FunctionDef)}
    out = []
    # ---- get_background_threshold: nbins, the two cutoff assignments, the returned value
    fn = fns.get("get_background_threshold")
    if fn is None:
        raise Untranslatable("get_background_threshold not found")
    env = {"index": "index", "img_min": "img_min", "img_max": "img_max"}
    nb = [n for n in ast.walk(fn) if isinstance(n, ast.Assign) and len(n.targets) == 1
          and isinstance(n.targets[0], ast.Name) and n.targets[0].id == "nbins"]
    if len(nb) != 1 or not (isinstance(nb[0].value, ast.Constant) and type(nb[0].value.value) is int):
        bail(fn, "get_background_threshold: nbins is not a single integer literal")
    nbins = nb[0].value.value
    env["nbins"] = qlit(Fraction(nbins))
    f = Formula(src, env, "get_background_threshold")
    cut = [n for n in fn.body if isinstance(n, ast.Assign) and len(n.targets) == 1
           and isinstance(n.targets[0], ast.Name) and n.targets[0].id == "cutoff"]
    if not cut:
        bail(fn, "get_background_threshold: no cutoff assignment at top level")
    for a in cut:
        f.env["cutoff"] = f.q(a.value)
    last = fn.body[-1]
    if not isinstance(last, ast.Return):
        bail(fn, "get_background_threshold does not end in a return")
    hist = [n for n in ast.walk(fn) if isinstance(n, ast.Call)
            and ast.get_source_segment(src, n.func) == "scipy.ndimage.histogram"]
    if len(hist) != 1 or len(hist[0].args) != 4 or not (isinstance(hist[0].args[3], ast.Name) and hist[0].args[3].id == "nbins"):
        bail(fn, "get_background_threshold: histogram is not built with nbins bins")
    out += ["(* get_background_threshold: value returned for the arg-max bin `index` of the nbins-bin histogram *)",
            "Definition background_nbins : Z := %d." % nbins,
            "Definition background_value (index img_min img_max : Q) : Q :=",
            "  %s." % f.q(last.value), ""]
    # ---- get_kapur_threshold: the histogram levels
    fn = fns.get("get_kapur_threshold")
    if fn is None:
        raise Untranslatable("get_kapur_threshold not found")
    hv = [n for n in fn.body if isinstance(n, ast.Assign) and len(n.targets) == 1
          and isinstance(n.targets[0], ast.Name) and n.targets[0].id == "histogram_values"]
    if not hv:
        bail(fn, "get_kapur_threshold: histogram_values not found")
    f = Formula(src, {"min_log_image": "lo", "max_log_image": "hi"}, "get_kapur_threshold")
    level = f.q(hv[0].value)
    hist = [n for n in ast.walk(fn) if isinstance(n, ast.Call)
            and ast.get_source_segment(src, n.func) == "scipy.ndimage.histogram"]
    if (f.levels is None or len(hist) != 1 or len(hist[0].args) != 4
            or not (isinstance(hist[0].args[3], ast.Constant) and hist[0].args[3].value == f.levels)):
        bail(fn, "get_kapur_threshold: histogram bins and level count differ")
    ret = fn.body[-1]
    if not (isinstance(ret, ast.Return) and ast.get_source_segment(src, ret.value).replace(" ", "")
            == "2**((histogram_values[entry]+histogram_values[entry+1])/2)"):
        bail(fn, "get_kapur_threshold: the returned value is not 2 ** (mean of two adjacent levels)")
    out += ["(* get_kapur_threshold: level i of the log2 histogram; the result is 2 ** (mean of two adjacent levels) *)",
            "Definition kapur_nlevels : Z := %d." % f.levels,
            "Definition kapur_level (i lo hi : Q) : Q :=",
            "  %s." % level, ""]
    # ---- get_robust_background_threshold: numeric defaults of the signature
    fn = fns.get("get_robust_background_threshold")
    if fn is None:
        raise Untranslatable("get_robust_background_threshold not found")
    names = [a.arg for a in fn.args.args]
    defs = dict(zip(names[len(names) - len(fn.args.defaults):], fn.args.defaults))
    items = []
    for k in ("lower_outlier_fraction", "upper_outlier_fraction", "deviations_above_average"):
        d = defs.get(k)
        if not (isinstance(d, ast.Constant) and type(d.value) is float):
            bail(fn, "get_robust_background_threshold: default of %s is not a float literal" % k)
        items.append("(%s, %s, %s)" % (coq_string(k), coq_string(ast.get_source_segment(src, d)), qlit(Fraction(d.value))))
    fnames = [ast.get_source_segment(src, defs[k]) if k in defs else None for k in ("average_fn", "variance_fn")]
    out += ["(* get_robust_background_threshold: defaults *)",
            "Definition robust_defaults : list (string * string * Q) :=", "  [" + "; ".join(items) + "].",
            "Definition robust_default_fns : list string := [%s]." % "; ".join(coq_string(x or "?") for x in fnames), ""]
    return out


# ------------------------------------------------------------------ method dispatch of get_global_threshold

class _Unknown(object):
    def __repr__(self):
        return "<?>"


UNKNOWN = _Unknown()


class _Break(Exception):
    pass


class _Return(Exception):
    def __init__(self, node, env):
        self.node, self.env = node, env


class _Raise(Exception):
    pass


class Dispatch:
    """Which implementation does get_global_threshold call for a given method name?  Found by RUNNING the function's
    control flow on the concrete method string: module-level string constants and function names are values, tuples /
    lists / dicts of them are values, `for … in <constant sequence>` is executed (break, for/else), `==`/`!=`/`in`/`is`
    between known values are decided, a test that cannot be decided may only guard an early `return <constant>` (the
    empty-mask rule) and is skipped.  So an if/elif chain, a scanned table of (name, function) pairs, a dict lookup
    … all give the same answer; anything else undecidable aborts the translation."""

    def __init__(self, src, tree, fn):
        self.src, self.fn = src, fn
        self.glob = {}
        for n in tree.body:
            if isinstance(n, ast.Assign) and len(n.targets) == 1 and isinstance(n.targets[0], ast.Name) \
                    and isinstance(n.value, ast.Constant) and isinstance(n.value.value, str):
                self.glob[n.targets[0].id] = n.value.value
            if isinstance(n, ast.FunctionDef):
                self.glob[n.name] = ("fn", n.name)

    def ev(self, e, env):
        if isinstance(e, ast.Constant):
            return e.value
        if isinstance(e, ast.Name):
            if e.id in env:
                return env[e.id]
            return self.glob.get(e.id, UNKNOWN)
        if isinstance(e, (ast.Tuple, ast.List)):
            return tuple(self.ev(x, env) for x in e.elts)
        if isinstance(e, ast.Dict):
            ks = [self.ev(k, env) for k in e.keys]
            if any(k is UNKNOWN for k in ks):
                return UNKNOWN
            return ("dict", tuple(zip(ks, [self.ev(v, env) for v in e.values])))
        if isinstance(e, ast.Subscript):
            c, k = self.ev(e.value, env), self.ev(e.slice, env)
            if isinstance(c, tuple) and c and c[0] == "dict" and k is not UNKNOWN:
                for kk, vv in c[1]:
                    if kk == k:
                        return vv
                raise _Raise()                       # KeyError
            if isinstance(c, tuple) and isinstance(k, int) and not (c and c[0] in ("dict", "fn")):
                return c[k] if -len(c) <= k < len(c) else UNKNOWN
            return UNKNOWN
        if isinstance(e, ast.Compare) and len(e.ops) == 1:
            a, b = self.ev(e.left, env), self.ev(e.comparators[0], env)
            op = e.ops[0]
            if a is UNKNOWN or b is UNKNOWN:
                return UNKNOWN
            if isinstance(op, (ast.Eq, ast.Is)):
                return a == b
            if isinstance(op, (ast.NotEq, ast.IsNot)):
                return a != b
            if isinstance(op, ast.In) and isinstance(b, tuple):
                return a in (tuple(k for k, _ in b[1]) if b and b[0] == "dict" else b)
            if isinstance(op, ast.NotIn) and isinstance(b, tuple):
                return a not in (tuple(k for k, _ in b[1]) if b and b[0] == "dict" else b)
            return UNKNOWN
        if isinstance(e, ast.UnaryOp) and isinstance(e.op, ast.Not):
            v = self.ev(e.operand, env)
            return UNKNOWN if v is UNKNOWN else (not v)
        if isinstance(e, ast.BoolOp):
            vals = [self.ev(v, env) for v in e.values]
            if isinstance(e.op, ast.And):
                if any(v is False for v in vals):
                    return False
                return UNKNOWN if any(v is UNKNOWN for v in vals) else all(vals)
            if any(v is True for v in vals):
                return True
            return UNKNOWN if any(v is UNKNOWN for v in vals) else any(vals)
        if (isinstance(e, ast.Call) and isinstance(e.func, ast.Attribute) and e.func.attr == "get" and 1 <= len(e.args) <= 2):
            c, k = self.ev(e.func.value, env), self.ev(e.args[0], env)
            if isinstance(c, tuple) and c and c[0] == "dict" and k is not UNKNOWN:
                for kk, vv in c[1]:
                    if kk == k:
                        return vv
                return self.ev(e.args[1], env) if len(e.args) == 2 else None
        return UNKNOWN

    def bind(self, t, v, env):
        if isinstance(t, ast.Name):
            env[t.id] = v
        elif isinstance(t, (ast.Tuple, ast.List)) and isinstance(v, tuple) and len(v) == len(t.elts) \
                and not (v and v[0] in ("dict", "fn")):
            for tt, vv in zip(t.elts, v):
                self.bind(tt, vv, env)
        elif isinstance(t, (ast.Tuple, ast.List)):
            for tt in t.elts:
                self.bind(tt, UNKNOWN, env)
        # stores through subscripts / attributes do not concern the dispatch

    def block(self, stmts, env):
        for s in stmts:
            if isinstance(s, ast.Expr):
                continue
            if isinstance(s, ast.Assign):
                v = self.ev(s.value, env)
                for t in s.targets:
                    self.bind(t, v, env)
            elif isinstance(s, ast.AugAssign):
                self.bind(s.target, UNKNOWN, env)
            elif isinstance(s, ast.If):
                c = self.ev(s.test, env)
                if c is UNKNOWN:
                    # only an early `return <constant>` may hide behind an undecidable test
                    if (not s.orelse and len(s.body) == 1 and isinstance(s.body[0], ast.Return)
                            and isinstance(s.body[0].value, ast.Constant)):
                        continue
                    bail(s, "get_global_threshold: undecidable test %r on the dispatch path" % ast.get_source_segment(self.src, s.test))
                self.block(s.body if c else s.orelse, env)
            elif isinstance(s, ast.For):
                seq = self.ev(s.iter, env)
                if not isinstance(seq, tuple) or (seq and seq[0] in ("dict", "fn")):
                    bail(s, "get_global_threshold: loop over a non-constant sequence on the dispatch path")
                broke = False
                for item in seq:
                    self.bind(s.target, item, env)
                    try:
                        self.block(s.body, env)
                    except _Break:
                        broke = True
                        break
                if not broke:
                    self.block(s.orelse, env)
            elif isinstance(s, ast.Break):
                raise _Break()
            elif isinstance(s, ast.Return):
                raise _Return(s, dict(env))
            elif isinstance(s, ast.Raise):
                raise _Raise()
            elif isinstance(s, ast.Pass):
                continue
            else:
                bail(s, "get_global_threshold: statement %s on the dispatch path" % type(s).__name__)

    def run(self, method):
        env = {"threshold_method": method}
        try:
            self.block(self.fn.body, env)
        except _Return as r:
            return r
        except _Raise:
            return None
        bail(self.fn, "get_global_threshold falls off its end for method %r" % method)

    def kwargs_filtered(self, e, callee_node, env_names):
        """**X where X is dict([(k, v) for k, v in kwargs.items() if k in F.args]) or the dict comprehension of the
        same, F being the callee; X may be a local bound once to it"""
        def norm(x):
            if isinstance(x, ast.Call) and isinstance(x.func, ast.Name) and x.func.id == "dict" and len(x.args) == 1 \
                    and isinstance(x.args[0], (ast.ListComp, ast.GeneratorExp)):
                c = x.args[0]
                elt = c.elt
                if not (isinstance(elt, ast.Tuple) and len(elt.elts) == 2):
                    return None
                k, v = elt.elts
            elif isinstance(x, ast.DictComp):
                c, k, v = x, x.key, x.value
            else:
                return None
            if len(c.generators) != 1:
                return None
            g = c.generators[0]
            if not (isinstance(g.target, ast.Tuple) and len(g.target.elts) == 2 and all(isinstance(t, ast.Name) for t in g.target.elts)):
                return None
            kn, vn = g.target.elts[0].id, g.target.elts[1].id
            if not (isinstance(k, ast.Name) and k.id == kn and isinstance(v, ast.Name) and v.id == vn):
                return None
            if ast.get_source_segment(self.src, g.iter).replace(" ", "") != "kwargs.items()" or len(g.ifs) != 1:
                return None
            t = g.ifs[0]
            if (isinstance(t, ast.Compare) and len(t.ops) == 1 and isinstance(t.ops[0], ast.In) and isinstance(t.left, ast.Name)
                    and t.left.id == kn and isinstance(t.comparators[0], ast.Attribute) and t.comparators[0].attr == "args"
                    and ast.dump(t.comparators[0].value) == ast.dump(callee_node)):
                return True
            return None
        if norm(e):
            return True
        if isinstance(e, ast.Name):
            defs = [n.value for n in ast.walk(self.fn) if isinstance(n, ast.Assign) and len(n.targets) == 1
                    and isinstance(n.targets[0], ast.Name) and n.targets[0].id == e.id]
            return len(defs) == 1 and bool(norm(defs[0]))
        return False


def dispatch_table(src, tree, fn):
    d = Dispatch(src, tree, fn)
    methods = None
    for n in tree.body:
        if isinstance(n, ast.Assign) and len(n.targets) == 1 and isinstance(n.targets[0], ast.Name) \
                and n.targets[0].id == "TM_METHODS" and isinstance(n.value, (ast.List, ast.Tuple)):
            methods = [d.ev(e, {}) for e in n.value.elts]
    if not methods or any(not isinstance(m, str) for m in methods):
        raise Untranslatable("TM_METHODS is not a list of string constants")
    table, filtered = [], True
    for m in methods:
        r = d.run(m)
        if r is None:
            table.append((m, "<raises>"))
            continue
        call = r.node.value
        if not (isinstance(call, ast.Call) and len(call.args) == 2 and [getattr(a, "id", None) for a in call.args] == ["image", "mask"]):
            bail(r.node, "get_global_threshold does not return <implementation>(image, mask, **kwargs)")
        callee = d.ev(call.func, r.env)
        if not (isinstance(callee, tuple) and len(callee) == 2 and callee[0] == "fn"):
            bail(r.node, "get_global_threshold: the callee for %r is not a module-level function" % m)
        kws = call.keywords
        if not (len(kws) == 1 and kws[0].arg is None and d.kwargs_filtered(kws[0].value, call.func, r.env)):
            filtered = False
        table.append((m, callee[1]))
    unknown = d.run("no such method")
    return table, filtered, unknown is None


# ------------------------------------------------------------------ arg-min selection idiom of otsu.py

def otsu_selection(src):
    """For every function of otsu.py: how the minimising split is selected.  Normal form `ExactMin`: the positions
    are np.argwhere(S == m) where m is S.min() / np.min(S) (directly or through a single-assignment local), in either
    operand order.  Anything else (np.isclose, <=, a tolerance, argmin on a transformed array) -> OtherSel."""
    tree = ast.parse(src)
    out = []
    for fn in tree.body:
        if not isinstance(fn, ast.FunctionDef):
            continue
        locs = {}
        for n in ast.walk(fn):
            if isinstance(n, ast.Assign) and len(n.targets) == 1 and isinstance(n.targets[0], ast.Name):
                locs.setdefault(n.targets[0].id, []).append(n.value)

        def is_min_of(e, arr):
            if isinstance(e, ast.Name) and len(locs.get(e.id, [])) == 1:
                e = locs[e.id][0]
            if (isinstance(e, ast.Call) and isinstance(e.func, ast.Attribute) and e.func.attr == "min" and not e.args
                    and not e.keywords and ast.dump(e.func.value) == ast.dump(arr)):
                return True
            return (isinstance(e, ast.Call) and ast.get_source_segment(src, e.func) in ("np.min", "numpy.min", "np.amin")
                    and len(e.args) == 1 and not e.keywords and ast.dump(e.args[0]) == ast.dump(arr))
        for n in ast.walk(fn):
            if isinstance(n, ast.Call) and ast.get_source_segment(src, n.func) in ("np.argwhere", "np.argmin", "np.nonzero",
                                                                                  "np.where", "np.flatnonzero"):
                ok = False
                if ast.get_source_segment(src, n.func) == "np.argwhere" and len(n.args) == 1 and not n.keywords:
                    c = n.args[0]
                    if isinstance(c, ast.Compare) and len(c.ops) == 1 and isinstance(c.ops[0], ast.Eq):
                        a, b = c.left, c.comparators[0]
                        ok = (isinstance(a, ast.Name) and is_min_of(b, a)) or (isinstance(b, ast.Name) and is_min_of(a, b))
                out.append((fn.name, "ExactMin" if ok else "OtherSel %s" % coq_string(ast.get_source_segment(src, n))))
    return out


def translate(src, smooth_src=None, otsu_src=None):
    tree = ast.parse(src)
    fns = {n.name: n for n in tree.body if isinstance(n, ast.FunctionDef)}
    if "get_threshold" not in fns:
        raise Untranslatable("get_threshold not found")
    gt = GT(src)
    local, glob, raises = gt.translate(fns["get_threshold"])
    consts = term_consts(glob, term_consts(local, []))
    # functions that receive (image, mask)
    cand = [n for n in tree.body if isinstance(n, ast.FunctionDef)
            and {"image", "mask"} <= {a.arg for a in n.args.args + n.args.kwonlyargs}]
    names = [n.name for n in cand]
    unknown = [n for n in names if n not in EXPECTED_FUNCS + NOT_A_THRESHOLD]
    if unknown:
        raise Untranslatable("functions taking (image, mask) that the check does not know: %s" % unknown)
    acc = []
    for n in cand:
        if n.name in NOT_A_THRESHOLD:
            continue
        acc.append((n.name, Access(src, n).run()))
    # which implementation does get_global_threshold run for each method name?
    disp, kw_filtered, unknown_raises = dispatch_table(src, tree, fns["get_global_threshold"])
    lines = [
        "(* GENERATED by tools/gen_threshold_c11.py from the staged centrosome/threshold.py - do not edit. *)",
        "From Coq Require Import ZArith QArith List String.",
        "From Centro Require Import Model.ThresholdLang.",
        "Import ListNotations.",
        "Open Scope string_scope.",
        "",
        "(* get_threshold by symbolic evaluation: the returned local value, the returned global value, the",
        "   condition under which the call raises explicitly *)",
        "Definition get_threshold_local : term :=",
        "  " + term_coq(local) + ".",
        "Definition get_threshold_global : term :=",
        "  " + term_coq(glob) + ".",
        "Definition get_threshold_raises : rterm :=",
        "  " + rterm_coq(raises) + ".",
        "Definition get_threshold_prog : program := mkProg get_threshold_local get_threshold_global get_threshold_raises.",
        "",
        "(* distinct float literals of the two terms in order of first appearance: text and exact value of the double *)",
        "Definition get_threshold_consts : list (string * Q) :=",
        "  [" + "; ".join("(%s, %s)" % (coq_string(t), qlit(f)) for t, f in consts) + "].",
        "",
        "(* how each function that receives (image, mask) reads `image` *)",
        "Definition threshold_access : list (string * list access) :=",
        "  [" + ";\n   ".join("(%s, [%s])" % (coq_string(n), "; ".join(a)) for n, a in acc) + "].",
        "",
        "(* get_global_threshold, run on each method name of TM_METHODS: (method, implementation called with (image, mask,",
        "   **kwargs)); whether the keywords are filtered by the implementation's argument list; whether an unknown name raises *)",
        "Definition threshold_dispatch : list (string * string) :=",
        "  [" + "; ".join("(%s, %s)" % (coq_string(m), coq_string(f)) for m, f in disp) + "].",
        "Definition threshold_dispatch_filters_kwargs : bool := %s." % ("true" if kw_filtered else "false"),
        "Definition threshold_dispatch_unknown_raises : bool := %s." % ("true" if unknown_raises else "false"),
        "",
    ]
    lines += ["Open Scope Q_scope."] + body_formulas(src) + ["Close Scope Q_scope.", ""]
    if smooth_src is not None and otsu_src is not None:
        uses = random_uses("threshold", src) + random_uses("smooth", smooth_src) + random_uses("otsu", otsu_src)
        sel = otsu_selection(otsu_src)
        lines += [
            "(* how each function of otsu.py selects the minimising split *)",
            "Definition otsu_selection : list (string * selection) :=",
            "  [" + "; ".join("(%s, %s)" % (coq_string(f), u) for f, u in sel) + "].",
            "",
        ]
        lines += [
            "(* every use of a NumPy random stream in threshold.py, smooth.py, otsu.py *)",
            "Definition threshold_random_uses : list (string * rand_use) :=",
            "  [" + ";\n   ".join("(%s, %s)" % (coq_string(f), u) for f, u in uses) + "].",
            "",
        ]
    return "\n".join(lines)


if __name__ == "__main__":
    import sys
    root = sys.argv[1] if len(sys.argv) > 1 else "/repo/centrosome"
    srcs = [open(root + "/" + n).read() for n in ("threshold.py", "smooth.py", "otsu.py")]
    sys.stdout.write(translate(*srcs))
